"""C08 - time periods.  Generators for the correspondence run.

M1 (interval algebra): real AddSegment/RemoveSegment/PurgeSegments/UpdateRegion/IsInside on registered TimePeriod
objects, the update function being a harness closure that returns the case's own segments.
M2 (calendar): the real LegacyTimePeriod::ScriptFunc under TZ=UTC / Europe/Berlin / America/New_York /
Australia/Lord_Howe, windows on and around DST transition days; the UTC-offset table the model uses is
computed here from the zoneinfo database and checked against libc by vdrive (tp_tz).  The model parses the
day definition / time range STRINGS itself (Tp/TpParse.v); ast= / tr= are the printer's cross-check."""
import random, itertools, datetime, bisect

try:
    import zoneinfo
except ImportError:                                            # pragma: no cover
    zoneinfo = None

PID = 'C08'
HEADER = []
T0 = 2000000000
CORR_NAME = 'TimePeriod interval algebra + LegacyTimePeriod calendar'
RULE = ('M1: every sequence of <=2 (quick) / <=3 (thorough) AddSegment/RemoveSegment calls over a 6-point grid (all orderings of '
        'equal/adjacent/overlapping end points) plus random sequences of 3-6 calls incl. degenerate (begin>=end) intervals and PurgeSegments; '
        'UpdateRegion on 2-4 periods with includes/excludes/prefer_includes nesting on the same grid, clearExisting on/off, windows '
        'before/inside/after valid_end; IsInside probed at every grid point and its neighbours, the is_inside attribute under the virtual clock. '
        'M2: every day-specification form (date, month day, day N, negative days, weekday, n-th weekday, n-th weekday of month, ranges, strides) '
        'x {one range, two ranges, 24:00 end, wrap past midnight, >24h end} x 4 time zones x windows of 1 h..3 d placed on and around DST '
        'transition days; IsInside probed at every range boundary +-1 s and on a 30-minute grid; '
        'm2-month-name: every form that names a month, seen from windows in the named month, the month before/after, at month ends and around Feb 28/29 of 2034/2035/2036; '
        'm2-nth-transition: n-th weekday searches walking over every transition day of every zone; m2-mktime: libc mktime against the table model before/at/inside/after every skipped and repeated hour; '
        'm2-range-list: one day, 2-4 ranges of one comma-separated list in every relative position (disjoint, adjacent, overlapping, nested, identical, nested ending/beginning together, three- and four-level nesting, outer with several inner) x every written order (all permutations up to 3 ranges, 6 of 24 for 4 in the quick tier) x {within the day, across midnight (wrap form or hour >= 24), ending at 24:00} x {one key, weekday + date key sharing the list, a referencing period with included/excluded periods whose lists nest likewise}; '
        'm2-rolling: 48-72 h of the REAL TimePeriod::UpdateTimerHandler() after Start() (5-minute rounds around every local midnight, 15 min - 2 h steps and one stall of 5-9 h in between), the referencing period created (= updated in every round) before, between or after the periods it includes/excludes, those with ranges running past midnight; every round judged at every probe from one hour before the round up to valid_end; '
        'the probes of every calendar case contain both boundaries of every written range (+-1 s) and the middle of every gap between consecutive boundaries - the oracle recomputes that list from the written ranges and refuses to decide otherwise; '
        'm2-restart-changed-definition: three periods run (real Start() + real UpdateTimerHandler rounds), then every period goes through tp_reload (state attributes through the state-file record and the real ConfigObject::RestoreObject into a NEW object built from an edited definition: own ranges, part of the ranges removed, ranges of a referenced period, exclude / include added / dropped / swapped, prefer_includes flipped, unchanged as control), the real Start() on the restored state 0 s - 11 h after the last round, 2-60 more rounds; every answer judged against the NEW definition; m2-directed-restart-valid-end: the witness of finding restart-keeps-valid-end, its control and the reverse edit. '
        'm2-parse-*: 126 hand-made corner strings and mutated printed strings through config validation (accepted/rejected, code against the parser model), odd but accepted strings evaluated. '
        'non-trivial = at least one observed state with a segment and both inside and outside probes; distinct = distinct script text')
TRUSTED = ['model: coq/Tp/TpModel.v (transcription of timeperiod.cpp 41-301), coq/Tp/TpCal.v (transcription of legacytimeperiod.cpp '
           'IsInTimeRange/FindNthWeekday/ProcessTimeRange*/ScriptFunc on the parsed form), coq/Tp/TpParse.v (transcription of ParseTimeRange/ParseTimeSpec/ProcessTimeRanges on byte strings)',
           'which of the two known forms IsInTimeRange\'s day number, ScriptFunc\'s day loop and UpdateRegion / Merge (early return, or merge of the referenced periods cut off at valid_end in every round) have is read from the source text by tools/facts_c08.py (string match on the comment-stripped function bodies)',
           'the generator prints string and parsed form; the parsed form the model and the oracle use comes from the parser model applied to the string; the printed parsed form is only cross-checked (oracle class parse-roundtrip)',
           "libc's time zone database: the offset table given to the model is computed from /usr/share/zoneinfo by Python and compared with localtime_r by vdrive in every case (tp_tz)",
           'mktime for local times inside a skipped/repeated DST hour is modelled after observed glibc behaviour (compared in family m2-mktime, libc primed with the local time two days earlier) and not used by any theorem (range boundaries are restricted to local times that exist once)']
ASSUMPTIONS = ['times are whole seconds (exact in binary64)',
               'local midnight exists exactly once on every day the loops ask about (true for the four zones used; checked by computation per case: tp_cal_hyps_ok)',
               'range boundaries are local times that exist exactly once on the days of the window (the property\'s own restriction); generated time-of-day boundaries avoid 01:00-03:00 in zones with DST',
               'single-window families: periods referenced by includes/excludes are updated before the referencing period, for the same window; family m2-rolling: any order, the statement then refers to the referenced periods as they were at the last round that recomputed (C08_rolling_updates)',
               'rolling updates (hypotheses of C08_rolling_updates, not proved for the calendar function, exercised by m2-rolling): referenced periods have no includes/excludes of their own (their inside sets only grow), ranges begin within their day and end at most 48 h after its 00:00',
               'numbers in generated strings stay below 2^31 in magnitude except for the listed overflow probes; n-th weekday numbers stay small (the search is linear in n); huge negative month days (boost::gregorian range errors) are not generated']

MONTHS = ['january', 'february', 'march', 'april', 'may', 'june', 'july', 'august', 'september', 'october', 'november', 'december']
WDAYS = ['sunday', 'monday', 'tuesday', 'wednesday', 'thursday', 'friday', 'saturday']
ZONES = ['UTC', 'Europe/Berlin', 'America/New_York', 'Australia/Lord_Howe']


def hx(s):
    return s.encode().hex() if s else '-'


def unhx(h):
    return '' if h == '-' else bytes.fromhex(h).decode('utf-8', 'replace')


# ----------------------------------------------------------------------------- time zones

_ZT = {}


def zone_table(zn):
    """-> (base offset at LO, [(t, off)...]) over [T0-40d, T0+1100d] (2033-04 .. 2036-05, so that a leap-year
    February lies inside), from the zoneinfo database"""
    if zn in _ZT:
        return _ZT[zn]
    lo, hi = T0 - 40 * 86400, T0 + 1100 * 86400
    if zn == 'UTC' or zoneinfo is None:
        _ZT[zn] = (0, [], lo, hi)
        return _ZT[zn]
    z = zoneinfo.ZoneInfo(zn)

    def off(t):
        return int(datetime.datetime.fromtimestamp(t, z).utcoffset().total_seconds())
    base = off(lo)
    tab = []
    cur = base
    t = lo
    while t < hi:
        n = t + 6 * 3600
        o = off(n)
        if o != cur:
            a, b = t, n                                  # off(a) == cur, off(b) != cur
            while b - a > 1:
                m = (a + b) // 2
                if off(m) == cur:
                    a = m
                else:
                    b = m
            tab.append((b, o))
            cur = o
        t = n
    _ZT[zn] = (base, tab, lo, hi)
    return _ZT[zn]


def off_at(zn, t):
    base, tab, _, _ = zone_table(zn)
    o = base
    for ti, oi in tab:
        if ti <= t:
            o = oi
    return o


def mk_local(zn, l):
    """local seconds -> utc (first regime in which it exists; pre-transition offset in a gap)"""
    base, tab, _, _ = zone_table(zn)
    o = base
    for ti, oi in tab:
        if l - o < ti or l - oi < ti:
            return l - o
        o = oi
    return l - o


def tz_line(zn, lo, hi):
    base, tab, _, _ = zone_table(zn)
    return 'tp_tz z=%s base=%d tab=%s lo=%d hi=%d' % (zn, base, ','.join('%d:%d' % p for p in tab) or '-', lo, hi)


def days_from_civil(y, m, d):
    return (datetime.date(y, m, d) - datetime.date(1970, 1, 1)).days


# ----------------------------------------------------------------------------- M1

GRID = [T0 + 100 * k for k in range(1, 7)]


def pts_for(vals):
    s = set()
    for v in vals:
        s.update((v - 1, v, v + 1))
    return sorted(s)


def m1_case(ops, fam, extra_pts=()):
    """ops: list of script lines operating on period 'a' (already created)"""
    vals = set(GRID) | set(extra_pts)
    lines = ['now %d' % T0, 'tp_pts ' + ','.join(str(p) for p in pts_for(vals)), 'tp_new name=a'] + list(ops)
    return {'lines': lines, 'tags': {'family': fam}}


def seg_op(kind, b, e):
    return 'tp_%s name=a b=%d e=%d' % (kind, b, e)


def gen_m1(rnd, tier):
    cases = []
    ivs = [(GRID[i], GRID[j]) for i in range(6) for j in range(i + 1, 6)]
    allops = [(k, b, e) for k in ('add', 'rm') for (b, e) in ivs]
    depth = 3 if tier == 'thorough' else 2
    for n in range(1, depth + 1):
        for seq in itertools.product(allops, repeat=n):
            if seq[0][0] == 'rm':
                continue                                   # removing from an empty period: covered once below
            cases.append(m1_case([seg_op(*o) for o in seq], 'm1-exhaustive-%d' % n))
    cases.append(m1_case([seg_op('rm', GRID[1], GRID[3]), seg_op('add', GRID[0], GRID[2])], 'm1-exhaustive-2'))
    nrand = {'quick': 1500, 'thorough': 12000, 'search': 4000}.get(tier, 1500)
    for i in range(nrand):
        ops = []
        floor = 0        # after PurgeSegments(t) time only moves forward: later calls do not begin before t
        for j in range(rnd.randint(3, 6)):
            r = rnd.random()
            if r < 0.08:
                t = rnd.choice([g for g in GRID + [GRID[0] - 50, GRID[-1] + 50] if g >= floor])
                floor = t
                ops.append('tp_purge name=a t=%d' % t)
            elif r < 0.16:
                cand = [g for g in GRID if g >= floor]
                if not cand:
                    break
                b, e = rnd.choice(cand), rnd.choice(GRID)    # possibly degenerate
                ops.append(seg_op(rnd.choice(('add', 'rm')), b, e))
            elif r < 0.2:
                ops.append('now %d' % rnd.choice(pts_for(GRID)))
                ops.append('tp_now name=a')
            else:
                cand = [o for o in allops if o[1] >= floor]
                if not cand:
                    break
                ops.append(seg_op(*rnd.choice(cand)))
        cases.append(m1_case(ops, 'm1-random'))
    # UpdateRegion with includes / excludes / prefer_includes
    nupd = {'quick': 1500, 'thorough': 10000, 'search': 4000}.get(tier, 1500)
    for i in range(nupd):
        names = ['a', 'b', 'c', 'd'][:rnd.randint(2, 4)]
        lines = ['now %d' % T0, 'tp_pts ' + ','.join(str(p) for p in pts_for(GRID + [GRID[0] - 100, GRID[-1] + 100]))]
        # dependency order: a period may reference only later names; later names are updated first
        leaf = set()
        for k, n in enumerate(names):
            later = names[k + 1:]
            inc = [x for x in later if rnd.random() < 0.45]
            exc = [x for x in later if x not in inc and rnd.random() < 0.6]
            if not inc and not exc:
                leaf.add(n)
            if rnd.random() < 0.05:
                exc.append('ghost')                         # a name that does not exist is skipped
            lines.append('tp_new name=%s prefer=%d inc=%s exc=%s' % (n, rnd.randint(0, 1), ','.join(inc) or '-', ','.join(exc) or '-'))
        for n in names:
            segs = [rnd.choice(ivs) for _ in range(rnd.choice((0, 1, 1, 2, 3)))]
            lines.append('tp_own name=%s segs=%s' % (n, ','.join('%d-%d' % s for s in segs) or '-'))
        wb, we = GRID[0] - 100, GRID[-1] + 100
        mode = rnd.choice(('full', 'full', 'partial', 'two-step'))
        if mode == 'partial':
            wb, we = sorted(rnd.sample(GRID, 2))
        for n in reversed(names):
            lines.append('tp_upd name=%s b=%d e=%d clear=1' % (n, wb, we))
        if mode == 'two-step':
            # new own segments, then the timer path: purge + UpdateRegion(valid_end, later, false)
            # time only moves forward: after PurgeSegments(t) the update function returns nothing that begins before t;
            # periods with includes/excludes are not purged here (Merge re-adds the referenced periods' old segments,
            # which moves valid_begin back before t and exposes whatever representation survived the purge)
            for n in reversed(names):
                t = rnd.choice(GRID) if (n in leaf and rnd.random() < 0.7) else None
                cand = [iv for iv in ivs if t is None or iv[0] >= t]
                segs = [rnd.choice(cand) for _ in range(rnd.choice((0, 1, 2)))] if cand else []
                lines.append('tp_own name=%s segs=%s' % (n, ','.join('%d-%d' % s for s in segs) or '-'))
                if t is not None:
                    lines.append('tp_purge name=%s t=%d' % (n, t))
                lines.append('tp_upd name=%s b=%d e=%d clear=0' % (n, rnd.choice(GRID), rnd.choice(GRID + [we, we + 100])))
        lines.append('now %d' % rnd.choice(pts_for(GRID)))
        lines.append('tp_now name=a')
        cases.append({'lines': lines, 'tags': {'family': 'm1-update-region-' + mode}})
    return cases


# ----------------------------------------------------------------------------- M2

def fmt_tod(s, rnd=None):
    h, r = divmod(s, 3600)
    m, sec = divmod(r, 60)
    if sec or (rnd and rnd.random() < 0.1):
        return '%02d:%02d:%02d' % (h, m, sec)
    return '%02d:%02d' % (h, m)


def safe_tod(rnd, zn, lo=0, hi=86400):
    """a time of day whose local time exists exactly once on every day (avoid 01:00-03:00 in DST zones)"""
    while True:
        r = rnd.random()
        if r < 0.6:
            t = rnd.randrange(lo // 1800, hi // 1800 + 1) * 1800
        elif r < 0.9:
            t = rnd.randrange(lo // 60, hi // 60 + 1) * 60
        else:
            t = rnd.randint(lo, hi)
        if t < lo or t > hi:
            continue
        if zn != 'UTC' and 3600 <= t % 86400 < 10800:
            continue
        return t


def spec_str(sp):
    k = sp[0]
    if k == 'd':
        return '%04d-%02d-%02d' % sp[1:]
    if k == 'm':
        return ('day' if sp[1] < 0 else MONTHS[sp[1]]) + ' %d' % sp[2]
    s = WDAYS[sp[1]]
    if sp[2] != 0:
        s += ' %d' % sp[2]
        if sp[3] >= 0:
            s += ' ' + MONTHS[sp[3]]
    return s


def spec_ast(sp):
    return '.'.join(str(x) for x in sp)


def daydef(first, last=None, stride=1, rnd=None):
    s = spec_str(first)
    a = spec_ast(first)
    if last is not None:
        ls = spec_str(last)
        fw, lw = s.split(' ')[0], ls.split(' ')[0]
        if rnd and fw == lw and ' ' in ls and first[0] != 'd' and rnd.random() < 0.5:
            ls = ls.split(' ', 1)[1]                          # "day 1 - 15", "monday 1 - 3"
            if ' ' in ls:                                      # "monday 1 - 3 march" would not be re-prefixed correctly
                ls = spec_str(last)
        s += ' - ' + ls
        a += '~' + spec_ast(last)
    if stride != 1:
        s += ' / %d' % stride
        a += '/%d' % stride
    return s, a


def local_date(zn, t):
    l = t + off_at(zn, t)
    return datetime.date(1970, 1, 1) + datetime.timedelta(days=l // 86400)


def rand_spec(rnd, zn, anchor_t, allow_range=True):
    """a day definition likely to match days around anchor_t -> (first, last, stride)"""
    d = local_date(zn, anchor_t) + datetime.timedelta(days=rnd.choice((0, 0, 0, 1, -1, 2)))
    wd = (d.weekday() + 1) % 7
    nth = (d.day - 1) // 7 + 1
    import calendar
    dim = calendar.monthrange(d.year, d.month)[1]
    nth_neg = -((dim - d.day) // 7 + 1)
    form = rnd.choice(('date', 'monthday', 'dayn', 'dayneg', 'monthneg', 'wday', 'wday', 'nth', 'nthneg', 'nthmon', 'nthnegmon'))
    sp = {
        'date': ('d', d.year, d.month, d.day),
        'monthday': ('m', d.month - 1, d.day),
        'dayn': ('m', -1, d.day),
        'dayneg': ('m', -1, d.day - dim - 1),
        'monthneg': ('m', d.month - 1, d.day - dim - 1),
        'wday': ('w', wd, 0, -1),
        'nth': ('w', wd, nth, -1),
        'nthneg': ('w', wd, nth_neg, -1),
        'nthmon': ('w', wd, nth, d.month - 1),
        'nthnegmon': ('w', wd, nth_neg, d.month - 1),
    }[form]
    return sp, form, d


def rand_range_def(rnd, zn, anchor_t):
    """first - last range around the anchor"""
    d = local_date(zn, anchor_t)
    import calendar
    kind = rnd.choice(('date', 'day', 'month', 'month2', 'dayneg'))
    a = d - datetime.timedelta(days=rnd.randint(0, 6))
    b = d + datetime.timedelta(days=rnd.randint(0, 6))
    if kind == 'date':
        return ('d', a.year, a.month, a.day), ('d', b.year, b.month, b.day), 'range-date'
    if kind == 'day':
        lo, hi = max(1, d.day - rnd.randint(0, 5)), min(28, d.day + rnd.randint(0, 5))
        return ('m', -1, lo), ('m', -1, max(lo, hi)), 'range-day'
    if kind == 'dayneg':
        return ('m', -1, max(1, d.day - 3)), ('m', -1, -1), 'range-day-to-last'
    if kind == 'month':
        lo, hi = max(1, d.day - rnd.randint(0, 5)), min(28, d.day + rnd.randint(0, 5))
        return ('m', d.month - 1, lo), ('m', d.month - 1, max(lo, hi)), 'range-month'
    return ('m', a.month - 1, a.day), ('m', b.month - 1, b.day), 'range-month-month'


def rand_times(rnd, zn, shape):
    """-> list of (tb, te) as written"""
    if shape == 'one':
        tb = safe_tod(rnd, zn, 0, 80000)
        te = safe_tod(rnd, zn, tb + 60, 86399)
        return [(tb, te)]
    if shape == 'two':
        a = sorted(safe_tod(rnd, zn, 0, 86399) for _ in range(4))
        while len(set(a)) < 4:
            a = sorted(safe_tod(rnd, zn, 0, 86399) for _ in range(4))
        if rnd.random() < 0.3:
            return [(a[0], a[2]), (a[1], a[3])]            # overlapping
        if rnd.random() < 0.3:
            return [(a[0], a[1]), (a[1], a[3])]            # adjacent
        return [(a[0], a[1]), (a[2], a[3])]
    if shape == 'to24':
        return [(safe_tod(rnd, zn, 0, 86000), 86400)]
    if shape == 'allday':
        return [(0, 86400)]
    if shape == 'wrap':
        tb = safe_tod(rnd, zn, 43200, 86399)
        te = safe_tod(rnd, zn, 0, min(tb, 43200))
        return [(tb, te)]
    if shape == 'over24':
        tb = safe_tod(rnd, zn, 0, 86399)
        te = 86400 + safe_tod(rnd, zn, 60, 43200)
        return [(tb, te)]
    raise ValueError(shape)


def times_str(trs, rnd):
    return ','.join('%s-%s' % (fmt_tod(tb, rnd), fmt_tod(te, rnd)) for tb, te in trs)


def range_line(name, ddstr, ddast, trs, rnd):
    return 'tp_range name=%s k=%s v=%s ast=%s tr=%s' % (name, hx(ddstr), hx(times_str(trs, rnd)), ddast,
                                                        ','.join('%d-%d' % t for t in trs))


def spec_bounds(zn, lo, hi, all_trs):
    """the instants of both boundaries of every written time range on every day that can reach [lo, hi] - the Python
    mirror of TpCalObs.tp_spec_bounds (the oracle recomputes them in Gallina and refuses to decide, class 'probes',
    when the probes of the case do not cover them)"""
    out = set()
    d0 = (lo + off_at(zn, lo)) // 86400
    d1 = (hi + off_at(zn, hi)) // 86400
    for d in range(d0 - 3, d1 + 2):
        for tb, te in all_trs:
            te2 = te + 86400 if te <= tb else te
            for l in (d * 86400 + tb, d * 86400 + te2):
                u = mk_local(zn, l)
                if lo <= u <= hi:
                    out.add(u)
    return sorted(out)


def cal_probes(zn, wb, we, all_trs):
    pts = set()
    for v in (wb, we):
        pts.update((v - 1, v, v + 1))
    bounds = spec_bounds(zn, wb - 7200, we + 7200, all_trs)
    for u in bounds:
        pts.update((u - 1, u, u + 1))
    for u1, u2 in zip(bounds, bounds[1:]):
        pts.add((u1 + u2) // 2)                            # the middle of every stretch on which the statement is constant
    t = wb - wb % 1800
    while t <= we + 1800:
        pts.add(t)
        t += 1800
    base, tab, _, _ = zone_table(zn)
    for ti, _ in tab:
        if wb - 86400 <= ti <= we + 86400:
            pts.update((ti - 1, ti, ti + 1))
    return sorted(pts)


def anchors(zn):
    base, tab, _, _ = zone_table(zn)
    a = [ti for ti, _ in tab if ti >= T0 + 2 * 86400][:4]
    return a


def pick_window(rnd, zn, want_transition):
    tr = anchors(zn)
    if want_transition and tr:
        at = rnd.choice(tr)
        # local midnight of the transition day, shifted by -1..+1 days
        l = at + off_at(zn, at - 1)
        mid = mk_local(zn, (l // 86400 + rnd.choice((-1, 0, 0, 0, 1))) * 86400)
    else:
        day = T0 // 86400 + rnd.randint(3, 700)
        mid = mk_local(zn, day * 86400)
    wb = mid + rnd.choice((0, 0, 1, 3600, 7 * 3600, 12 * 3600 + 17, 23 * 3600 + 1800, rnd.randint(0, 86399)))
    we = wb + rnd.choice((3600, 86400, 86400, 86400 + 3600, 2 * 86400, 3 * 86400, rnd.randint(600, 2 * 86400)))
    return wb, we


def gen_m2(rnd, tier):
    cases = []
    n = {'quick': 1100, 'thorough': 12000, 'search': 3000}.get(tier, 1100)
    shapes = ['one', 'two', 'to24', 'allday']
    for i in range(n):
        zn = ZONES[i % 4]
        fam_kind = rnd.choice(('plain', 'plain', 'plain', 'range', 'wrap', 'stride', 'incl', 'incl'))
        want_tr = zn != 'UTC' and rnd.random() < 0.7
        wb, we = pick_window(rnd, zn, want_tr)
        lines = ['now %d' % T0, tz_line(zn, wb - 5 * 86400, we + 5 * 86400)]
        names = ['a']
        all_trs = []
        body = []
        fam = 'm2-' + fam_kind

        def add_entries(name, count, kinds, tshapes):
            used = set()
            for _ in range(count):
                k = rnd.choice(kinds)
                if k == 'range':
                    f, l, form = rand_range_def(rnd, zn, rnd.randint(wb, we))
                    s, a = daydef(f, l, 1, rnd)
                elif k == 'stride':
                    f, l, form = rand_range_def(rnd, zn, rnd.randint(wb, we))
                    s, a = daydef(f, l, rnd.choice((2, 2, 3)), rnd)
                else:
                    sp, form, _ = rand_spec(rnd, zn, rnd.randint(wb, we))
                    s, a = daydef(sp)
                if s in used:
                    continue
                used.add(s)
                trs = rand_times(rnd, zn, rnd.choice(tshapes))
                all_trs.extend(trs)
                body.append(range_line(name, s, a, trs, rnd))

        if fam_kind == 'plain':
            body.append('tp_new name=a')
            add_entries('a', rnd.randint(1, 4), ['spec'], shapes)
        elif fam_kind == 'range':
            body.append('tp_new name=a')
            add_entries('a', rnd.randint(1, 3), ['range', 'range', 'spec'], shapes)
        elif fam_kind == 'stride':
            body.append('tp_new name=a')
            add_entries('a', rnd.randint(1, 2), ['stride'], shapes)
        elif fam_kind == 'wrap':
            body.append('tp_new name=a')
            add_entries('a', rnd.randint(1, 3), ['spec', 'spec', 'range'], ['wrap', 'over24', 'one'])
        else:
            names = ['a', 'b', 'c'][:rnd.randint(2, 3)]
            for k, nm in enumerate(names):
                later = names[k + 1:]
                inc = [x for x in later if rnd.random() < 0.5]
                exc = [x for x in later if x not in inc]
                body.append('tp_new name=%s prefer=%d inc=%s exc=%s' % (nm, rnd.randint(0, 1), ','.join(inc) or '-', ','.join(exc) or '-'))
            # own ranges; the referenced periods often share a boundary with the referencing one (F-C08-a shape)
            sp, form, _ = rand_spec(rnd, zn, rnd.randint(wb, we))
            s, a = daydef(sp)
            tb = safe_tod(rnd, zn, 0, 60000)
            te = safe_tod(rnd, zn, tb + 7200, 86400)
            all_trs.append((tb, te))
            body.append(range_line('a', s, a, [(tb, te)], rnd))
            for nm in names[1:]:
                r = rnd.random()
                if r < 0.35:
                    trs = [(tb, safe_tod(rnd, zn, tb + 60, te - 60))]          # shares the begin
                elif r < 0.7:
                    trs = [(safe_tod(rnd, zn, tb + 60, te - 60), te)]          # shares the end
                else:
                    trs = rand_times(rnd, zn, rnd.choice(shapes))
                all_trs.extend(trs)
                body.append(range_line(nm, s, a, trs, rnd))
                if rnd.random() < 0.3:
                    add_entries(nm, 1, ['spec'], shapes)
        # the timer path: extend the window
        we2 = we + rnd.choice((300, 3600, 86400)) if rnd.random() < 0.25 else None
        lines.append('tp_pts ' + ','.join(str(p) for p in cal_probes(zn, wb, we2 or we, all_trs)))
        lines += body
        for nm in reversed(names):
            lines.append('tp_upd name=%s b=%d e=%d clear=1' % (nm, wb, we))
        if we2 is not None:
            for nm in reversed(names):
                lines.append('tp_upd name=%s b=%d e=%d clear=0' % (nm, we, we2))
        cases.append({'lines': lines, 'tags': {'family': fam, 'zone': zn, 'transition_window': bool(want_tr)}})
    cases += gen_month_family(random.Random(rnd.random()), tier)
    cases += gen_range_lists(random.Random(rnd.random()), tier)
    cases += gen_rolling(random.Random(rnd.random()), tier)
    cases += gen_transition_families(random.Random(rnd.random()), tier)
    cases += gen_parse_families(random.Random(rnd.random()), tier)
    cases += directed_m2()
    cases += directed_rolling()
    cases += gen_restart(random.Random(rnd.random()), tier)
    return cases


# ----------------------------------------------------------------------------- M2: range LISTS of one day
# relative positions of the ranges of one comma-separated list, as (begin, end) indices into six ascending instants
LIST_CONFIGS = [
    ('disjoint', [(0, 1), (2, 3)]), ('adjacent', [(0, 1), (1, 2)]), ('overlapping', [(0, 2), (1, 3)]),
    ('nested', [(0, 3), (1, 2)]), ('identical', [(0, 1), (0, 1)]), ('nested-end-together', [(0, 2), (1, 2)]),
    ('nested-begin-together', [(0, 2), (0, 1)]),
    ('three-level', [(0, 5), (1, 4), (2, 3)]), ('three-level-end-together', [(0, 3), (1, 3), (2, 3)]),
    ('three-level-begin-together', [(0, 3), (0, 2), (0, 1)]),
    ('outer-two-inner', [(0, 5), (1, 2), (3, 4)]), ('nested-then-disjoint', [(0, 3), (1, 2), (4, 5)]),
    ('nested-then-adjacent', [(0, 3), (1, 2), (3, 4)]), ('nested-then-overlapping', [(0, 3), (1, 2), (2, 5)]),
    ('chain', [(0, 2), (1, 4), (3, 5)]), ('identical-plus-nested', [(0, 3), (0, 3), (1, 2)]),
    ('overlapping-plus-nested-in-both', [(0, 3), (1, 4), (2, 3)]),
    ('outer-with-adjacent-chain', [(0, 5), (1, 2), (2, 3), (3, 4)]), ('two-nested-pairs', [(0, 3), (1, 2), (3, 5), (4, 5)]),
    ('four-level', [(0, 5), (0, 4), (1, 4), (2, 3)]), ('disjoint-and-nested-and-identical', [(0, 1), (2, 5), (3, 4), (0, 1)]),
]


def list_points(rnd, zn, mode):
    """six ascending seconds-of-day (possibly beyond 24:00), every one a local time that exists once on every day"""
    lo, hi = {'day': (0, 86400), 'late': (43200, 86400), 'wrap': (64800, 108000)}[mode]
    while True:
        step = rnd.choice((900, 900, 1800, 60, 1))
        pts = sorted(set(rnd.randrange(lo // step, hi // step + 1) * step for _ in range(6)))
        if len(pts) < 6:
            continue
        if zn != 'UTC' and any(3600 <= q % 86400 < 10800 for q in pts):
            continue
        if mode == 'late':
            pts[5] = 86400
            if pts[4] >= 86400:
                continue
        if mode == 'wrap' and not (pts[2] < 86400 < pts[3]):
            continue
        return pts


def written_range(rnd, pb, pe):
    """a range [pb, pe) counted from 00:00 of its day -> (tb, te) as written: an end beyond 24:00 is written as a wrap
    (end <= begin means next day) where that says the same, or with an hour >= 24"""
    if pe > 86400 and pb < 86400 and pe - 86400 <= pb and rnd.random() < 0.6:
        return (pb, pe - 86400)
    return (pb, pe)


def gen_range_lists(rnd, tier):
    """one day, 2-4 ranges in every relative position and every written order; under one key, split over two keys
    that both match the day (weekday + date), and with included / excluded periods whose lists nest likewise"""
    out = []
    reps = {'quick': 1, 'thorough': 5, 'search': 2}.get(tier, 1)
    nperm4 = {'quick': 6, 'thorough': 24, 'search': 12}.get(tier, 6)
    i = 0
    for _ in range(reps):
        for cname, cfg in LIST_CONFIGS:
            perms = list(itertools.permutations(range(len(cfg))))
            if len(cfg) > 3:
                perms = rnd.sample(perms, nperm4)
            for perm in perms:
                for mode in ('day', 'wrap', 'late'):
                    if mode == 'late' and rnd.random() < 0.6:
                        continue
                    for variant in ('one-key', 'two-keys', 'referenced'):
                        i += 1
                        zn = ZONES[i % 4]
                        want_tr = zn != 'UTC' and rnd.random() < 0.3
                        if want_tr:
                            at = rnd.choice(anchors(zn))
                            day = (at + off_at(zn, at - 1)) // 86400 + rnd.choice((-1, 0, 0, 1))
                        else:
                            day = T0 // 86400 + rnd.randint(3, 700)
                        D = datetime.date(1970, 1, 1) + datetime.timedelta(days=day)
                        wd = (D.weekday() + 1) % 7
                        kw = daydef(('w', wd, 0, -1))
                        kd = daydef(('d', D.year, D.month, D.day))
                        pts = list_points(rnd, zn, mode)
                        trs = [written_range(rnd, pts[cfg[k][0]], pts[cfg[k][1]]) for k in perm]
                        wb = mk_local(zn, day * 86400) + rnd.choice((0, 0, -7200, 43200 + 1800))
                        we = wb + rnd.choice((86400, 86400 + 7200, 2 * 86400))
                        all_trs = list(trs)
                        body = []
                        names = ['a']
                        if variant == 'one-key':
                            body.append('tp_new name=a')
                            body.append(range_line('a', kw[0], kw[1], trs, rnd))
                        elif variant == 'two-keys':
                            body.append('tp_new name=a')
                            if rnd.random() < 0.5:
                                k = rnd.randint(1, len(trs) - 1)
                                l1, l2 = trs[:k], trs[k:]
                            else:                                # both keys carry the whole list, in different orders
                                l1, l2 = trs, list(trs)
                                rnd.shuffle(l2)
                            body.append(range_line('a', kw[0], kw[1], l1, rnd))
                            body.append(range_line('a', kd[0], kd[1], l2, rnd))
                        else:
                            # the referencing period has a list of its own (another configuration over the same six
                            # instants); the referenced ones carry the list of this case
                            names = ['a', 'b', 'c'][:rnd.choice((2, 2, 3))]
                            _, cfg2 = rnd.choice(LIST_CONFIGS)
                            own = [written_range(rnd, pts[x], pts[y]) for x, y in cfg2]
                            rnd.shuffle(own)
                            all_trs += own
                            role = rnd.choice(('inc', 'exc'))
                            other = {'inc': 'exc', 'exc': 'inc'}[role]
                            refs = {role: ['b'], other: ['c'] if len(names) == 3 else []}
                            body.append('tp_new name=a prefer=%d inc=%s exc=%s' % (rnd.randint(0, 1), ','.join(refs['inc']) or '-', ','.join(refs['exc']) or '-'))
                            body.append('tp_new name=b')
                            body.append(range_line('a', kw[0], kw[1], own, rnd))
                            kb = rnd.choice((kw, kd))
                            body.append(range_line('b', kb[0], kb[1], trs, rnd))
                            if len(names) == 3:
                                _, cfg3 = rnd.choice(LIST_CONFIGS)
                                l3 = [written_range(rnd, pts[x], pts[y]) for x, y in cfg3]
                                rnd.shuffle(l3)
                                all_trs += l3
                                body.append('tp_new name=c')
                                body.append(range_line('c', kw[0], kw[1], l3, rnd))
                        lines = ['now %d' % T0, tz_line(zn, wb - 5 * 86400, we + 5 * 86400),
                                 'tp_pts ' + ','.join(str(p) for p in cal_probes(zn, wb, we, all_trs))] + body
                        for nm in reversed(names):
                            lines.append('tp_upd name=%s b=%d e=%d clear=1' % (nm, wb, we))
                        nested = any(a != b and cfg[a][0] <= cfg[b][0] and cfg[b][1] < cfg[a][1]
                                     for a in range(len(cfg)) for b in range(len(cfg)))
                        out.append({'lines': lines, 'tags': {'family': 'm2-range-list', 'zone': zn, 'transition_window': bool(want_tr),
                                                            'list_config': cname, 'list_mode': mode, 'list_variant': variant,
                                                            'list_len': len(cfg), 'list_nested_ending_earlier': nested}})
    return out


# ----------------------------------------------------------------------------- M2: rolling updates (Start + timer rounds)

def roll_probes(zn, lo, hi, all_trs):
    pts = set((lo - 1, lo, lo + 1))
    bounds = spec_bounds(zn, lo - 7200, hi, all_trs)
    for u in bounds:
        pts.update((u - 1, u, u + 1))
    for u1, u2 in zip(bounds, bounds[1:]):
        pts.add((u1 + u2) // 2)
    t = lo - lo % 7200
    while t <= hi:
        pts.add(t)
        t += 7200
    base, tab, _, _ = zone_table(zn)
    for ti, _ in tab:
        if lo <= ti <= hi:
            pts.update((ti - 1, ti, ti + 1))
    return sorted(pts)


def gen_rolling(rnd, tier):
    """what the daemon does over two to three days: every period is started (UpdateRegion(now, now + 24 h, true)) and then
    goes through the REAL TimePeriod::UpdateTimerHandler() round after round (5-minute rounds around every local
    midnight, longer steps and an occasional stall in between).  The referencing period is created - and therefore
    updated in every round - before, between or after the periods it includes / excludes; those have ranges running
    past midnight (their valid_end runs ahead, so they compute each new day later than the others)."""
    out = []
    n = {'quick': 40, 'thorough': 240, 'search': 100}.get(tier, 40)
    for i in range(n):
        zn = ZONES[i % 4]
        trs_dst = zn != 'UTC'
        if trs_dst and rnd.random() < 0.4:
            at = rnd.choice(anchors(zn))
            day0 = (at + off_at(zn, at - 1)) // 86400 - rnd.choice((1, 2))        # the rounds walk over the transition
            crosses = True
        else:
            day0 = T0 // 86400 + rnd.randint(3, 700)
            crosses = False
        n0 = mk_local(zn, day0 * 86400) + rnd.choice((10 * 3600 + 17 * 60, 23 * 3600 + 50 * 60, 5 * 60, 12 * 3600, rnd.randrange(0, 86400)))
        span = rnd.choice((48, 60, 72)) * 3600

        def tod(lo, hi):
            return safe_tod(rnd, zn, lo, hi)

        def wrap_list():
            tb = tod(18 * 3600, 86399)
            te = tod(0, 6 * 3600) if not trs_dst else rnd.choice((tod(0, 3599), tod(10800, 6 * 3600)))
            l = [(tb, te)]
            if rnd.random() < 0.7:
                mb = tod(te + 1800 if te >= 10800 else 10800, 11 * 3600)
                l.append((mb, tod(mb + 600, 12 * 3600)))
            if rnd.random() < 0.3:                      # nested in the wrapping range, before midnight
                ib = tod(tb, 86399)
                l.append((ib, tod(ib, 86400)))
            rnd.shuffle(l)
            return [x for x in l if x[0] != x[1]]

        def day_list():
            k = rnd.random()
            if k < 0.25:
                return [(0, 86400)]
            if k < 0.5:
                b = tod(6 * 3600, 10 * 3600)
                return [(b, tod(15 * 3600, 20 * 3600))]
            if k < 0.75:
                b1 = tod(7 * 3600, 9 * 3600)
                e1 = tod(11 * 3600, 12 * 3600)
                b2 = tod(e1, 14 * 3600)
                return [(b1, e1), (b2, tod(16 * 3600, 86400))]
            _, cfg = rnd.choice(LIST_CONFIGS)
            pts = list_points(rnd, zn, 'day')
            l = [(pts[x], pts[y]) for x, y in cfg]
            rnd.shuffle(l)
            return l

        def inner_list(outer):
            """ranges inside the first range of the referencing period (lunch), sharing a boundary now and then"""
            b, e = outer[0] if outer[0][1] > outer[0][0] else (outer[0][0], 86400)
            if e - b < 7200:
                return [(tod(11 * 3600, 12 * 3600), tod(12 * 3600 + 60, 14 * 3600))]
            k = rnd.random()
            ib = b if k < 0.2 else tod(b + 600, (b + e) // 2)
            ie = e if 0.2 <= k < 0.4 else tod(ib + 600, e - 300)
            return [(ib, ie)]

        shape = rnd.choice(('work-lunch', 'always-wrap', 'always-wrap', 'include-wrap', 'both', 'random'))
        own = {'work-lunch': day_list, 'always-wrap': lambda: [(0, 86400)], 'include-wrap': day_list, 'both': day_list, 'random': day_list}[shape]()
        refs = {}
        if shape == 'work-lunch':
            refs['b'] = ('exc', inner_list(own))
        elif shape == 'always-wrap':
            refs['b'] = ('exc', wrap_list())
        elif shape == 'include-wrap':
            refs['b'] = ('inc', wrap_list())
        elif shape == 'both':
            refs['b'] = (rnd.choice(('inc', 'exc')), wrap_list())
            refs['c'] = ('exc' if refs['b'][0] == 'inc' else 'inc', rnd.choice((inner_list(own), wrap_list(), day_list())))
        else:
            refs['b'] = (rnd.choice(('inc', 'exc')), rnd.choice((wrap_list(), day_list(), inner_list(own))))
            if rnd.random() < 0.5:
                refs['c'] = (rnd.choice(('inc', 'exc')), rnd.choice((wrap_list(), day_list())))
        names = ['a'] + sorted(refs)
        order = list(names)
        rnd.shuffle(order)
        pos = order.index('a')
        where = 'referencing-first' if pos == 0 else ('referencing-last' if pos == len(order) - 1 else 'referencing-between')
        inc = [k for k in sorted(refs) if refs[k][0] == 'inc']
        exc = [k for k in sorted(refs) if refs[k][0] == 'exc']
        # keys: one date range over the whole stretch, or every weekday by name (the lists of the referenced periods then
        # differ between odd and even weekdays)
        D0 = datetime.date(1970, 1, 1) + datetime.timedelta(days=day0 - 2)
        D1 = D0 + datetime.timedelta(days=9)
        keymode = rnd.choice(('date-range', 'weekdays'))
        all_trs = list(own)
        body = []
        for nm in order:
            if nm == 'a':
                body.append('tp_new name=a prefer=%d inc=%s exc=%s' % (rnd.randint(0, 1), ','.join(inc) or '-', ','.join(exc) or '-'))
            else:
                body.append('tp_new name=%s' % nm)
        for nm in names:
            lst = own if nm == 'a' else refs[nm][1]
            if keymode == 'date-range':
                s_, a_ = daydef(('d', D0.year, D0.month, D0.day), ('d', D1.year, D1.month, D1.day), 1)
                body.append(range_line(nm, s_, a_, lst, rnd))
                all_trs += lst
            else:
                alt = lst if nm == 'a' else (wrap_list() if rnd.random() < 0.5 else lst)
                for wd in range(7):
                    s_, a_ = daydef(('w', wd, 0, -1))
                    l = lst if wd % 2 == 0 else alt
                    body.append(range_line(nm, s_, a_, l, rnd))
                    all_trs += l
        lines = ['now %d' % n0, tz_line(zn, n0 - 5 * 86400, n0 + span + 7 * 86400),
                 'tp_pts ' + ','.join(str(p) for p in roll_probes(zn, n0 - 3600, n0 + span + 2 * 86400 + 7200, all_trs))] + body
        for nm in (order if rnd.random() < 0.7 else reversed(order)):
            lines.append('tp_start name=%s' % nm)
        t = n0
        rounds = 0
        stalled = rnd.random() < 0.7
        while t < n0 + span:
            l = (t + off_at(zn, t)) % 86400
            near_midnight = l < 1500 or l > 86400 - 1500
            if near_midnight:
                step = 300
            elif not stalled and rnd.random() < 0.02:
                step = rnd.choice((5, 7, 9)) * 3600 + rnd.randrange(0, 3600)          # the daemon was stalled
                stalled = True
            else:
                step = rnd.choice((3600, 3600, 1800, 7200, 300, 900, 2700 + rnd.randrange(0, 600)))
            t += step
            lines.append('now %d' % t)
            lines.append('tp_timer')
            rounds += 1
            if rnd.random() < 0.1:
                lines.append('tp_now name=a')
        out.append({'lines': lines, 'tags': {'family': 'm2-rolling', 'zone': zn, 'roll_order': where, 'roll_shape': shape, 'roll_keys': keymode,
                                            'roll_rounds': rounds, 'roll_hours': span // 3600, 'roll_crosses_transition': crosses,
                                            'transition_window': crosses}})
    return out


# ----------------------------------------------------------------------------- M2: restart with an edited definition

RESTART_CHANGES = ('unchanged', 'ranges', 'ranges-part-removed', 'referenced-ranges', 'exclude-added', 'exclude-dropped',
                   'include-added', 'include-dropped', 'prefer-flipped', 'include-exclude-swapped')


def gen_restart(rnd, tier):
    """the daemon is restarted with an edited configuration while the state file still covers the present: three periods a, b, c
    run (Start + the real UpdateTimerHandler rounds), then EVERY period goes through tp_reload - state attributes through the
    state-file record and the real ConfigObject::RestoreObject into a new object built from the new definition (ranges of a,
    ranges of a referenced period, includes / excludes of a added / dropped / swapped, prefer_includes flipped; unchanged as the
    control) -, the real Start() runs on what was restored, then the timer rounds go on.  Every answer after the restart is
    judged against the NEW definition at instants derived from the written ranges of both definitions."""
    out = []
    n = {'quick': 40, 'thorough': 200, 'search': 80}.get(tier, 40)
    for i in range(n):
        zn = ZONES[i % 4]
        dst = zn != 'UTC'
        crosses = False
        if dst and rnd.random() < 0.25:
            at = rnd.choice(anchors(zn))
            day0 = (at + off_at(zn, at - 1)) // 86400 - rnd.choice((1, 2))
            crosses = True
        else:
            day0 = T0 // 86400 + rnd.randint(3, 700)
        n0 = mk_local(zn, day0 * 86400) + rnd.choice((10 * 3600 + 17 * 60, 23 * 3600 + 40 * 60, 7 * 60, 12 * 3600, rnd.randrange(0, 86400)))

        def tod(lo, hi):
            return safe_tod(rnd, zn, lo, hi)

        def work():
            b = tod(6 * 3600, 10 * 3600)
            return [(b, tod(15 * 3600, 20 * 3600))]

        def split():
            b1 = tod(7 * 3600, 9 * 3600)
            e1 = tod(11 * 3600, 12 * 3600)
            return [(b1, e1), (tod(e1 + 600, 14 * 3600), tod(16 * 3600, 86400))]

        def night():
            return [(tod(18 * 3600, 86399), tod(0, 3599) if dst and rnd.random() < 0.5 else tod(10800, 6 * 3600))]

        def early():
            b = tod(0, 1800) if dst else tod(0, 2 * 3600)
            return [(b, tod(b + 600, 3599) if dst else tod(b + 600, 5 * 3600))]

        def late_hours():                                     # written with an hour >= 24: ends on the following day
            b = tod(20 * 3600, 23 * 3600)
            return [(b, 86400 + (tod(10800, 5 * 3600) if dst else tod(1800, 5 * 3600)))]

        def lunch():
            b = tod(11 * 3600, 12 * 3600 + 1800)
            return [(b, tod(b + 600, 14 * 3600))]

        def any_list():
            return rnd.choice((work, split, night, early, late_hours, lunch, lambda: [(0, 86400)], lambda: work() + early(), lambda: split() + night()))()

        old = {'prefer': rnd.randint(0, 1), 'inc': [], 'exc': [], 'a': any_list(), 'b': rnd.choice((lunch, night, early, late_hours))(),
               'c': rnd.choice((lunch, night, work, early))()}
        change = RESTART_CHANGES[i % len(RESTART_CHANGES)] if rnd.random() < 0.8 else rnd.choice(RESTART_CHANGES)
        r = rnd.random()
        if change in ('exclude-dropped', 'prefer-flipped', 'include-exclude-swapped') or (change not in ('exclude-added',) and r < 0.5):
            old['exc'] = ['b']
        if change in ('include-dropped', 'prefer-flipped', 'include-exclude-swapped') or (change not in ('include-added',) and rnd.random() < 0.4):
            old['inc'] = ['c']
        if change == 'exclude-dropped' and not old['a']:
            old['a'] = work()
        new = {k: (list(v) if isinstance(v, list) else v) for k, v in old.items()}
        if change == 'ranges':
            while new['a'] == old['a']:
                new['a'] = any_list()
        elif change == 'ranges-part-removed':
            old['a'] = rnd.choice((lambda: work() + early(), lambda: split() + night(), lambda: work() + late_hours()))()
            new['a'] = old['a'][:-1]
        elif change == 'referenced-ranges':
            which = rnd.choice([x for x in ('b', 'c') if x in old['inc'] + old['exc']] or ['b'])
            if which == 'b' and 'b' not in old['exc']:
                old['exc'] = new['exc'] = ['b']
            while new[which] == old[which]:
                new[which] = rnd.choice((lunch, night, early, late_hours, work))()
        elif change == 'exclude-added':
            new['exc'] = ['b']
        elif change == 'exclude-dropped':
            new['exc'] = []
        elif change == 'include-added':
            new['inc'] = ['c']
        elif change == 'include-dropped':
            new['inc'] = []
        elif change == 'prefer-flipped':
            new['prefer'] = 1 - old['prefer']
            old['c'] = new['c'] = rnd.choice((work, split))()          # included and excluded periods overlap: the flag decides
            old['b'] = new['b'] = lunch()
        elif change == 'include-exclude-swapped':
            new['inc'], new['exc'] = ['b'], ['c']
        D0 = datetime.date(1970, 1, 1) + datetime.timedelta(days=day0 - 2)
        D1 = D0 + datetime.timedelta(days=12)
        s_, a_ = daydef(('d', D0.year, D0.month, D0.day), ('d', D1.year, D1.month, D1.day), 1)
        names = ['a', 'b', 'c']

        def new_line(op, nm, cfg):
            if nm == 'a':
                return '%s name=a prefer=%d inc=%s exc=%s' % (op, cfg['prefer'], ','.join(cfg['inc']) or '-', ','.join(cfg['exc']) or '-')
            return '%s name=%s' % (op, nm)

        body = []
        order = list(names)
        rnd.shuffle(order)
        body += [new_line('tp_new', nm, old) for nm in order]
        body += [range_line(nm, s_, a_, old[nm], rnd) for nm in names]
        body += ['tp_start name=%s' % nm for nm in (order if rnd.random() < 0.7 else reversed(order))]
        t = n0
        before = rnd.choice((0, 1, 3, 12, 40, 90))              # timer rounds before the restart
        rounds = 0
        for _ in range(before):
            l = (t + off_at(zn, t)) % 86400
            t += 300 if (l < 1500 or l > 86400 - 1500) else rnd.choice((300, 900, 1800, 3600, 3600, 7200))
            body += ['now %d' % t, 'tp_timer']
            rounds += 1
        gap = rnd.choice((0, 1, 60, 300, 1800, 4 * 3600, 11 * 3600))
        t += gap
        body.append('now %d' % t)
        t_restart = t
        order2 = list(names)
        rnd.shuffle(order2)
        body += [new_line('tp_reload', nm, new) for nm in order2]
        body += [range_line(nm, s_, a_, new[nm], rnd) for nm in names]
        starts = list(order2 if rnd.random() < 0.7 else reversed(order2))
        if change == 'referenced-ranges':
            # a referenced period whose OWN definition changed is started before the period that refers to it: started after it,
            # the referring period would merge the referenced period's restored segments - those of its old definition - and keep
            # them (the start-order staleness of finding stale-reference in another guise; outside the rolling theorem, whose
            # hypothesis is that referenced periods only gain instants; see notes/C08.md, round 4, open items)
            starts = [which] + [x for x in starts if x != which]
        body += ['tp_start name=%s' % nm for nm in starts]
        body.append('tp_now name=a')
        after = rnd.choice((2, 6, 20, 60))
        for k in range(after):
            l = (t + off_at(zn, t)) % 86400
            t += 300 if (l < 1500 or l > 86400 - 1500 or k < 2) else rnd.choice((300, 900, 1800, 3600, 3600, 7200))
            body += ['now %d' % t, 'tp_timer']
            rounds += 1
            if t < t_restart + 20 * 3600 and rnd.random() < 0.3:
                body.append('tp_now name=a')
        all_trs = sum((cfg[nm] for cfg in (old, new) for nm in names), [])
        lines = ['now %d' % n0, tz_line(zn, n0 - 5 * 86400, t + 9 * 86400),
                 'tp_pts ' + ','.join(str(x) for x in roll_probes(zn, n0 - 3600, t + 2 * 86400 + 7200, all_trs))] + body
        out.append({'lines': lines, 'tags': {'family': 'm2-restart-changed-definition', 'zone': zn, 'restart_change': change,
                                            'restart_rounds_before': before, 'restart_gap': gap, 'restart_rounds_after': after,
                                            'roll_rounds_restart': rounds, 'transition_window': crosses}})
    # directed: the restored valid_end outlives the definition that produced it (finding restart-keeps-valid-end).  a = "22:00-02:00",
    # started at 10:00, four rounds; restart with a = "09:00-17:00,00:30-01:30": Start() computes today and tomorrow, valid_end stays at
    # 02:00 of the day after tomorrow, the rounds go on from there and 00:30-01:30 of that day is never produced: is_inside = false at
    # the clock, 38 hours after the restart.  The control (definition unchanged) and the reverse edit leave no such stretch.
    zn = 'UTC'
    day0 = T0 // 86400 + 10
    n0 = mk_local(zn, day0 * 86400) + 10 * 3600
    D0 = datetime.date(1970, 1, 1) + datetime.timedelta(days=day0 - 2)
    D1 = D0 + datetime.timedelta(days=9)
    s_, a_ = daydef(('d', D0.year, D0.month, D0.day), ('d', D1.year, D1.month, D1.day), 1)
    wrap, day = [(22 * 3600, 2 * 3600)], [(9 * 3600, 17 * 3600), (1800, 5400)]
    for kind, o, nw in (('hole', wrap, day), ('control', wrap, wrap), ('reverse', day, wrap)):
        lines = ['now %d' % n0, tz_line(zn, n0 - 5 * 86400, n0 + 9 * 86400),
                 'tp_pts ' + ','.join(str(x) for x in roll_probes(zn, n0 - 3600, n0 + 4 * 86400, o + nw)),
                 'tp_new name=a', range_line('a', s_, a_, o, None), 'tp_start name=a']
        t = n0
        for _ in range(4):
            t += 1800
            lines += ['now %d' % t, 'tp_timer']
        lines += ['tp_reload name=a', range_line('a', s_, a_, nw, None), 'tp_start name=a']
        while t < n0 + 39 * 3600:
            t += 1800
            lines += ['now %d' % t, 'tp_timer']
        lines.append('tp_now name=a')                                # 01:00 of the day after tomorrow
        out.append({'lines': lines, 'tags': {'family': 'm2-directed-restart-valid-end', 'zone': zn, 'restart_change': kind}})
    return out


# strings for the parser: hand-made corner cases of ParseTimeRange / ParseTimeSpec / ProcessTimeRanges ...
PARSE_K = ['', ' ', 'monday', 'monday ', ' monday', 'monday  2', 'monday 2 ', 'monday 2 march extra', 'monday 2 marchx', 'Monday', 'MONDAY',
           'mon', 'day', 'day ', 'day x', 'day 1.5', 'day +5', 'day -0', 'day 007', 'day 1 2 3', 'february', 'february 30', 'february 1 - 3',
           'day 1 - 15', 'day 1 -15', 'day 1- 15', 'day 1 - ', 'day 1 -  15', ' - day 3', 'monday - friday', 'monday - 3', 'monday 1 - 3',
           '2034-03-25', '2034-3-25', '2034-03-32', '2034-13-01', '2034-00-10', '2034-03-00', '20a4-03-25', '2034/03/25', '2034-03-25 / 2',
           '2034-03-25/2', 'monday/2', 'monday / 2', 'monday /2', 'day 1 - 15 / 2', 'day 1 - 15 /', 'day 1 - 15 / x', 'day 1 - 15 / 2 / 3',
           'day 1 - 15 / 0', 'day 1 - 15 / -2', 'day 1 - 15 /  3 ', 'day 1 - 15 / +3', 'day 1 - 15/2', 'monday 0', 'monday -0', 'monday 00',
           'monday +0', 'monday +1', 'monday 1 march - friday 2 march', 'monday\t2', ' monday - friday ', 'day 99999999999999999999',
           'day 9223372036854775807', 'day 9223372036854775808', 'day 4294967297', 'day 4294967296', 'monday 4294967298', 'day --1', 'day -',
           'day +', 'february -1 - -1', 'february 10 - -1', 'day 5 - 2034-03-25', '2034-03-25 - 2034-03-31', '2034-03-25 - 31',
           'march 1 - april', 'march 1 - april 5', 'tuesday 2 march - 3', 'sunday -1 october', 'saturday 5 february', 'day 31', 'day 0',
           '-001-01-01', '+034-03-25', '0000-01-01', '9999-12-31', 'monday2', 'daY 1', 'day\t1', 'day 1 / 2', 'day 1/2', 'day 1 /2']
PARSE_V = ['', '09:00', '09:00-', '-17:00', '09:00-17:00-18:00', '09:00 - 17:00', '09:00-17:00,', ',09:00-17:00', '09:00-17:00,,10:00-11:00',
           '9:0-17:0', '09-17', '09:00:00:00-17:00', '09:00:30-17:00:15', '25:00-26:00', '09:60-10:00', '09:00-09:00', 'a:00-b:00', '+9:00-17:00',
           '09:00-17:00 ', ' 09:00-17:00', '09:00-17:00;10:00-11:00', '24:00-24:00', '00:00-24:00', '09:00-17:00,18:00-19:00:30', '0x9:00-17:00',
           '09:00-17:00,18:00', '09::00-17:00', ':-:', '1:2:3-4:5:6', '09:00-17:00, 18:00-19:00', '00:00-48:00', '22:00-06:00', '09.00-17.00']
# ... and odd but ACCEPTED definitions, which are also evaluated (tp_range + tp_upd; the parsed form comes from the parser model only)
LENIENT_K = ['day 1 2 3', 'day +5', 'day 007', 'monday 2 march extra', 'day 1- 15', 'day 1 -15', 'monday/2', ' monday - friday ', 'day 1 - 15 /  3 ',
             'day 4294967297', 'day 4294967296', 'monday 4294967298', 'monday +1', 'february 30', 'day 1 - 15/2', 'day 1 - 15 / +3', 'day 1 - 15 / 0',
             'day 1 - 15 / -2', 'february 10 - -1', 'february -1 - -1', 'tuesday 2 march - 3', 'day -0', 'day 0', '2034-03-25/2', 'day 1/2',
             'monday 1 - 3', 'march 1 - april 5', '2034-03-25 - 2034-03-31']
LENIENT_V = ['9:0-17:0', '09:00:30-17:00:15', '25:00-26:00', '09:60-10:00', '09:00-09:00', '+9:00-17:00', '24:00-24:00', '1:2:3-4:5:6', '00:00-48:00',
             '22:00-06:00', '00:00-24:00']


def written_trs(v):
    """(begin, end) in seconds of the day as written, of an ACCEPTED time range list (only used to place probes)"""
    out = []
    for part in v.split(','):
        a, b = part.split('-')

        def tod(x):
            f = [int(y) for y in x.split(':')] + [0]
            return f[0] * 3600 + f[1] * 60 + f[2]
        out.append((tod(a), tod(b)))
    return out


def mutate(rnd, t):
    if not t:
        return rnd.choice(' -/:0x')
    i = rnd.randrange(len(t))
    r = rnd.random()
    if r < 0.2:
        return t[:i] + t[i + 1:]                                        # drop a character
    if r < 0.45:
        return t[:i] + rnd.choice(' -/:0x+1,\t') + t[i:]                  # insert one
    if r < 0.55:
        return t[:i] + t[i].upper() + t[i + 1:]
    if r < 0.65:
        return t[:i]                                                    # truncate
    if r < 0.75:
        return t + rnd.choice((' ', ' x', ' 1', ' march', '-', '/', ' / 2'))
    if r < 0.85:
        return t.replace(' ', '  ', 1)
    if r < 0.95:
        j = rnd.randrange(len(t))
        return t[:min(i, j)] + t[max(i, j):]                            # cut a piece out
    return ' ' + t


def gen_parse_families(rnd, tier):
    out = []

    def esc(x):
        return x.replace('\\t', '\t')
    # 1. config validation of one ranges entry: accepted / rejected, code against the parser model (error vs. error)
    for k in PARSE_K:
        out.append({'lines': ['now %d' % T0, 'tp_parse k=%s' % hx(esc(k))], 'tags': {'family': 'm2-parse-corner', 'parse_part': 'daydef'}})
    for v in PARSE_V:
        out.append({'lines': ['now %d' % T0, 'tp_parse k=%s v=%s' % (hx('monday'), hx(v))], 'tags': {'family': 'm2-parse-corner', 'parse_part': 'timeranges'}})
    n = {'quick': 300, 'thorough': 4000, 'search': 1500}.get(tier, 300)
    for i in range(n):
        zn = 'UTC'
        anchor = T0 + rnd.randint(5, 700) * 86400
        if rnd.random() < 0.5:
            f, l, _ = rand_range_def(rnd, zn, anchor)
            k, _ = daydef(f, l, rnd.choice((1, 1, 2, 3)), rnd)
        else:
            sp, _, _ = rand_spec(rnd, zn, anchor)
            k, _ = daydef(sp)
        v = times_str(rand_times(rnd, zn, rnd.choice(('one', 'two', 'to24', 'wrap', 'over24'))), rnd)
        which = rnd.random()
        if which < 0.6:
            for _ in range(rnd.choice((1, 1, 2))):
                k = mutate(rnd, k)
            part = 'daydef'
        elif which < 0.9:
            for _ in range(rnd.choice((1, 1, 2))):
                v = mutate(rnd, v)
            part = 'timeranges'
        else:
            part = 'unmutated'
        out.append({'lines': ['now %d' % T0, 'tp_parse k=%s v=%s' % (hx(k), hx(v))], 'tags': {'family': 'm2-parse-mutated', 'parse_part': part}})
    # 2. odd but accepted definitions, evaluated
    reps = {'quick': 3, 'thorough': 12, 'search': 6}.get(tier, 3)
    for _ in range(reps):
        for k in LENIENT_K:
            zn = rnd.choice(ZONES)
            v = rnd.choice(LENIENT_V + ['09:00-17:00'] * 4)
            if v in ('25:00-26:00', '1:2:3-4:5:6'):
                zn = 'UTC'                                   # boundaries between 01:00 and 03:00: not on a transition day
            # eight-day windows over the end of February, the second week and the end of March 2034: every definition
            # of the list matches in at least one of them
            y, m, d = rnd.choice(((2034, 2, rnd.randint(24, 27)), (2034, 3, rnd.randint(8, 10)), (2034, 3, rnd.randint(22, 24))))
            wb = mk_local(zn, days_from_civil(y, m, d) * 86400) + rnd.choice((0, 3600 * 6, 43200))
            we = wb + 8 * 86400
            lines = ['now %d' % T0, tz_line(zn, wb - 5 * 86400, we + 5 * 86400),
                     'tp_pts ' + ','.join(str(p) for p in cal_probes(zn, wb, we, [(0, 86400), (32400, 61200)] + written_trs(v))), 'tp_new name=a',
                     'tp_range name=a k=%s v=%s' % (hx(k), hx(v)), 'tp_upd name=a b=%d e=%d clear=1' % (wb, we)]
            out.append({'lines': lines, 'tags': {'family': 'm2-parse-lenient', 'zone': zn}})
    return out


def transitions(zn):
    """[(instant, offset before, offset after)] of the zone's table that lie after T0"""
    base, tab, _, _ = zone_table(zn)
    out = []
    o = base
    for ti, oi in tab:
        if ti >= T0 + 2 * 86400:
            out.append((ti, o, oi))
        o = oi
    return out


def gen_transition_families(rnd, tier):
    """what the theorems leave to the comparison, aimed at EVERY transition of EVERY zone that has one:
       m2-mktime          libc's mktime against tp_tab_mk for local times before / at / inside / after every skipped or
                          repeated hour (the oracle only asks that an exactly-once local time is mapped to its instant)
       m2-nth-transition  n-th weekday specifications whose day-by-day search (forward from the 1st, backward from the
                          last day of the month) walks over the transition day, windows around the day found"""
    import calendar
    out = []
    reps = {'quick': 1, 'thorough': 4, 'search': 2}.get(tier, 1)
    for zn in ZONES:
        for ti, ob, oa in transitions(zn):
            lo, hi = ti + min(ob, oa), ti + max(ob, oa)
            kind = 'skipped' if oa > ob else 'repeated'
            for _ in range(reps):
                ls = [lo - 86400, lo - 1, lo, lo + 1, (lo + hi) // 2, rnd.randint(lo, hi - 1), hi - 1, hi, hi + 1, hi + 86400,
                      lo - lo % 86400, lo - lo % 86400 + 86400] + [rnd.randint(lo - 2 * 86400, hi + 2 * 86400) for _ in range(6)]
                out.append({'lines': ['now %d' % T0, tz_line(zn, ti - 5 * 86400, ti + 5 * 86400), 'tp_mk l=' + ','.join(str(x) for x in ls)],
                            'tags': {'family': 'm2-mktime', 'zone': zn, 'mk_kind': kind, 'mk_inside': sum(1 for x in ls if lo <= x < hi)}})
            # the local date of the transition
            Dt = datetime.date(1970, 1, 1) + datetime.timedelta(days=(ti + ob) // 86400)
            dim = calendar.monthrange(Dt.year, Dt.month)[1]
            for _ in range(2 * reps):
                for direction in ('forward', 'backward'):
                    if direction == 'forward':
                        cand = [d for d in range(Dt.day, dim + 1)]           # found on or after the transition day
                    else:
                        cand = [d for d in range(1, Dt.day + 1)]             # found on or before it, counting from the end
                    if not cand:
                        continue
                    day = rnd.choice(cand)
                    tgt = datetime.date(Dt.year, Dt.month, day)
                    wd = (tgt.weekday() + 1) % 7
                    nth = (day - 1) // 7 + 1 if direction == 'forward' else -((dim - day) // 7 + 1)
                    with_month = rnd.random() < 0.5
                    first = ('w', wd, nth, Dt.month - 1 if with_month else -1)
                    last = None
                    if rnd.random() < 0.3:
                        last = ('w', (wd + rnd.randint(0, 2)) % 7, nth, Dt.month - 1 if with_month else -1)
                    s_, a_ = daydef(first, last, 1, rnd)
                    d0 = days_from_civil(tgt.year, tgt.month, tgt.day)
                    # keep the window inside the month when the month is taken from the reference day
                    wb = mk_local(zn, max(d0 - rnd.choice((0, 1)), days_from_civil(Dt.year, Dt.month, 1)) * 86400) + rnd.choice((0, 3600 * 7, 43200))
                    we = min(wb + rnd.choice((86400, 2 * 86400)), mk_local(zn, days_from_civil(Dt.year, Dt.month, dim) * 86400 + 86399))
                    if we <= wb:
                        we = wb + 3600
                    trs = rand_times(rnd, zn, rnd.choice(('one', 'allday', 'to24')))
                    lines = ['now %d' % T0, tz_line(zn, wb - 5 * 86400, we + 5 * 86400),
                             'tp_pts ' + ','.join(str(p) for p in cal_probes(zn, wb, we, trs)), 'tp_new name=a',
                             range_line('a', s_, a_, trs, rnd), 'tp_upd name=a b=%d e=%d clear=1' % (wb, we)]
                    out.append({'lines': lines, 'tags': {'family': 'm2-nth-transition', 'zone': zn, 'nth_direction': direction,
                                                        'nth_crosses_transition': True}})
    return out


def gen_month_family(rnd, tier):
    """day definitions that NAME a month (<month> N, <month> -N, <month> N - <month> M, <month> N - M, with and without
    stride, n-th weekday of a named month incl. negative n), evaluated over windows that lie in the named month, in the
    month before / after it, across its boundaries and around Feb 28/29 of leap and non-leap years.  The day numbers
    are taken from the window's own first day, so an implementation that resolved the specification in the month being
    evaluated instead of the named month would match inside the window."""
    import calendar
    out = []
    n = {'quick': 360, 'thorough': 4000, 'search': 1500}.get(tier, 360)
    forms = ['pos', 'neg', 'range', 'range', 'range-neg', 'range-cross', 'nth', 'nthneg', 'nth-range']

    def shift_month(y, m, k):
        m0 = (m - 1) + k
        return y + m0 // 12, m0 % 12 + 1

    for i in range(n):
        zn = ZONES[i % 4]
        # D = first local day of the window
        r = rnd.random()
        if r < 0.3:
            y = rnd.choice((2034, 2035, 2036))                     # 2036 is a leap year
            D = datetime.date(y, rnd.choice((2, 2, 3)), 1) + datetime.timedelta(days=rnd.choice((-3, -2, -1, 0, 26, 27, 28, 29)))
            if D.month not in (1, 2, 3):
                D = datetime.date(y, 2, 28)
            where = 'feb-end'
        else:
            y, m = rnd.choice(((2033, rnd.randint(7, 12)), (2034, rnd.randint(1, 12)), (2035, rnd.randint(1, 12)), (2036, rnd.randint(1, 3))))
            dim = calendar.monthrange(y, m)[1]
            pos = rnd.choice(('first', 'last', 'last', 'mid', 'second-last'))
            D = datetime.date(y, m, {'first': 1, 'last': dim, 'mid': rnd.randint(2, dim - 1), 'second-last': dim - 1}[pos])
            where = 'month-' + pos
        dim = calendar.monthrange(D.year, D.month)[1]
        # the named month: the window's own month, the one before, the one after
        k = rnd.choice((0, 0, -1, 1, -1, 1))
        ny, nm = shift_month(D.year, D.month, k)
        rel = {0: 'inside', -1: 'month-after-named', 1: 'month-before-named'}[k]
        form = rnd.choice(forms)
        wd = (D.weekday() + 1) % 7
        nth, nthneg = (D.day - 1) // 7 + 1, -((dim - D.day) // 7 + 1)
        neg = D.day - dim - 1                                          # D is the |neg|-th last day of its month
        stride = rnd.choice((1, 1, 2, 3))
        first, last = None, None
        if form == 'pos':
            first = ('m', nm - 1, D.day + rnd.choice((0, 0, 1)))
            stride = 1
        elif form == 'neg':
            first = ('m', nm - 1, neg - rnd.choice((0, 0, 1)) if neg < -1 else neg)
            stride = 1
        elif form == 'range':
            lo = max(1, D.day - rnd.randint(0, 4))
            first, last = ('m', nm - 1, lo), ('m', nm - 1, min(31, D.day + rnd.randint(0, 4)))
        elif form == 'range-neg':
            first, last = ('m', nm - 1, max(1, D.day - rnd.randint(0, 6))), ('m', nm - 1, rnd.choice((-1, -1, -2, neg)))
        elif form == 'range-cross':
            y2, m2 = shift_month(ny, nm, 1)
            if y2 != ny:
                m2, nm = nm, nm - 1 if nm > 1 else nm           # "december N - january M" never matches; keep the range inside a year
                m2 = nm + 1
            first, last = ('m', nm - 1, max(1, D.day - rnd.randint(0, 6))), ('m', m2 - 1, rnd.randint(1, 6))
        elif form == 'nth':
            first = ('w', wd, nth, nm - 1)
            stride = 1
        elif form == 'nthneg':
            first = ('w', wd, nthneg, nm - 1)
            stride = 1
        else:
            first, last = ('w', wd, nth, nm - 1), ('w', (wd + rnd.randint(0, 3)) % 7, rnd.choice((nth, min(4, nth + 1), -1)), nm - 1)
        s, a = daydef(first, last, stride, rnd)
        d0 = days_from_civil(D.year, D.month, D.day)
        wb = mk_local(zn, d0 * 86400) + rnd.choice((0, 0, 3600 * 5, 43200, 86399, 23 * 3600))
        we = wb + rnd.choice((86400, 86400, 2 * 86400, 3 * 86400, 4 * 86400))
        trs = rand_times(rnd, zn, rnd.choice(('one', 'allday', 'to24', 'two')))
        lines = ['now %d' % T0, tz_line(zn, wb - 5 * 86400, we + 5 * 86400),
                 'tp_pts ' + ','.join(str(p) for p in cal_probes(zn, wb, we, trs)), 'tp_new name=a',
                 range_line('a', s, a, trs, rnd), 'tp_upd name=a b=%d e=%d clear=1' % (wb, we)]
        out.append({'lines': lines, 'tags': {'family': 'm2-month-name', 'zone': zn, 'month_form': form, 'month_rel': rel, 'month_where': where,
                                            'leap_feb': bool(D.year == 2036 and D.month in (2, 3) and where == 'feb-end')}})
    return out


def directed_rolling():
    """the two staleness findings, every creation (= update) order, through Start() and the real timer handler:
       start-order     work = 09:00-17:00 (or 00:00-24:00) excluding lunch = 12:00-13:00, started at 10:00, 5-minute rounds
                       until 12:30, is_inside asked at the clock: wrong when lunch was started after work (work's valid_end
                       lies beyond now + 24 h, every round returns early and merges nothing)
       nested-include  a = 09:00-10:00 including b = 00:00-24:00 excluding c = 12:00-13:00, a day and a half of rounds:
                       wrong from the second day on whenever c is updated after b"""
    out = []
    zn = 'UTC'
    day0 = T0 // 86400 + 10
    n0 = mk_local(zn, day0 * 86400) + 10 * 3600
    D0 = datetime.date(1970, 1, 1) + datetime.timedelta(days=day0 - 2)
    D1 = D0 + datetime.timedelta(days=9)
    s_, a_ = daydef(('d', D0.year, D0.month, D0.day), ('d', D1.year, D1.month, D1.day), 1)
    news = {'a': 'tp_new name=a prefer=1 inc=b exc=-', 'b': 'tp_new name=b prefer=1 inc=- exc=c', 'c': 'tp_new name=c'}
    for order in ('bc', 'cb'):
        for own_b in ([(0, 86400)], [(9 * 3600, 17 * 3600)]):
            trs = {'b': own_b, 'c': [(12 * 3600, 13 * 3600)]}
            lines = ['now %d' % n0, tz_line(zn, n0 - 5 * 86400, n0 + 9 * 86400),
                     'tp_pts ' + ','.join(str(x) for x in roll_probes(zn, n0 - 3600, n0 + 3 * 86400, own_b + trs['c']))]
            lines += [news[nm] for nm in order] + [range_line(nm, s_, a_, trs[nm], None) for nm in 'bc']
            lines += ['tp_start name=%s' % nm for nm in order]
            t = n0
            while t < n0 + 2 * 3600 + 1800:
                t += 300
                lines += ['now %d' % t, 'tp_timer']
            lines += ['tp_now name=b', 'tp_now name=c']
            out.append({'lines': lines, 'tags': {'family': 'm2-directed-start-order', 'zone': zn, 'roll_order': order}})
    # a merge must not move valid_end: a = "09:00-10:30,22:00-02:00" excluding b = "10:45-11:00", two days of 30-minute rounds.
    # a's valid_end lies two hours past midnight (the wrapping range), b computes the day after next earlier than a does; a
    # merge that widened a's valid_end to b's 11:00 would make a's next own computation start there and drop 09:00-10:30
    # (the first draft of the stale-reference repair did exactly that: is_inside = 0 at 09:30 two days later)
    for order in ('ab', 'ba'):
        trs = {'a': [(9 * 3600, 10 * 3600 + 1800), (22 * 3600, 2 * 3600)], 'b': [(10 * 3600 + 2700, 11 * 3600)]}
        lines = ['now %d' % n0, tz_line(zn, n0 - 5 * 86400, n0 + 9 * 86400),
                 'tp_pts ' + ','.join(str(x) for x in roll_probes(zn, n0 - 3600, n0 + 4 * 86400, trs['a'] + trs['b']))]
        lines += [{'a': 'tp_new name=a prefer=1 inc=- exc=b', 'b': 'tp_new name=b'}[nm] for nm in order]
        lines += [range_line(nm, s_, a_, trs[nm], None) for nm in 'ab'] + ['tp_start name=%s' % nm for nm in order]
        t = n0
        while t < n0 + 47 * 3600:
            t += 1800
            lines += ['now %d' % t, 'tp_timer']
        lines += ['now %d' % (n0 + 47 * 3600 + 1800), 'tp_timer', 'tp_now name=a']
        out.append({'lines': lines, 'tags': {'family': 'm2-directed-merge-keeps-valid-end', 'zone': zn, 'roll_order': order}})
    for order in ('abc', 'acb', 'bac', 'bca', 'cab', 'cba'):
        trs = {'a': [(9 * 3600, 10 * 3600)], 'b': [(0, 86400)], 'c': [(12 * 3600, 13 * 3600)]}
        lines = ['now %d' % n0, tz_line(zn, n0 - 5 * 86400, n0 + 9 * 86400),
                 'tp_pts ' + ','.join(str(x) for x in roll_probes(zn, n0 - 3600, n0 + 3 * 86400, sum(trs.values(), [])))]
        lines += [news[nm] for nm in order] + [range_line(nm, s_, a_, trs[nm], None) for nm in 'abc']
        lines += ['tp_start name=%s' % nm for nm in order]
        t = n0
        while t < n0 + 86400 + 2 * 3600:
            t += 300 if n0 + 3600 < t < n0 + 4 * 3600 else 1800
            lines += ['now %d' % t, 'tp_timer']
        t = n0 + 86400 + 2 * 3600 + 1800                       # 12:30 on the next day
        lines += ['now %d' % t, 'tp_timer', 'tp_now name=a', 'tp_now name=b']
        out.append({'lines': lines, 'tags': {'family': 'm2-directed-nested-include', 'zone': zn, 'roll_order': order}})
    return out


def directed_m2():
    """hand-aimed cases: the witnesses of F-C08-b / F-C08-c and the unit test's shapes"""
    out = []
    # config validation of day definitions under a watchdog: ordinary forms, and n = 0 ("monday 0"), which
    # FindNthWeekday never finishes in a release build (ASSERT(n > 0) is compiled out)
    for s, a in (('monday 2', 'w.1.2.-1'), ('monday -1 may', 'w.1.-1.4'), ('february 3', 'm.1.3'), ('day -1', 'm.-1.-1'),
                 ('2034-03-26', 'd.2034.3.26'), ('day 1 - 15 / 2', 'm.-1.1~m.-1.15/2')):
        out.append({'lines': ['now %d' % T0, 'tp_parse k=%s ast=%s' % (hx(s), a)], 'tags': {'family': 'm2-directed-validate'}})
    for s in ('monday 0', 'friday 0 march'):
        out.append({'lines': ['now %d' % T0, 'tp_parse k=%s limit=3' % hx(s)], 'tags': {'family': 'm2-directed-validate-nth-zero'}})
    # F-C08-b: Saturday 03:00 local, "friday" = "22:00-06:00", fresh window
    zn = 'Europe/Berlin'
    # 2033-06-04 is a Saturday
    sat = days_from_civil(2033, 6, 4)
    wb = mk_local(zn, sat * 86400 + 3 * 3600)
    we = wb + 86400
    trs = [(79200, 21600)]
    s, a = daydef(('w', 5, 0, -1))
    lines = ['now %d' % wb, tz_line(zn, wb - 5 * 86400, we + 5 * 86400),
             'tp_pts ' + ','.join(str(p) for p in cal_probes(zn, wb, we, trs)), 'tp_new name=a',
             range_line('a', s, a, trs, None), 'tp_upd name=a b=%d e=%d clear=1' % (wb, we), 'tp_now name=a']
    out.append({'lines': lines, 'tags': {'family': 'm2-directed-wrap-first-day', 'zone': zn}})
    # the same range with the window starting on Friday: correct
    wb2 = mk_local(zn, (sat - 1) * 86400 + 12 * 3600)
    lines = ['now %d' % wb2, tz_line(zn, wb2 - 5 * 86400, wb2 + 6 * 86400),
             'tp_pts ' + ','.join(str(p) for p in cal_probes(zn, wb2, wb2 + 86400, trs)), 'tp_new name=a',
             range_line('a', s, a, trs, None), 'tp_upd name=a b=%d e=%d clear=1' % (wb2, wb2 + 86400)]
    out.append({'lines': lines, 'tags': {'family': 'm2-directed-wrap-from-friday', 'zone': zn}})
    # F-C08-c: stride across the spring-forward day 2034-03-26 (Berlin)
    d = days_from_civil(2034, 3, 25)
    wb = mk_local(zn, (d + 1) * 86400 + 12 * 3600)
    we = wb + 3 * 86400
    trs = [(9 * 3600, 17 * 3600)]
    s, a = daydef(('d', 2034, 3, 25), ('d', 2034, 3, 31), 2)
    lines = ['now %d' % wb, tz_line(zn, wb - 5 * 86400, we + 5 * 86400),
             'tp_pts ' + ','.join(str(p) for p in cal_probes(zn, wb, we, trs)), 'tp_new name=a',
             range_line('a', s, a, trs, None), 'tp_upd name=a b=%d e=%d clear=1' % (wb, we)]
    out.append({'lines': lines, 'tags': {'family': 'm2-directed-stride-spring-forward', 'zone': zn}})
    # the same stride in autumn (fall back 2034-10-29): correct
    d = days_from_civil(2034, 10, 28)
    wb = mk_local(zn, (d + 1) * 86400 + 12 * 3600)
    we = wb + 3 * 86400
    s, a = daydef(('d', 2034, 10, 28), ('d', 2034, 11, 3), 2)
    lines = ['now %d' % wb, tz_line(zn, wb - 5 * 86400, we + 5 * 86400),
             'tp_pts ' + ','.join(str(p) for p in cal_probes(zn, wb, we, trs)), 'tp_new name=a',
             range_line('a', s, a, trs, None), 'tp_upd name=a b=%d e=%d clear=1' % (wb, we)]
    out.append({'lines': lines, 'tags': {'family': 'm2-directed-stride-fall-back', 'zone': zn}})
    # F-C08-a through the calendar: excluding 09:00-10:00 / 16:00-17:00 from 09:00-17:00
    for zn in ZONES:
        day = days_from_civil(2033, 6, 6)
        wb = mk_local(zn, day * 86400)
        we = wb + 86400
        for ex in ((9 * 3600, 10 * 3600), (16 * 3600, 17 * 3600), (12 * 3600, 13 * 3600), (8 * 3600, 9 * 3600), (17 * 3600, 18 * 3600)):
            trs = [(9 * 3600, 17 * 3600), ex]
            s, a = daydef(('w', 1, 0, -1))
            lines = ['now %d' % wb, tz_line(zn, wb - 5 * 86400, we + 5 * 86400),
                     'tp_pts ' + ','.join(str(p) for p in cal_probes(zn, wb, we, trs)),
                     'tp_new name=a exc=x', 'tp_new name=x',
                     range_line('a', s, a, [trs[0]], None), range_line('x', s, a, [ex], None),
                     'tp_upd name=x b=%d e=%d clear=1' % (wb, we), 'tp_upd name=a b=%d e=%d clear=1' % (wb, we)]
            out.append({'lines': lines, 'tags': {'family': 'm2-directed-exclude-boundary', 'zone': zn}})
    return out


def generate(seed, tier):
    rnd = random.Random(seed)
    return gen_m1(rnd, tier) + gen_m2(random.Random(seed * 7919 + 13), tier)


def nontrivial(case, impl_lines):
    for l in impl_lines:
        if l.startswith('tp ') and 'segs=-' not in l:
            bits = l.rsplit('in=', 1)[-1]
            if '0' in bits and '1' in bits:
                return True
    return False


def classify(case, detail, impl_lines):
    if 'crash' in detail or 'missing-observation' in detail:
        return 'crash'
    if 'tz-table' in detail:
        return 'tz-table'
    if 'day-definition-never-finishes' in detail:
        return 'nth-weekday-zero-hang'
    if 'calendar-hypotheses' in detail:
        return 'calendar-hypotheses'
    if 'op=tp_parse' in detail:
        return 'parse'
    if 'violates-C08 stale-reference' in detail:
        return 'stale-reference'
    if 'violates-C08 restart-keeps-valid-end' in detail:
        return 'restart-keeps-valid-end'
    if 'violates-C08 rolling' in detail:
        # the judged period includes a period that has includes / excludes of its own: what that one wrongly reported for a
        # round stays (known finding); anything else in a rolling case is not known
        import re
        m = re.search(r' name=(\S+)', detail)
        news = {}
        for l in case['lines']:
            if l.startswith('tp_new '):
                kv = dict(x.split('=', 1) for x in l.split()[1:] if '=' in x)
                news[kv.get('name')] = kv
        me = news.get(m.group(1)) if m else None
        if me:
            for q in (me.get('inc', '-') or '-').split(','):
                qq = news.get(q)
                if qq and ((qq.get('inc', '-') not in ('-', '')) or (qq.get('exc', '-') not in ('-', ''))):
                    return 'include-of-excluding-period'
        return 'rolling'
    if 'calendar' in detail:
        if detail.endswith('class=1'):
            return 'wrap-first-day'
        if detail.endswith('class=2'):
            return 'stride-dst'
        if detail.endswith('class=5'):
            return 'is-inside'
        if detail.endswith('class=7'):
            return 'probes'
        return 'calendar'
    if 'violates-C08 remove' in detail:
        return 'remove-segment'
    if 'violates-C08 add' in detail:
        return 'add-segment'
    if 'violates-C08 update-region' in detail:
        return 'update-region'
    return 'interval-algebra'


def _canon_segs(field, vb, ve):
    """the state as the function IsInside that the API shows: segments as a set of instants inside the valid window (drop
    empty ones, clip to [valid_begin, valid_end] - IsInside ignores what lies outside -, sort, merge overlapping/adjacent),
    and a stretch of "inside" that begins exactly at valid_begin is indistinguishable from valid_begin lying at its end
    (before valid_begin everything is inside), so valid_begin is moved there.  The array representation (order, merged
    or not, remains before valid_begin after a purge, whether a segment reaching back before the computed region moved
    valid_begin) is not part of the property; the IsInside bits are.  -> (segments, valid_begin)"""
    segs = []
    if field != '-':
        for sg in field.split(','):
            i = sg.index('-', 1)
            b, e = int(sg[:i]), int(sg[i + 1:])
            if vb is not None:
                b = max(b, vb)
            if ve is not None:
                e = min(e, ve + 1)
            if b < e:
                segs.append((b, e))
    segs.sort()
    out = []
    for b, e in segs:
        if out and b <= out[-1][1]:
            out[-1] = (out[-1][0], max(out[-1][1], e))
        else:
            out.append((b, e))
    if vb is not None and ve is not None and out and out[0][0] <= vb:
        vb = out[0][1]
        out = out[1:]
    return (','.join('%d-%d' % x for x in out) or '-'), vb


def canon(lines):
    res = []
    for l in lines:
        if l == 'tp_parse res=hang':
            # a definition that is not a day definition ("monday 0"): never finishing and being rejected are both
            # "not computed" for the correspondence; the oracle (raw trace) tells them apart
            l = 'tp_parse res=rejected'
        if l.startswith('tp ') and ' segs=' in l:
            pre, rest = l.split(' segs=', 1)
            f, tail = rest.split(' ', 1)
            kv = dict(x.split('=', 1) for x in tail.split(' ') if '=' in x)
            vb = int(kv['vb']) if kv.get('vb', '-') != '-' else None
            ve = int(kv['ve']) if kv.get('ve', '-') != '-' else None
            sg, vb2 = _canon_segs(f, vb, ve)
            l = '%s segs=%s vb=%s ve=%s in=%s' % (pre, sg, '-' if vb2 is None else vb2, kv.get('ve', '-'), kv.get('in', '-'))
        res.append(l)
    return res


def keep_line(l):
    return l.startswith(('tp_new', 'tp_pts', 'tp_tz'))


def extra_stats(cases, impl):
    import collections
    zones = collections.Counter(c['tags'].get('zone', '-') for c in cases)
    trw = sum(1 for c in cases if c['tags'].get('transition_window'))
    nseg = collections.Counter()
    inside = outside = 0
    for c in cases:
        for l in impl.get(c['id'], []):
            if l.startswith('tp '):
                sg = l.split(' segs=', 1)[1].split(' ', 1)[0]
                nseg[min(4, 0 if sg == '-' else sg.count(',') + 1)] += 1
                bits = l.rsplit('in=', 1)[-1]
                inside += bits.count('1')
                outside += bits.count('0')
    legacy = set()
    hyp_steps = 0
    for c in cases:
        names = {l.split('name=')[1].split()[0] for l in c['lines'] if l.startswith('tp_range ')}
        hyp_steps += sum(1 for l in c['lines'] if l.startswith('tp_upd ') and l.split('name=')[1].split()[0] in names)
    per_zone = {}
    for zn in ZONES:
        zc = [c for c in cases if c['tags'].get('zone') == zn]
        per_zone[zn] = {
            'transitions_in_table_after_T0': len(transitions(zn)),
            'day_loop_windows_placed_on_transition_days': sum(1 for c in zc if c['tags'].get('transition_window')),
            'nth_weekday_searches_walking_over_a_transition_day': sum(1 for c in zc if c['tags'].get('nth_crosses_transition')),
            'mktime_cases(one per transition)': sum(1 for c in zc if c['tags'].get('family') == 'm2-mktime'),
            'mktime_queries_inside_a_skipped_hour': sum(c['tags'].get('mk_inside', 0) for c in zc if c['tags'].get('mk_kind') == 'skipped'),
            'mktime_queries_inside_a_repeated_hour': sum(c['tags'].get('mk_inside', 0) for c in zc if c['tags'].get('mk_kind') == 'repeated'),
            'named_month_cases': sum(1 for c in zc if c['tags'].get('family') == 'm2-month-name'),
        }
    mrel = collections.Counter(c['tags'].get('month_rel') for c in cases if c['tags'].get('family') == 'm2-month-name')
    mform = collections.Counter(c['tags'].get('month_form') for c in cases if c['tags'].get('family') == 'm2-month-name')
    rl = [c for c in cases if c['tags'].get('family') == 'm2-range-list']
    ro = [c for c in cases if c['tags'].get('family') == 'm2-rolling']
    rs_ = [c for c in cases if c['tags'].get('family') in ('m2-restart-changed-definition', 'm2-directed-restart-valid-end')]

    def reload_lines(c):
        # the observation lines of the tp_reload ops of a case (the state RestoreObject put into the new object)
        outl = [l for l in impl.get(c['id'], []) if not l.startswith(('case', 'end'))]
        ops = [l for l in c['lines'] if l.split()[0] in ('tp_tz', 'tp_mk', 'tp_parse', 'tp_add', 'tp_rm', 'tp_purge', 'tp_upd', 'tp_start', 'tp_reload', 'tp_now', 'tp_timer')]
        if any(l.startswith('tp_timer') for l in ops):
            return [l for l in outl if l.startswith('tp ')]     # a timer prints several lines: count any state line of the case
        return [o for l, o in zip(ops, outl) if l.startswith('tp_reload')]
    return {'zones': dict(zones), 'windows_on_dst_transition_days': trw,
            'range_list_family': {'cases': len(rl), 'by_configuration': dict(collections.Counter(c['tags']['list_config'] for c in rl)),
                                  'by_variant': dict(collections.Counter(c['tags']['list_variant'] for c in rl)),
                                  'by_placement': dict(collections.Counter(c['tags']['list_mode'] for c in rl)),
                                  'with_a_range_nested_in_another_and_ending_earlier': sum(1 for c in rl if c['tags'].get('list_nested_ending_earlier'))},
            'rolling_family': {'cases': len(ro), 'timer_rounds': sum(c['tags']['roll_rounds'] for c in ro),
                               'hours_per_case': dict(collections.Counter(c['tags']['roll_hours'] for c in ro)),
                               'referencing_period_updated': dict(collections.Counter(c['tags']['roll_order'] for c in ro)),
                               'shapes': dict(collections.Counter(c['tags']['roll_shape'] for c in ro)),
                               'walking_over_a_dst_transition': sum(1 for c in ro if c['tags'].get('roll_crosses_transition'))},
            'restart_family': {'cases': len(rs_), 'by_change': dict(collections.Counter(c['tags']['restart_change'] for c in rs_)),
                               'timer_rounds': sum(c['tags'].get('roll_rounds_restart', 0) for c in rs_),
                               'rounds_before_restart': {str(k): v for k, v in collections.Counter(c['tags'].get('restart_rounds_before', 'directed') for c in rs_).items()},
                               'seconds_between_last_round_and_restart': {str(k): v for k, v in collections.Counter(c['tags'].get('restart_gap', 'directed') for c in rs_).items()},
                               'restored_states_with_segments': sum(1 for c in rs_ if any(l.startswith('tp ') and 'segs=-' not in l for l in reload_lines(c)))},
            'compared_only_per_zone': {
                'what': 'not covered by a theorem and therefore aimed at every transition of every zone that has one: mktime for local times '
                        'inside a skipped / repeated hour (libc primed with the local time two days earlier, against tp_tab_mk); proved only under '
                        '"the local midnights asked about exist exactly once" and additionally compared here: the day loop and the n-th weekday '
                        'search walking over a transition day (C08_day_loop_mktime, C08_nth_weekday_mktime)',
                'zones': per_zone},
            'named_month_family': {'window_relative_to_named_month': dict(mrel), 'forms': dict(mform),
                                   'leap_year_february_windows': sum(1 for c in cases if c['tags'].get('leap_feb'))},
            'calendar_hypotheses_checked_by_computation': {
                'what': 'per UpdateRegion on a LegacyTimePeriod period the oracle evaluates tp_cal_hyps_ok: the offset table is ascending with transitions >= 2 days apart and |offset| < 24 h (tp_tab_ok), and every local time mktime is asked about for the window (00:00 of the visited days, of the day after the last one and of each day definition\'s first / day-after-last day, both boundaries of every time range) exists exactly once and tp_tab_mk returns its instant (tp_tab_good_b); a failure is an oracle hit of class calendar-hypotheses',
                'update_steps_checked': hyp_steps, 'failures': 'none unless an oracle hit of class calendar-hypotheses is reported'},
            'observed_states_by_segment_count(4=4+)': {str(k): v for k, v in sorted(nseg.items())},
            'probe_evaluations_inside': inside, 'probe_evaluations_outside': outside}
