"""C07 - reachability follows the dependency graph; dependency cycles are rejected.  Generators."""
import random, itertools

PID = 'C07'
HEADER = []
T0 = 2000000000
RULE = ('(a) exhaustive: every set of <=2 dependencies over all 9 ordered (child,parent) pairs (self loops included) of the layouts '
        '{3 hosts}, {2 hosts + service}, {host + 2 services}, as plain / same redundancy group / duplicate, loaded as ONE batch and, '
        'separately, added one by one at runtime, each followed by a sweep of status assignments (never checked, Up/OK, soft and hard '
        'problem states) with IsReachable read for all nodes x 3 DependencyTypes; (b) sampled graphs on <=4 checkables with <=4 '
        'dependencies (plain, duplicate, redundancy groups, state filters incl. empty, ignore_soft_states, periods open/closed/toggled, '
        'disable_checks/disable_notifications) x sampled status assignments; (c) random graphs on <=10 nodes with random runtime '
        'add/remove sequences, status changes and period toggles, groups and registry dumped after each change; (d) chains of '
        '255/256/257 dependencies (recursion limit), plain and masked by a redundancy group; (e) cycles closed through the implicit '
        'service->host edge at load and at runtime add; (f) 12 cycle / near-cycle shapes (2- and 3-cycles, through one or two implicit '
        'service->host edges, service<->service) with EVERY assignment of {object Dependency, apply Dependency} to the edges and of '
        '{object Service, apply Service} to the services, i.e. every split of the edges over the commit rounds of one load, followed by '
        'runtime additions closing the near-cycles; apply-rule edges/services also mixed into (c) and (e); (g) a redundancy group whose '
        'NAME is the object name of an object of the inventory (the plain parent, the child, a member, the host carrying the service '
        'parents, an unrelated host; "host" and "host!service" forms): one child with a plain dependency and a two-member group, loaded '
        'in every textual order, added at runtime in every order x removed in every order, or partly loaded and completed at runtime, '
        'groups/registry dumped after every change and all 8 up/down assignments of the three parents queried; such names also '
        'sampled into (c). non-trivial = at least one dependency accepted and (an unreachable verdict or a '
        'rejected cycle or >=2 groups); distinct = distinct script text')
TRUSTED = ['model: coq/Dep/DgModel.v (transcription of Dependency::IsAvailable, DependencyGroup::GetState, Checkable::IsReachable, '
           'DependencyCycleChecker::AssertNoCycle + BeforeOnAllConfigLoadedHandler, Checkable::AddDependency/RemoveDependency/'
           'PushDependencyGroupsToRegistry, DependencyGroup::Register/Unregister)',
           'hook H1 (virtual clock) in lib/base/utility.cpp; TimePeriod open/closed is driven through a real TimePeriod object whose '
           'update function is supplied by the harness (TimePeriod::UpdateRegion/IsInside are the real code)',
           'oracle glue (ocaml/ops_dg.ml): rank function for the depth<=256 certificate is computed by untrusted OCaml and CHECKED by '
           'the extracted dg_rank_ok; canonical sorting/printing of groups']
ASSUMPTIONS = ['parent status (checked, state, state type) and period open/closed are inputs read from the implementation',
               'pointer-ordered containers (std::map keyed by Checkable*/TimePeriod*, std::set<Dependency::Ptr>) only influence the order '
               'of evaluation, which the model proves irrelevant for the verdicts observed; which cycle is REPORTED is not observed (log text)',
               'timestamps are whole seconds']
TIMEOUT = 300


class W:
    """python-side mirror of the world, only to steer generation (fresh ids, expected accept/reject)."""

    def __init__(self, rnd):
        self.rnd = rnd
        self.lines = ['now %d' % T0]
        self.t = T0
        self.nodes = {}      # id -> host id or None
        self.deps = {}       # id -> (c, p)
        self.next_dep = 0
        self.periods = []
        self.apply_svcs = set()

    def tick(self, d=None):
        self.t += d if d is not None else self.rnd.choice((1, 1, 2, 5, 10))
        self.lines.append('now %d' % self.t)

    def is_svc(self, n):
        return self.nodes.get(n) is not None

    def cyclic(self, extra):
        adj = {}
        for n, h in self.nodes.items():
            if h is not None:
                adj.setdefault(n, []).append(h)
        for (c, p) in list(self.deps.values()) + list(extra):
            adj.setdefault(c, []).append(p)
        color = {}

        def dfs(u):
            st = [(u, iter(adj.get(u, [])))]
            color[u] = 1
            while st:
                v, it = st[-1]
                nx = next(it, None)
                if nx is None:
                    color[v] = 2
                    st.pop()
                    continue
                if color.get(nx) == 1:
                    return True
                if nx not in color:
                    color[nx] = 1
                    st.append((nx, iter(adj.get(nx, []))))
            return False
        for u in list(adj):
            if u not in color and dfs(u):
                return True
        return False

    def filt(self, p, mode=None):
        r = self.rnd
        if self.is_svc(p):
            return r.choice((3, 3, 1, 0, 2, 4, 8, 6, 12, 15, 9))
        return r.choice((16, 16, 16, 32, 0, 48))

    def dep_line(self, op, did, c, p, rg='-', sf=None, iss=1, per='-', dc=0, dn=1, via='obj'):
        if sf is None:
            sf = 3 if self.is_svc(p) else 16
        return '%s d=%d c=%d p=%d rg=%s sf=%d iss=%d per=%s dc=%d dn=%d%s' % (op, did, c, p, rg, sf, iss, per, dc, dn,
                                                                             ' via=apply' if via == 'apply' else '')

    def batches(self, deps):
        """deps: list of (c, p, via) of ONE load -> the commit rounds [A, B, C] (see ocaml/ops_dg.ml load_batches)"""
        a = [(c, p) for c, p, v in deps if v == 'apply' and c in self.apply_svcs]
        b = [(c, p) for c, p, v in deps if v != 'apply']
        cc = [(c, p) for c, p, v in deps if v == 'apply' and c not in self.apply_svcs]
        return [x for x in (a, b, cc) if x]

    def spans_batches(self, deps):
        """the load is cyclic, but no single round (together with everything before the load) is"""
        bs = self.batches(deps)
        return len(bs) >= 2 and self.cyclic([(c, p) for c, p, _ in deps]) and not any(self.cyclic(b) for b in bs)

    def rand_attrs(self, p):
        r = self.rnd
        return dict(sf=self.filt(p), iss=r.randint(0, 1), per=(str(r.choice(self.periods)) if self.periods and r.random() < 0.4 else '-'),
                    dc=r.randint(0, 1), dn=r.randint(0, 1))

    def rand_status(self, n):
        r = self.rnd
        if self.is_svc(n):
            s = r.choice((0, 0, 1, 2, 2, 3))
        else:
            s = r.choice((0, 0, 1, 1))
        h = 1 if s == 0 else r.randint(0, 1)
        return 'dg_set n=%d s=%d h=%d' % (n, s, h)


def layout(w, spec, apply_svcs=()):
    """spec: list of None (host) or host index (service); apply_svcs: services created by `apply Service`."""
    w.apply_svcs = set(apply_svcs)
    for i, h in enumerate(spec):
        w.nodes[i] = h
        w.lines.append('dg_host n=%d' % i if h is None else 'dg_svc n=%d h=%d%s' % (i, h, ' via=apply' if i in w.apply_svcs else ''))


def status_sweep(w, k):
    """k rounds: set a few nodes, query everything."""
    w.lines.append('dg_q')
    for _ in range(k):
        w.tick()
        for n in w.rnd.sample(sorted(w.nodes), w.rnd.randint(1, max(1, len(w.nodes) // 2 + 1))):
            w.lines.append(w.rand_status(n))
        for p in w.periods:
            if w.rnd.random() < 0.25:
                w.lines.append('dg_po p=%d open=%d' % (p, w.rnd.randint(0, 1)))
        w.lines.append('dg_q')


def full_status_sweep(w):
    """every node through: never checked -> hard problem -> soft problem -> OK, one node at a time."""
    w.lines.append('dg_q')
    for n in sorted(w.nodes):
        for (s, h) in ((2 if w.is_svc(n) else 1, 1), (1, 0), (0, 1)):
            w.tick(1)
            w.lines.append('dg_set n=%d s=%d h=%d' % (n, s, h))
            w.lines.append('dg_q')
        w.tick(1)
        w.lines.append('dg_set n=%d s=%d h=1' % (n, 2 if w.is_svc(n) else 1))   # leave it in a hard problem state
    w.lines.append('dg_q')


LAYOUTS3 = [[None, None, None], [None, None, 0], [None, 0, 0]]
LAYOUTS = [[None], [None, None], [None, 0], [None, None, None], [None, None, 0], [None, 0, 0], [None, None, None, None],
           [None, None, 0, 1], [None, 0, 0, 0], [None, None, 0, 0], [None, None, None, 2]]


def exhaustive_small(rnd, cases):
    for lay in LAYOUTS3:
        pairs = [(c, p) for c in range(3) for p in range(3)]
        structures = [[x] for x in pairs] + [[x, y] for x in pairs for y in pairs if x <= y]
        for st in structures:
            variants = ['plain'] if len(st) == 1 else ['plain', 'rg']
            for var in variants:
                for mode in ('batch', 'runtime'):
                    w = W(rnd)
                    layout(w, lay)
                    if mode == 'runtime':
                        w.lines.append('dg_commit')
                    cyc = False
                    for i, (c, p) in enumerate(st):
                        rg = '7' if var == 'rg' else '-'
                        a = dict(sf=(3 if w.is_svc(p) else 16), iss=(i + len(st)) % 2, dc=1, dn=1)
                        if mode == 'batch':
                            w.lines.append(w.dep_line('dg_dep', i, c, p, rg=rg, **a))
                        else:
                            w.lines.append(w.dep_line('dg_add', i, c, p, rg=rg, **a))
                            if not w.cyclic([(c, p)]):
                                w.deps[i] = (c, p)
                    if mode == 'batch':
                        cyc = w.cyclic(st)
                        w.lines.append('dg_commit')
                        if cyc:
                            layout(w, lay)
                            w.lines.append('dg_commit')
                        else:
                            for i, x in enumerate(st):
                                w.deps[i] = x
                    w.lines.append('dg_g')
                    full_status_sweep(w)
                    w.lines.append('dg_g')
                    cases.append({'lines': w.lines, 'tags': {'family': 'exhaustive-3nodes-%s' % mode}})


def sampled_small(rnd, cases, n):
    for _ in range(n):
        w = W(rnd)
        lay = rnd.choice(LAYOUTS)
        layout(w, lay)
        w.periods = [0, 1] if rnd.random() < 0.6 else []
        for p in w.periods:
            w.lines.append('dg_tp p=%d open=%d' % (p, rnd.randint(0, 1)))
        k = rnd.randint(1, 4)
        nn = len(lay)
        st = []
        kind = rnd.choice(('plain', 'dup', 'rg', 'rg2', 'mixed'))
        for i in range(k):
            if kind == 'dup' and st and rnd.random() < 0.6:
                c, p = rnd.choice(st)
            else:
                c, p = rnd.randrange(nn), rnd.randrange(nn)
                if nn > 1 and rnd.random() < 0.85:
                    while c == p:
                        p = rnd.randrange(nn)
            st.append((c, p))
        batch = rnd.random() < 0.6
        if not batch:
            w.lines.append('dg_commit')
        extra = []
        for i, (c, p) in enumerate(st):
            rg = {'plain': '-', 'dup': '-', 'rg': '1', 'rg2': str(rnd.randint(1, 2)), 'mixed': rnd.choice(('-', '1'))}[kind]
            a = w.rand_attrs(p)
            if batch:
                w.lines.append(w.dep_line('dg_dep', i, c, p, rg=rg, **a))
                extra.append((c, p))
            else:
                w.lines.append(w.dep_line('dg_add', i, c, p, rg=rg, **a))
                if not w.cyclic([(c, p)]):
                    w.deps[i] = (c, p)
        if batch:
            w.lines.append('dg_commit')
            if w.cyclic(extra):
                layout(w, lay)
                for p in w.periods:
                    w.lines.append('dg_tp p=%d open=%d' % (p, rnd.randint(0, 1)))
                w.lines.append('dg_commit')
            else:
                for i, x in enumerate(extra):
                    w.deps[i] = x
        w.lines.append('dg_g')
        status_sweep(w, rnd.randint(3, 8))
        w.lines.append('dg_g')
        cases.append({'lines': w.lines, 'tags': {'family': 'sampled-le4-%s' % kind}})


def random_graphs(rnd, cases, n):
    for _ in range(n):
        w = W(rnd)
        nn = rnd.randint(4, 10)
        lay = []
        for i in range(nn):
            hosts = [j for j, h in enumerate(lay) if h is None]
            lay.append(None if not hosts or rnd.random() < 0.5 else rnd.choice(hosts))
        apply_p = rnd.choice((0.0, 0.3, 0.5))
        asv = [i for i, h in enumerate(lay) if h is not None and rnd.random() < apply_p]
        layout(w, lay, asv)
        w.periods = [0, 1]
        for p in w.periods:
            w.lines.append('dg_tp p=%d open=%d' % (p, rnd.randint(0, 1)))
        cyc_bias = rnd.choice((0.0, 0.0, 0.1, 0.3))

        def rand_edge():
            c, p = rnd.randrange(nn), rnd.randrange(nn)
            if rnd.random() >= cyc_bias:
                # mostly "downhill" edges keep the graph acyclic (services sit above their host index)
                tries = 0
                while (c <= p or w.cyclic([(c, p)])) and tries < 20:
                    c, p = rnd.randrange(nn), rnd.randrange(nn)
                    tries += 1
            return c, p
        m = rnd.randint(2, 12)
        extra = []
        vias = []
        for i in range(m):
            c, p = rand_edge()
            if rnd.random() < 0.2 and extra:
                c, p, _ = rnd.choice(extra)
            rg = rnd.choice(('-', '-', '1', '2', str(NAMED + p), str(NAMED + rnd.randrange(nn))))
            via = 'apply' if rnd.random() < apply_p else 'obj'
            w.lines.append(w.dep_line('dg_dep', w.next_dep, c, p, rg=rg, via=via, **w.rand_attrs(p)))
            extra.append((c, p, w.next_dep))
            vias.append((c, p, via))
            w.next_dep += 1
        w.lines.append('dg_commit')
        tags = {'family': 'random-le10', 'rounds': len(w.batches(vias))}
        if w.cyclic([(c, p) for c, p, _ in extra]):
            tags['span_batches'] = w.spans_batches(vias)
            layout(w, lay)
            for p in w.periods:
                w.lines.append('dg_tp p=%d open=1' % p)
            w.lines.append('dg_commit')
        else:
            for c, p, i in extra:
                w.deps[i] = (c, p)
        w.lines.append('dg_g')
        w.lines.append('dg_q')
        for _ in range(rnd.randint(6, 20)):
            w.tick()
            x = rnd.random()
            if x < 0.3:
                c, p = rand_edge()
                if rnd.random() < 0.3 and w.deps:
                    c, p = rnd.choice(list(w.deps.values()))
                rg = rnd.choice(('-', '-', '1', '2', str(NAMED + p), str(NAMED + rnd.randrange(nn))))
                w.lines.append(w.dep_line('dg_add', w.next_dep, c, p, rg=rg, **w.rand_attrs(p)))
                if not w.cyclic([(c, p)]):
                    w.deps[w.next_dep] = (c, p)
                w.next_dep += 1
                w.lines.append('dg_g')
            elif x < 0.5 and w.deps:
                d = rnd.choice(sorted(w.deps))
                del w.deps[d]
                w.lines.append('dg_del d=%d' % d)
                w.lines.append('dg_g')
            elif x < 0.6:
                p = rnd.choice(w.periods)
                w.lines.append('dg_po p=%d open=%d' % (p, rnd.randint(0, 1)))
            else:
                for n_ in rnd.sample(range(nn), rnd.randint(1, 3)):
                    w.lines.append(w.rand_status(n_))
            w.lines.append('dg_q')
        w.lines.append('dg_g')
        cases.append({'lines': w.lines, 'tags': tags})


def chains(rnd, cases):
    for L in (255, 256, 257):
        for var in ('plain', 'top-down', 'masked', 'svc-bottom'):
            w = W(rnd)
            n = L + 1
            lay = [None] * n
            extra_nodes = 0
            if var == 'masked':
                lay.append(None)            # a second, shallow parent for node 0 in the same redundancy group
            if var == 'svc-bottom':
                lay.append(0)               # a service on node 0 depending on node 0's parent chain via its own dependency
            layout(w, lay)
            for j in range(L):
                rg = '1' if (var == 'masked' and j == 0) else '-'
                w.lines.append(w.dep_line('dg_dep', j, j, j + 1, rg=rg, sf=16, iss=0, dc=1, dn=1))
            if var == 'masked':
                w.lines.append(w.dep_line('dg_dep', L, 0, n, rg='1', sf=16, iss=0, dc=1, dn=1))
            if var == 'svc-bottom':
                w.lines.append(w.dep_line('dg_dep', L, n, 1, rg='-', sf=16, iss=0, dc=1, dn=1))
            w.lines.append('dg_commit')
            q = [0, 1, 2, L - 1, L] + ([n] if len(lay) > n else [])
            for x in q:
                w.lines.append('dg_q n=%d' % x)
            if var in ('top-down', 'masked'):
                w.tick()
                w.lines.append('dg_set n=%d s=1 h=1' % L)
                for x in q:
                    w.lines.append('dg_q n=%d' % x)
            if var == 'masked':
                w.tick()
                w.lines.append('dg_set n=%d s=1 h=1' % n)
                w.lines.append('dg_q n=0')
            # closing the chain into a cycle at runtime must be rejected, shortening it must not
            w.lines.append(w.dep_line('dg_add', L + 5, L, 0, sf=16))
            w.lines.append(w.dep_line('dg_add', L + 6, 0, L, sf=16))
            w.lines.append('dg_q n=0')
            cases.append({'lines': w.lines, 'tags': {'family': 'chain-%d-%s' % (L, var)}})


def implicit_cycles(rnd, cases, n):
    shapes = [
        # (layout, deps) - every cycle here needs an implicit service->host edge
        ([None, 0], [(0, 1)]),
        ([None, None, 0, 1], [(0, 3), (1, 2)]),
        ([None, None, 0], [(0, 1), (1, 2)]),
        ([None, 0, 0], [(1, 2), (0, 1)]),
        ([None, None, 0, 1], [(2, 3), (1, 2)]),
        ([None, None, None, 2], [(0, 1), (1, 3), (2, 0)]),
        ([None, None, 0, 1], [(2, 1), (3, 0)]),          # acyclic: crosswise service->other host
        ([None, 0], [(1, 0)]),                            # acyclic: service depends on its own host explicitly
    ]
    for _ in range(n):
        lay, deps = rnd.choice(shapes)
        deps = list(deps)
        rnd.shuffle(deps)
        for mode in ('batch', 'two-batch', 'runtime'):
            w = W(rnd)
            layout(w, lay)
            if mode != 'batch':
                w.lines.append('dg_commit')
            acc = []
            span = False
            if mode == 'runtime':
                for i, (c, p) in enumerate(deps):
                    w.lines.append(w.dep_line('dg_add', i, c, p, rg=rnd.choice(('-', '-', '3')), **w.rand_attrs(p)))
                    if not w.cyclic([(c, p)]):
                        w.deps[i] = (c, p)
            else:
                vias = []
                for i, (c, p) in enumerate(deps):
                    via = 'apply' if (mode == 'batch' and rnd.random() < 0.5) else 'obj'
                    vias.append((c, p, via))
                    w.lines.append(w.dep_line('dg_dep', i, c, p, rg=rnd.choice(('-', '-', '3')), via=via, **w.rand_attrs(p)))
                w.lines.append('dg_commit')
                span = w.spans_batches(vias)
                if w.cyclic(deps):
                    if mode == 'batch':
                        layout(w, lay)
                        w.lines.append('dg_commit')
                    # afterwards: all but the last dependency must be acceptable one by one or not, the python mirror tells
                    for i, (c, p) in enumerate(deps):
                        w.lines.append(w.dep_line('dg_add', 10 + i, c, p, **w.rand_attrs(p)))
                        if not w.cyclic([(c, p)]):
                            w.deps[10 + i] = (c, p)
                else:
                    for i, x in enumerate(deps):
                        w.deps[i] = x
            w.lines.append('dg_g')
            status_sweep(w, 3)
            cases.append({'lines': w.lines, 'tags': {'family': 'implicit-edge-%s' % mode, 'span_batches': (mode != 'runtime' and span)}})


SPLIT_SHAPES = [
    # (layout, edges, closing runtime edge or None) - cycles and near-cycles
    ([None, None], [(0, 1), (1, 0)], None),
    ([None, None, None], [(0, 1), (1, 2), (2, 0)], None),
    ([None, None, 1], [(0, 2), (1, 0)], None),                 # 0 -> svc2 -(implicit)-> host1 -> 0
    ([None, None, 0, 1], [(0, 3), (1, 2)], None),              # two implicit edges
    ([None, None, 0], [(1, 2), (0, 1)], None),                 # host1 -> svc2 -(implicit)-> host0 -> host1
    ([None, 0, 0], [(1, 2), (0, 1)], None),                    # svc1 -> svc2 -(implicit)-> host0 -> svc1
    ([None, None, 1, 0], [(2, 3), (3, 2)], None),              # service <-> service
    ([None, None, None], [(0, 1), (1, 2), (0, 2)], (2, 0)),    # near-cycles: acyclic, one runtime edge closes them
    ([None, None, 1], [(0, 2), (0, 1)], (1, 0)),
    ([None, None, 0, 1], [(0, 3), (2, 1)], (1, 2)),
    ([None, None, None, 2], [(0, 1), (1, 3)], (2, 0)),
    ([None, None, 0], [(2, 1)], (1, 0)),
]


def split_batches(rnd, cases):
    """every assignment of {object, apply} to the edges and to the services of each shape"""
    for lay, edges, closing in SPLIT_SHAPES:
        svcs = [i for i, h in enumerate(lay) if h is not None]
        for vias in itertools.product(('obj', 'apply'), repeat=len(edges)):
            for svia in itertools.product((0, 1), repeat=len(svcs)):
                asv = [s for s, f in zip(svcs, svia) if f]
                w = W(rnd)
                layout(w, lay, asv)
                order = list(range(len(edges)))
                rnd.shuffle(order)
                deps = []
                for i in order:
                    c, p = edges[i]
                    w.lines.append(w.dep_line('dg_dep', i, c, p, rg=rnd.choice(('-', '-', '-', '5')), via=vias[i], **w.rand_attrs(p)))
                    deps.append((c, p, vias[i]))
                w.lines.append('dg_commit')
                tags = {'family': 'split-batch', 'rounds': len(w.batches(deps))}
                if w.cyclic([(c, p) for c, p, _ in deps]):
                    tags['span_batches'] = w.spans_batches(deps)
                    # the same nodes as plain objects, then the edges one at a time at runtime: the last one closes the cycle
                    layout(w, lay)
                    w.lines.append('dg_commit')
                    for i in order:
                        c, p = edges[i]
                        w.lines.append(w.dep_line('dg_add', 10 + i, c, p, **w.rand_attrs(p)))
                        if not w.cyclic([(c, p)]):
                            w.deps[10 + i] = (c, p)
                else:
                    for i in order:
                        w.deps[i] = edges[i]
                    w.lines.append('dg_g')
                    w.lines.append('dg_q')
                    if closing:
                        # a runtime addition closing a cycle whose other edges came from different rounds of the load
                        tags['rt_closes_multi_round'] = len(w.batches(deps)) >= 2
                        w.lines.append(w.dep_line('dg_add', 20, closing[0], closing[1], **w.rand_attrs(closing[1])))
                        w.lines.append(w.dep_line('dg_add', 21, closing[1], closing[0], **w.rand_attrs(closing[0])))
                        if not w.cyclic([(closing[1], closing[0])]):
                            w.deps[21] = (closing[1], closing[0])
                w.lines.append('dg_g')
                status_sweep(w, 2)
                cases.append({'lines': w.lines, 'tags': tags})


NAMED = 100      # rg >= NAMED: the redundancy group carries EXACTLY the object name of node rg - NAMED (harness GroupText)


def named_groups(rnd, cases):
    """(g) a redundancy group named like an object of the inventory.  One child (host or service) with a plain dependency on
    P (host or service, i.e. "host" and "host!service" name forms) and a redundancy group {R1, R2} whose NAME is the object name
    of P / of the child / of R1 / of the host carrying the service parents / of an unrelated host / an ordinary text; loaded in
    one batch (every textual order), added at runtime in every order and removed in every order, or loaded partly and completed
    at runtime.  After every structural change: groups + registry, then all 8 up/down assignments of (P, R1, R2)."""
    perms = list(itertools.permutations(range(3)))
    for child_svc in (0, 1):
        for p_svc in (0, 1):
            for r_svc in (0, 1):
                # 0 host (child or the child's host), 1 child service, 2 host carrying the service parents, 3 P, 4 R1, 5 R2, 6 unrelated host
                lay = [None, 0, None, 2 if p_svc else None, 2 if r_svc else None, 2 if r_svc else None, None]
                c = 1 if child_svc else 0
                P, R1, R2 = 3, 4, 5
                for like in ('P', 'child', 'R1', 'carrier', 'other', 'text'):
                    if like == 'carrier' and not (p_svc or r_svc):
                        continue
                    rg = {'P': NAMED + P, 'child': NAMED + c, 'R1': NAMED + R1, 'carrier': NAMED + 2, 'other': NAMED + 6, 'text': 4}[like]
                    if r_svc and like != 'P':
                        continue        # service members only for the colliding name (keeps the family small)
                    edges = [(P, '-'), (R1, str(rg)), (R2, str(rg))]
                    modes = [('load', o, None) for o in perms]
                    if like == 'P':
                        modes += [('runtime', o, ro) for o in perms for ro in perms]
                        modes += [('mixed%d' % k, o, perms[(k + i) % 6]) for i, o in enumerate(perms) for k in (1, 2)]
                    else:
                        modes += [('runtime', o, perms[(i * 5 + 1) % 6]) for i, o in enumerate(perms)]
                    for mode, order, rorder in modes:
                        w = W(rnd)
                        layout(w, lay)

                        def dl(op, i):
                            par, g = edges[i]
                            return w.dep_line(op, i, c, par, rg=g, sf=(3 if w.is_svc(par) else 16), iss=0, dc=1, dn=1)

                        def sweep():
                            w.lines.append('dg_g')
                            for bits in range(8):
                                w.tick(1)
                                for j, n in enumerate((P, R1, R2)):
                                    down = (bits >> j) & 1
                                    w.lines.append('dg_set n=%d s=%d h=1' % (n, (2 if w.is_svc(n) else 1) if down else 0))
                                w.lines.append('dg_q')
                                w.lines.append('dg_g')
                        nload = {'load': 3, 'runtime': 0, 'mixed1': 1, 'mixed2': 2}[mode]
                        for i in order[:nload]:
                            w.lines.append(dl('dg_dep', i))
                            w.deps[i] = (c, edges[i][0])
                        w.lines.append('dg_commit')
                        for i in order[nload:]:
                            w.lines.append(dl('dg_add', i))
                            w.deps[i] = (c, edges[i][0])
                            w.lines.append('dg_g')
                            w.lines.append('dg_q')
                        sweep()
                        if rorder is not None:
                            # P down, R1 up, R2 down: distinguishes the kinds while the dependencies leave one by one
                            w.tick(1)
                            for n, down in ((P, 1), (R1, 0), (R2, 1)):
                                w.lines.append('dg_set n=%d s=%d h=1' % (n, (2 if w.is_svc(n) else 1) if down else 0))
                            for k, i in enumerate(rorder):
                                w.lines.append('dg_del d=%d' % i)
                                w.lines.append('dg_g')
                                w.lines.append('dg_q')
                                if k == 1:
                                    # one dependency left: bring the first removed one back (new id) and take it away again
                                    j = rorder[0]
                                    par, g = edges[j]
                                    w.lines.append(w.dep_line('dg_add', 10 + j, c, par, rg=g, sf=(3 if w.is_svc(par) else 16), iss=0, dc=1, dn=1))
                                    w.lines.append('dg_g')
                                    w.lines.append('dg_q')
                                    w.lines.append('dg_del d=%d' % (10 + j))
                                    w.lines.append('dg_g')
                        cases.append({'lines': w.lines, 'tags': {'family': 'named-group-%s-%s' % (like, mode.rstrip('12')),
                                                                 'group_named_like_parent': like == 'P'}})


def generate(seed, tier):
    rnd = random.Random(seed)
    cases = []
    big = tier in ('thorough',)
    exhaustive_small(rnd, cases)
    split_batches(rnd, cases)
    named_groups(rnd, cases)
    sampled_small(rnd, cases, {'quick': 1500, 'thorough': 12000, 'search': 3000}.get(tier, 1500))
    random_graphs(rnd, cases, {'quick': 400, 'thorough': 4000, 'search': 800}.get(tier, 400))
    implicit_cycles(rnd, cases, {'quick': 60, 'thorough': 400, 'search': 100}.get(tier, 60))
    chains(rnd, cases)
    return cases


def nontrivial(case, impl_lines):
    acc = any(l.endswith('ok=1') and (l.startswith('add') or l.startswith('commit')) for l in impl_lines) and \
        any(l.startswith('g ') for l in impl_lines)
    interesting = any((l.startswith('r ') and '0' in l.split()[-1]) or l.endswith('ok=0') for l in impl_lines) or \
        sum(1 for l in impl_lines if l.startswith('g ')) >= 2
    return acc and interesting


def classify(case, detail, impl_lines):
    if 'crash' in detail or 'missing-observation' in detail:
        return 'crash'
    if 'reachability' in detail:
        return 'reachability'
    if 'cycle-accepted' in detail:
        return 'cycle-accepted'
    if 'acyclic-rejected' in detail:
        return 'acyclic-rejected'
    if 'grouping' in detail:
        return 'grouping'
    return 'other'


def keep_line(l):
    return l.startswith(('dg_host', 'dg_svc', 'dg_tp')) or l == 'now %d' % T0


def extra_stats(cases, impl):
    st = {'queries': 0, 'reach_verdicts': 0, 'unreachable_verdicts': 0, 'commit_ok': 0, 'commit_rejected': 0, 'add_ok': 0,
          'add_rejected': 0, 'del': 0, 'group_lines': 0, 'shared_group_slots': 0, 'group_state_failed': 0, 'group_state_unreachable': 0,
          'max_registry': 0}
    st['loads_with_2plus_rounds'] = sum(1 for c in cases if c.get('tags', {}).get('rounds', 1) >= 2)
    st['cases_cycle_spanning_2plus_batches'] = sum(1 for c in cases if c.get('tags', {}).get('span_batches'))
    st['cases_group_named_like_plain_parent'] = sum(1 for c in cases if c.get('tags', {}).get('group_named_like_parent'))
    st['cases_runtime_add_closing_multi_round_cycle'] = sum(1 for c in cases if c.get('tags', {}).get('rt_closes_multi_round'))
    for c in cases:
        for l in impl.get(c['id'], []):
            if l.startswith('r '):
                st['queries'] += 1
                b = l.split()[-1]
                st['reach_verdicts'] += 3
                st['unreachable_verdicts'] += b.count('0')
            elif l.startswith('commit'):
                st['commit_ok' if l.endswith('1') else 'commit_rejected'] += 1
            elif l.startswith('add'):
                st['add_ok' if l.endswith('1') else 'add_rejected'] += 1
            elif l.startswith('del'):
                st['del'] += 1
            elif l.startswith('g '):
                st['group_lines'] += 1
                t = dict(x.split('=', 1) for x in l.split()[1:])
                if t.get('cls') != '%s:%s' % (t.get('c'), t.get('k')):
                    st['shared_group_slots'] += 1
                st['group_state_failed'] += t.get('st', '').count('1')
                st['group_state_unreachable'] += t.get('st', '').count('2')
            elif l.startswith('reg size='):
                st['max_registry'] = max(st['max_registry'], int(l.split('=')[1]))
    return st
