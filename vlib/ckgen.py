"""Script generators for the combined checkable fixture (ops of harness/ops_ckfull.cpp)."""
import random, itertools

T0 = 2000000000


class Gen:
    """Stateful random script builder that keeps just enough bookkeeping to aim at boundaries."""

    def __init__(self, rnd, kind=None, mx=None, vol=None, flap=None, active=None, ci=None):
        self.r = rnd
        self.kind = kind if kind is not None else rnd.choice(('host', 'svc'))
        self.mx = mx if mx is not None else rnd.choice((1, 2, 3, 4))
        self.vol = vol if vol is not None else int(rnd.random() < 0.25)
        self.flap = flap if flap is not None else int(rnd.random() < 0.3)
        self.active = active if active is not None else int(rnd.random() < 0.3)
        self.ci = ci if ci is not None else rnd.choice((5, 30, 65, 70, 71, 300))
        self.t = T0
        self.lines = ['now %d' % self.t,
                      'ckf_new kind=%s max=%d vol=%d flap=%d active=%d ci=%d' % (self.kind, self.mx, self.vol, self.flap, self.active, self.ci)]
        self.dts = {}      # id -> (fixed, start, end, dur)
        self.next_dt = 1
        self.ack_expiry = None
        self.boundaries = set()

    def adv(self, d=None):
        r = self.r
        if d is None:
            # prefer landing exactly on / next to a known boundary instant
            fut = sorted(b for b in self.boundaries if b >= self.t)
            if fut and r.random() < 0.5:
                b = r.choice(fut[:4])
                d = max(0, b - self.t + r.choice((-1, 0, 0, 1)))
            else:
                d = r.choice((0, 1, 1, 4, 5, 10, 59, 60, 61, self.ci - 10, self.ci, 300))
        self.t += max(0, d)
        self.lines.append('now %d' % self.t)

    def result(self, s=None):
        if s is None:
            s = self.r.choice((0, 0, 1, 2, 2, 2, 3))
        self.lines.append('crf state=%d' % s)

    def ack(self):
        r = self.r
        via = r.choice(('api', 'api', 'ext', 'extexp'))
        eg = int(r.random() < 0.5)
        expiry = 0
        if via == 'extexp' or eg:
            expiry = self.t + r.choice((-1, 0, 1, 1, 5, 30, 60, 120))
            if via == 'extexp' and r.random() < 0.2:
                expiry = 0
        self.boundaries.update((expiry, expiry + 1))
        self.lines.append('ack via=%s sticky=%d notify=%d pers=%d eg=%d expiry=%d' % (
            via, r.randint(0, 1), r.randint(0, 1), int(r.random() < 0.3), eg, expiry))

    def unack(self):
        self.lines.append('unack via=%s' % self.r.choice(('api', 'ext')))

    def dt_add(self, chained_ok=True):
        r = self.r
        i = self.next_dt
        self.next_dt += 1
        fixed = int(r.random() < 0.5)
        start = self.t + r.choice((-20, -1, 0, 0, 1, 5, 30))
        end = start + r.choice((0, 1, 10, 30, 60, 120))
        dur = 0 if fixed and r.random() < 0.7 else r.choice((0, 1, 10, 30, 45))
        trig = 0
        parent = 0
        if self.dts and chained_ok and r.random() < 0.35:
            trig = r.choice(sorted(self.dts))
        if self.dts and r.random() < 0.2:
            parent = r.choice(sorted(self.dts))
        owned = int(parent == 0 and r.random() < 0.15)
        self.dts[i] = (fixed, start, end, dur)
        self.boundaries.update((start - 1, start, start + 1, end - 1, end, end + 1, end + dur, start + dur))
        self.lines.append('dt_add id=%d fixed=%d start=%d end=%d dur=%d trig=%d parent=%d owned=%d' % (
            i, fixed, start, end, dur, trig, parent, owned))

    def dt_remove(self):
        r = self.r
        if not self.dts:
            return
        i = r.choice(sorted(self.dts))
        self.lines.append('dt_remove id=%d children=%d reason=%s' % (i, r.randint(0, 1), r.choice(('user', 'user', 'owner', 'expired'))))

    def dt_cleanup(self):
        if not self.dts:
            return
        self.lines.append('dt_cleanup id=%d' % self.r.choice(sorted(self.dts)))

    def simple(self, name):
        self.lines.append(name)

    def parent(self):
        up = self.r.randint(0, 1)
        self.lines.append('parent up=%d' % up)
        if up and self.active:
            # a recovering parent reschedules actively checked problem children to now + Random() % 60
            # (checkable-check.cpp:405-416); pin next_check so that implementation and model agree on it
            self.nextcheck()

    def pause(self):
        self.lines.append('pause p=%d' % self.r.randint(0, 1))

    def nextcheck(self):
        self.lines.append('nextcheck t=%d' % (self.t + self.r.choice((0, 1, 30, 59, 60, 61, 62, 300))))

    def case(self, fam):
        return {'lines': self.lines, 'tags': {'family': fam}}


def random_case(rnd, n, weights, fam, **cfg):
    g = Gen(rnd, **cfg)
    names = list(weights)
    ws = [weights[k] for k in names]
    if g.active:
        g.nextcheck()
    for _ in range(n):
        k = rnd.choices(names, ws)[0]
        if k == 'adv': g.adv()
        elif k == 'result': g.result()
        elif k == 'ack': g.ack()
        elif k == 'unack': g.unack()
        elif k == 'ackread': g.simple('ackread')
        elif k == 'cmtimer': g.simple('cmtimer')
        elif k == 'dt_add': g.dt_add()
        elif k == 'dt_remove': g.dt_remove()
        elif k == 'dt_starttimer': g.simple('dt_starttimer')
        elif k == 'dt_cleanup': g.dt_cleanup()
        elif k == 'fire': g.simple('fire')
        elif k == 'parent': g.parent()
        elif k == 'pause': g.pause()
        elif k == 'nextcheck': g.nextcheck()
    return g.case(fam)


W_ALL = {'adv': 5, 'result': 6, 'ack': 2, 'unack': 1, 'ackread': 1, 'cmtimer': 0.5, 'dt_add': 2, 'dt_remove': 1,
         'dt_starttimer': 1.5, 'dt_cleanup': 1.5, 'fire': 3, 'parent': 1.5, 'pause': 0.5, 'nextcheck': 0.5}
W_ACK = {'adv': 5, 'result': 7, 'ack': 4, 'unack': 1.5, 'ackread': 2, 'cmtimer': 1, 'fire': 0.5, 'pause': 0.3}
W_DT = {'adv': 6, 'result': 5, 'dt_add': 3, 'dt_remove': 1.5, 'dt_starttimer': 2, 'dt_cleanup': 2.5, 'ackread': 1, 'pause': 0.3}
W_SUPP = {'adv': 5, 'result': 7, 'ack': 1.5, 'unack': 0.7, 'dt_add': 1.5, 'dt_remove': 0.7, 'dt_starttimer': 1,
          'dt_cleanup': 1.5, 'fire': 4, 'parent': 2, 'pause': 0.4, 'nextcheck': 0.7}
