"""C11 - cluster routing.  Generators for the per-step correspondence run (real ApiListener::SyncRelayMessage
against the extracted rt_relay) and classification of oracle hits."""
import random, itertools, collections

PID = 'C11'
HEADER = []
T0 = 2000000000
RULE = ('multi-net-* families (op rt_netm): 2-4 DISTINCT events in one network on the real code (same topologies/link sets/targets as net-*), originators equal or different, time stamps all equal (one clock tick) / non-decreasing / increasing / decreasing (clock stepped back) / arbitrary, originations interleaved with deliveries or sequential, clock standing still or ticking, per-connection FIFO schedules; every node keeps its own remote log positions; checked per EVENT by the network oracle when the clock never ran backwards, and per delivery against the rule handler-did-not-run iff ts < position. net-chain / net-tree / net-tree-global families (op rt_net): COMPLETE multi-hop runs of one event on the real code - pure chains of depth 2-14 (every target zone, originators above/inside/below the target) and zone trees (depth <= 5, <= 4 children per zone, forests, 1-2 global zones) with a non-global target anywhere (originators on the line, below it, in side branches) or a global-zone target, 1-2 endpoints per zone, random names; link sets: all directly related pairs / a few missing / a random half, plus links between unrelated endpoints; delivery schedule fifo / lifo / seeded random; at every node the real JsonRpcConnection::MessageHandler and either the verif::Relay handler (CanAccessObject test + SyncRelayMessage) or, for host targets, the REAL event::SetNextCheck handler chain through the asynchronous relay queue; checked by the extracted network oracle (nobody twice, fewer deliveries than endpoints, complete under the premise). activation-order family: chains of depth 5-12 with side branches (and random trees), Zone::OnAllConfigLoaded re-run for all zones top-down / bottom-up / in random order, ancestor chains read back and relay steps routed over them; random zone trees (depth 1-4, 1-2 endpoints per zone, shuffled endpoint names, 0-2 global zones) x local identity x '
        'connectivity row (none/all/related/random, optional second older connection) x origin (local, received from a connected '
        'peer through the real JsonRpcConnection::MessageHandler with every claimed originZone, hand-made MessageOrigin, anonymous client) '
        'x target (Host in any zone, the Zone object itself, CheckCommand in a global zone, no security object) x log flag; plus a '
        'systematic family on the 2/2/2 chain with one global zone: every identity, every subset of directly related endpoints, '
        'every connected sender, every claimed origin zone, every target. non-trivial = at least one step that sends or persists; '
        'distinct = distinct script text')
TRUSTED = ['model: coq/Route/RtModel.v, RtLoad.v (transcription of ApiListener::SyncRelayMessage, RelayMessageOne, GetMaster, Zone::OnAllConfigLoaded, '
           'JsonRpcConnection::MessageHandler origin construction, Zone::CanAccessObject/IsChildOf)',
           'harness fixture harness/ops_rt.cpp: ApiListener constructed without PKI/sockets, m_Instance/identity/m_LocalEndpoint set per step, '
           'JsonRpcConnection objects over unconnected streams inserted into Endpoint::m_Clients, posted sends run by polling a harness-owned io_context',
           'the network theorems quantify over a model-level network (in-flight multiset, arbitrary delivery order, re-relay by the receiving endpoint); '
           'its steps (origin construction + relay) are tied to the code by the per-step correspondence, and whole runs by op rt_net: ONE process plays all '
           'nodes in turn (identity, local endpoint and connection set switched per delivery; sound because SyncRelayMessage keeps no per-event state), '
           'the harness holds the in-flight messages (the JSON the real code queued) and picks the schedule',
           'hook H1 (virtual clock) in lib/base/utility.cpp']
ASSUMPTIONS = ['endpoint names sort like their numbers (harness names them e%03d)',
               'connectivity is symmetric in the network theorems (a TCP connection has two ends)',
               'zones have at most two endpoints (the property\'s bound; Zone::ValidateEndpointsRaw warns beyond that) - with three, the persist decision for the local zone depends on iteration order',
               'a connection delivers in order (per-connection FIFO) and a node\'s clock does not run backwards: then the ts < remote_log_position filter of MessageHandler drops nothing (C11_net_multi_event_complete); with a clock stepped back it does drop (compared against the rule only)',
               'zone chain depth <= 32 (Zone::OnAllConfigLoaded rejects deeper ones), global zones have no parent/children/endpoints']


def canon(lines):
    # which endpoint of a foreign zone the pointer-ordered std::set yields first is an input taken from the run:
    # the detail line is checked by the oracle for admissibility, not compared with the model's own choice
    return [l for l in lines if not l.startswith('rtd ') and not l.startswith('rtnd ') and not l.startswith('rtmd ') and not l.startswith('rtme ')]


class Topo:
    def __init__(self, zones):
        self.zones = zones   # list of (parent or None, is_global, [endpoint ids])
        self.zone_of = {}
        for i, (p, g, eps) in enumerate(zones):
            for e in eps:
                self.zone_of[e] = i
        self.eps = sorted(self.zone_of)

    def line(self):
        parts = []
        for i, (p, g, eps) in enumerate(self.zones):
            parts.append('z%d=%s,%s,%s' % (i, '-' if p is None else p, 'g' if g else 'n', '.'.join(map(str, eps)) or '-'))
        return 'rt_topo ' + ' '.join(parts)

    def related_zones(self, z):
        r = [z]
        p = self.zones[z][0]
        if p is not None:
            r.append(p)
        r += [i for i, zz in enumerate(self.zones) if zz[0] == z]
        return r

    def related_eps(self, me):
        zs = self.related_zones(self.zone_of[me])
        return [e for e in self.eps if e != me and self.zone_of[e] in zs]


def rand_topo(rnd, maxdepth=4):
    nz = rnd.choice((1, 2, 2, 3, 3, 3, 4, 4, 5, 6, 7))
    zones = []
    depth = []
    for i in range(nz):
        if i == 0:
            p = None; d = 1
        else:
            cands = [j for j in range(i) if depth[j] < maxdepth]
            p = rnd.choice(cands); d = depth[p] + 1
            if rnd.random() < 0.1:
                p = None; d = 1      # a second root (forest)
        zones.append([p, False, None]); depth.append(d)
    ng = rnd.choice((0, 1, 1, 2))
    for _ in range(ng):
        zones.append([None, True, []])
    ids = rnd.sample(range(1, 60), 2 * nz)
    k = 0
    for z in zones:
        if z[1]:
            continue
        n = rnd.choice((1, 2, 2))
        z[2] = ids[k:k + n]; k += n
        if rnd.random() < 0.5:
            z[2] = list(reversed(z[2]))
    return Topo([tuple(z) for z in zones])


def step_line(me, conn, via='local', frm=None, oz=None, tz=None, sec='host', log=1, old=()):
    s = 'rt_step me=%d conn=%s' % (me, '.'.join(map(str, conn)) or '-')
    if old:
        s += ' old=' + '.'.join(map(str, old))
    s += ' via=' + via
    if frm is not None:
        s += ' from=%d' % frm
    s += ' oz=%s tz=%s sec=%s log=%d' % ('-' if oz is None else oz, '-' if tz is None else tz, sec, log)
    return s


def rand_step(rnd, t):
    me = rnd.choice(t.eps)
    others = [e for e in t.eps if e != me]
    rel = t.related_eps(me)
    mode = rnd.random()
    if mode < 0.15:
        conn = list(others)
    elif mode < 0.25:
        conn = []
    elif mode < 0.65:
        conn = [e for e in rel if rnd.random() < 0.7]
    else:
        conn = [e for e in others if rnd.random() < 0.5]
    old = [e for e in conn if rnd.random() < 0.15]
    nz = len(t.zones)
    lz = t.zone_of[me]
    # target: biased to the neighbourhood of the local zone
    r = rnd.random()
    if r < 0.08:
        tz = None
    elif r < 0.55:
        cands = t.related_zones(lz)
        for c in list(cands):
            cands += [i for i, zz in enumerate(t.zones) if zz[0] == c]
        tz = rnd.choice(cands)
    else:
        tz = rnd.randrange(nz)
    sec = 'zone' if rnd.random() < 0.2 else 'host'
    log = 0 if rnd.random() < 0.1 else 1
    v = rnd.random()
    if v < 0.25 or (not conn and v < 0.8):
        return step_line(me, conn, 'local', tz=tz, sec=sec, log=log, old=old)
    if v < 0.33:
        return step_line(me, conn, 'anon', oz=rnd.choice([None] + list(range(nz))), tz=tz, sec=sec, log=log, old=old)
    frm = rnd.choice(conn) if conn and rnd.random() < 0.9 else rnd.choice(others or [me])
    if frm == me:
        return step_line(me, conn, 'local', tz=tz, sec=sec, log=log, old=old)
    oz = rnd.choice([None, None] + list(range(nz)))
    if v < 0.8:
        return step_line(me, conn, 'recv', frm=frm, oz=oz, tz=tz, sec=sec, log=log, old=old)
    return step_line(me, conn, 'direct', frm=frm, oz=oz, tz=tz, sec=sec, log=log, old=old)


def chain_family(names, per_case=60):
    """systematic: chain z0 <- z1 <- z2 with endpoints `names` (2 each) and a global zone z3"""
    t = Topo([(None, False, names[0:2]), (0, False, names[2:4]), (1, False, names[4:6]), (None, True, [])])
    steps = []
    for me in t.eps:
        rel = t.related_eps(me)
        for k in range(len(rel) + 1):
            for conn in itertools.combinations(rel, k):
                conn = list(conn)
                for tz in (0, 1, 2, 3):
                    steps.append(step_line(me, conn, 'local', tz=tz))
                    for frm in conn:
                        same = t.zone_of[frm] == t.zone_of[me]
                        for oz in ((None, 0, 1, 2) if same else (None,)):
                            steps.append(step_line(me, conn, 'recv', frm=frm, oz=oz, tz=tz))
    cases = []
    for i in range(0, len(steps), per_case):
        cases.append({'lines': ['now %d' % (T0 + i), t.line()] + steps[i:i + per_case], 'tags': {'family': 'systematic-chain-222'}})
    return cases


def reload_line(rnd, t):
    """an activation order for Zone::OnAllConfigLoaded: top-down, bottom-up or random"""
    n = len(t.zones)
    depth = {}
    for i, (p, g, eps) in enumerate(t.zones):
        depth[i] = 1 if p is None else depth[p] + 1
    r = rnd.random()
    if r < 0.3:
        order = sorted(range(n), key=lambda z: (depth[z], z))
    elif r < 0.65:
        order = sorted(range(n), key=lambda z: (-depth[z], -z))
    else:
        order = list(range(n)); rnd.shuffle(order)
    return 'rt_reload order=' + '.'.join(map(str, order))


def deep_topo(rnd):
    """a long chain (depth 5-12) with side branches: the ancestor chain construction is what matters here"""
    d = rnd.randint(5, 12)
    zones = [[None, False, None]]
    for i in range(1, d):
        zones.append([i - 1, False, None])
    for _ in range(rnd.randint(0, 3)):
        zones.append([rnd.randrange(0, len(zones)), False, None])
    # renumber randomly but parents-first (the model numbers zones so that parents come first)
    ids = rnd.sample(range(1, 90), 2 * len(zones))
    k = 0
    for z in zones:
        n = rnd.choice((1, 2))
        z[2] = ids[k:k + n]; k += n
    if rnd.random() < 0.5:
        zones.append([None, True, []])
    return Topo([tuple(z) for z in zones])


def related_pairs(t):
    """directly related endpoint pairs: same zone, or parent/child zones"""
    ps = []
    for i, (p, g, eps) in enumerate(t.zones):
        if len(eps) == 2:
            ps.append((eps[0], eps[1]))
        if p is not None:
            ps += [(a, b) for a in eps for b in t.zones[p][2]]
    return ps


def net_links(rnd, t):
    """link sets for a network run: all related pairs (the premise holds), related pairs with some missing,
    a random half, optionally a few links between unrelated endpoints (irrelevant for routing)"""
    rel = related_pairs(t)
    r = rnd.random()
    if r < 0.4:
        links = list(rel); kind = 'full'
    elif r < 0.75:
        links = [l for l in rel if rnd.random() < 0.85]; kind = 'few-missing'
    else:
        links = [l for l in rel if rnd.random() < 0.5]; kind = 'half'
    if rnd.random() < 0.3 and len(t.eps) > 3:
        for _ in range(rnd.randint(1, 3)):
            a, b = rnd.sample(t.eps, 2)
            links.append((a, b))
    rnd.shuffle(links)
    links = [(b, a) if rnd.random() < 0.5 else (a, b) for a, b in links]
    return links, kind


MULTI = [False]   # set while a multi-event case is generated: the same topologies / link sets / targets, op rt_netm


def multi_ts(rnd, k):
    """time stamps (clock offsets at origination) of k distinct events: all equal (one clock tick), non-decreasing with
    repeats, strictly increasing, decreasing (clock stepped back), arbitrary"""
    kind = rnd.choice(('eq', 'eq', 'eq', 'nondecr', 'inc', 'dec', 'mix'))
    if kind == 'eq':
        ts = [rnd.choice((0, 0, 3))] * k
    elif kind == 'nondecr':
        ts = sorted(rnd.choice((0, 0, 1, 2)) for _ in range(k))
    elif kind == 'inc':
        ts = sorted(rnd.sample(range(0, 9), k))
    elif kind == 'dec':
        ts = sorted(rnd.sample(range(0, 9), k), reverse=True)
    else:
        ts = [rnd.randrange(0, 4) for _ in range(k)]
    return kind, ts


def net_line(rnd, s, tz, links, mode, eps=None):
    if MULTI[0]:
        k = rnd.choice((2, 2, 3, 4))
        ss = [s] + [s if (rnd.random() < 0.7 or not eps) else rnd.choice(eps) for _ in range(k - 1)]
        kind, ts = multi_ts(rnd, k)
        ilv = rnd.choice((0, 1, 1))
        return 'rt_netm s=%s ts=%s tz=%d links=%s sched=%s seed=%d mode=%s ilv=%d tick=%d' % (
            '.'.join(map(str, ss)), '.'.join(map(str, ts)), tz, '.'.join('%d-%d' % l for l in links) or '-',
            rnd.choice(('fifo', 'lifo', 'rnd', 'rnd')), rnd.randrange(1, 10**6), mode, ilv, rnd.choice((0, 0, 1)) if ilv else 0)
    return 'rt_net s=%d tz=%d links=%s sched=%s seed=%d mode=%s' % (
        s, tz, '.'.join('%d-%d' % l for l in links) or '-', rnd.choice(('fifo', 'lifo', 'rnd', 'rnd')), rnd.randrange(1, 10**6), mode)


def net_chain_case(rnd):
    """a pure chain of depth 2-14 (the class of C11_finite_once_unbounded / C11_complete_unbounded): complete multi-hop
    runs on the real code, every target zone, originators above, inside and below the target"""
    d = rnd.choice((2, 3, 4, 5, 6, 8, 10, 12, 14))
    ids = rnd.sample(range(1, 120), 2 * d)
    zones = []
    for i in range(d):
        n = rnd.choice((1, 2, 2))
        zones.append((None if i == 0 else i - 1, False, ids[2 * i:2 * i + n]))
    t = Topo(zones)
    lines = ['now %d' % (T0 + rnd.randrange(0, 100000)), t.line()]
    kinds = []
    for _ in range(rnd.randint(2, 4)):
        links, kind = net_links(rnd, t)
        kinds.append(kind)
        tz = rnd.randrange(d) if rnd.random() < 0.6 else d - 1
        lines.append(net_line(rnd, rnd.choice(t.eps), tz, links, rnd.choice(('relay', 'nextcheck', 'nextcheck')), t.eps))
    return {'lines': lines, 'tags': {'family': 'net-chain', 'links': kinds[0]}}


def net_tree_case(rnd):
    """a zone tree (depth <= 5, up to 4 children per zone, parents numbered first) plus 1-2 isolated global zones; the event is
    about an object of a global zone (the class of C11_global_*_unbounded)"""
    nz = rnd.randint(2, 12)
    zones = [[None, False, None]]
    depth = [1]
    nch = [0]
    for i in range(1, nz):
        cands = [j for j in range(i) if depth[j] < 5 and nch[j] < 4]
        p = rnd.choice(cands)
        if rnd.random() < 0.08:
            zones.append([None, False, None]); depth.append(1); nch.append(0)     # a second root
            continue
        nch[p] += 1
        zones.append([p, False, None]); depth.append(depth[p] + 1); nch.append(0)
    ids = rnd.sample(range(1, 120), 2 * nz)
    for i, z in enumerate(zones):
        n = rnd.choice((1, 2, 2))
        z[2] = ids[2 * i:2 * i + n]
    ng = rnd.choice((1, 1, 2))
    for _ in range(ng):
        zones.append([None, True, []])
    t = Topo([tuple(z) for z in zones])
    lines = ['now %d' % (T0 + rnd.randrange(0, 100000)), t.line()]
    kinds = []
    fam = 'net-tree-global'
    nonglobal = rnd.random() < 0.5
    if nonglobal:
        fam = 'net-tree'
    for _ in range(rnd.randint(2, 4)):
        links, kind = net_links(rnd, t)
        kinds.append(kind)
        if nonglobal:
            # a non-global target anywhere in the tree (deep leaves preferred); originators on the target's line, below it
            # and in side branches; 2/3 of the runs through the real SetNextCheck handler chain
            tz = max(rnd.randrange(nz), rnd.randrange(nz))
            line = [tz]
            while t.zones[line[-1]][0] is not None:
                line.append(t.zones[line[-1]][0])
            s = rnd.choice(t.zones[rnd.choice(line)][2]) if rnd.random() < 0.7 else rnd.choice(t.eps)
            lines.append(net_line(rnd, s, tz, links, rnd.choice(('relay', 'nextcheck', 'nextcheck')), t.eps))
        else:
            s = rnd.choice(t.zones[0][2]) if rnd.random() < 0.5 else rnd.choice(t.eps)
            lines.append(net_line(rnd, s, nz + rnd.randrange(ng), links, 'relay', t.eps))
    return {'lines': lines, 'tags': {'family': fam, 'links': kinds[0]}}


def generate(seed, tier):
    rnd = random.Random(seed)
    cases = []
    nload = {'quick': 400, 'thorough': 4000, 'search': 1000}.get(tier, 400)
    for i in range(nload):
        t = deep_topo(rnd) if rnd.random() < 0.6 else rand_topo(rnd)
        lines = ['now %d' % (T0 + rnd.randrange(0, 100000)), t.line()]
        for _ in range(rnd.randint(1, 3)):
            lines.append(reload_line(rnd, t))
            for _ in range(rnd.randint(1, 4)):
                lines.append(step_line_safe(rnd, t))
        cases.append({'lines': lines, 'tags': {'family': 'activation-order'}})
    nrand = {'quick': 2500, 'thorough': 25000, 'search': 6000}.get(tier, 2500)
    for i in range(nrand):
        t = rand_topo(rnd)
        lines = ['now %d' % (T0 + rnd.randrange(0, 100000)), t.line()]
        for _ in range(rnd.randint(4, 12)):
            lines.append(step_line_safe(rnd, t))
        cases.append({'lines': lines, 'tags': {'family': 'random-tree'}})
    nnet = {'quick': 300, 'thorough': 3000, 'search': 800}.get(tier, 300)
    for i in range(nnet):
        cases.append(net_chain_case(rnd) if rnd.random() < 0.4 else net_tree_case(rnd))
    nmulti = {'quick': 150, 'thorough': 1500, 'search': 600}.get(tier, 150)
    MULTI[0] = True
    try:
        for i in range(nmulti):
            cs = net_chain_case(rnd) if rnd.random() < 0.4 else net_tree_case(rnd)
            cs['tags']['family'] = 'multi-' + cs['tags']['family']
            cases.append(cs)
    finally:
        MULTI[0] = False
    perm = rnd.sample(range(1, 40), 6)
    fam = chain_family(perm)
    if tier == 'quick':
        fam = rnd.sample(fam, min(len(fam), 120))
    cases += fam
    if tier != 'quick':
        cases += chain_family([1, 2, 3, 4, 5, 6])
        cases += chain_family([6, 5, 4, 3, 2, 1])
    return cases


def step_line_safe(rnd, t):
    return rand_step(rnd, t)


def _steps(impl_lines):
    return [l for l in impl_lines if l.startswith('rt ')]


def _count(cases, op):
    return sum(1 for cs in cases for l in cs['lines'] if l.startswith(op))


def _nets(impl_lines):
    return [l for l in impl_lines if l.startswith('rtnd ')]


def nontrivial(case, impl_lines):
    return any(('sent=-' not in l) or ('persist=1' in l) for l in _steps(impl_lines)) or \
        any('deliv=0 ' not in l for l in _nets(impl_lines)) or \
        any(l.startswith('rtme ') and 'deliv=0 ' not in l for l in impl_lines)


def classify(case, detail, impl_lines):
    d = detail or ''
    if 'crash' in d or 'missing-observation' in d or 'malformed' in d:
        return 'crash'
    for k in ('multi-event-stale-rule', 'multi-event-incomplete', 'multi-event-processed-twice', 'multi-event-too-many-deliveries',
              'net-processed-twice', 'net-too-many-deliveries', 'net-incomplete', 'net-not-quiescent', 'net-run-aborted',
              'ancestor-chain', 'send-to-ineligible', 'foreign-zone-entered-twice', 'persist-decision', 'withheld', 'log-position',
              'origin-zone-construction', 'originZone-stamp', 'duplicate-message', 'stale-connection', 'generator-precondition'):
        if k in d:
            return k
    return 'routing'


def keep_line(l):
    return l.startswith('rt_topo') or l.startswith('now ')


def _net_premise(zones, line):
    """statistics only: does the statement's connectivity premise hold for this rt_net line, and is the originator entitled?"""
    toks = dict(t.split('=', 1) for t in line.split()[1:])
    s0, tz = int(toks['s']), int(toks['tz'])
    links = set()
    if toks.get('links', '-') != '-':
        for p in toks['links'].split('.'):
            a, b = p.split('-'); links.add((int(a), int(b))); links.add((int(b), int(a)))
    zone_of = {e: i for i, (p, g, eps) in enumerate(zones) for e in eps}
    def anc(z):
        r = []
        while zones[z][0] is not None:
            z = zones[z][0]; r.append(z)
        return r
    sz = zone_of[s0]
    if zones[tz][1]:
        ent = [z for z in range(len(zones)) if not zones[z][1] and (z == sz or sz in anc(z))]
    else:
        ent = [tz] + anc(tz)
    if sz not in ent:
        return 'originator-not-entitled'
    for z in ent:
        eps = zones[z][2]
        if len(eps) == 2 and (eps[0], eps[1]) not in links:
            return 'premise-fails'
        for z2 in ent:
            if zones[z][0] == z2 or zones[z2][0] == z:
                if eps and not any((min(eps), e) in links for e in zones[z2][2]):
                    return 'premise-fails'
    return 'premise-holds'


def extra_stats(cases, impl):
    c = collections.Counter()
    for cs in cases:
        for l in cs['lines']:
            if l.startswith('rt_step'):
                for tok in l.split():
                    if tok.startswith('via='):
                        c['via_' + tok[4:]] += 1
        for l in _steps(impl.get(cs['id'], [])):
            c['steps'] += 1
            if 'sent=-' not in l: c['steps_with_sends'] += 1
            if 'persist=1' in l: c['steps_persisted'] += 1
            if 'skip=-' not in l: c['steps_with_skipped_endpoints'] += 1
            if '*1' in l.split('sent=')[1].split()[0]: c['steps_entering_foreign_zone'] += 1
            if ' fz=z' in l: c['steps_with_origin_zone'] += 1
        for l in _nets(impl.get(cs['id'], [])):
            c['net_runs'] += 1
            toks = dict(t.split('=', 1) for t in l.split()[1:])
            c['net_deliveries'] += int(toks.get('deliv', '0'))
            c['net_endpoints_processed'] += len([x for x in toks.get('proc', '-').split('.') if x != '-'])
            c['net_runs_' + cs['tags'].get('family', '?')] += 1
        zs = None
        for l in cs['lines']:
            if l.startswith('rt_topo'):
                zs = []
                for tok in l.split()[1:]:
                    pp, gg, ee = tok.split('=', 1)[1].split(',')
                    zs.append((None if pp == '-' else int(pp), gg == 'g', [] if ee == '-' else [int(x) for x in ee.split('.')]))
            if l.startswith('rt_net'):
                if 'mode=nextcheck' in l:
                    c['net_runs_through_real_SetNextCheck_handler'] += 1
                try:
                    c['net_runs_' + _net_premise(zs, l)] += 1
                except Exception:
                    c['net_runs_premise_unknown'] += 1
    c['reloads'] = _count(cases, 'rt_reload')
    return dict(c)
