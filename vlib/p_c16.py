"""C16 - apply rules create exactly the matching objects, with or without the name fast path.

Every case is a small inventory (<= 4 hosts x <= 3 services, colliding names), a few apply rules
and/or API filter queries.  The harness loads the real config twice - as written and with every
`assign where F` rewritten to `(F) && true` (which ApplyRule::AddTargetedRule does not recognise) -
and prints the objects existing afterwards; the model prints ar_apply_fast / ar_apply."""
import os, random, re

PID = 'C16'
# the extended search the runner does after a proof/correspondence failure without an oracle hit: capped
os.environ.setdefault('VERIF_SEARCH_S', '60')
HEADER = []
RULE = ('random inventories (<=4 hosts x <=3 services; names H,h,HS,S,"H S",P,...; vars, groups, display_name) x 1-3 apply rules '
        '(Service/Notification/Dependency/ScheduledDowntime, to Host/Service, for over arrays/dicts, use, ignore where, 2nd assign) whose '
        'filters are drawn from the recognised grammar host.name=="H" [&& service.name=="S"] [|| ...] and every shape at edit distance 1 '
        '(operands swapped, !=, host["name"], literal -> global constant/number/null/bool, wrong variable, wrong attribute, || false, || true, '
        '&& true, !!, in [..], match(), two host names under &&, host-only under to Service, mixed with vars/groups predicates); each load is '
        'done as written and wrapped as (F) && true; API: GetFilterTargets with the same filters, plain and wrapped, with filter_vars; '
        'family frames: 2-4 rules on the same targets whose loop / use() variables are named like globals, like each other\'s variables '
        'and like own attributes of the new object (host_name, name, service_name), read by the other rules\' for term, filter, ignore and '
        'body (vars.b<i> = X, this.X, vars.b<j>), for over arrays and dictionaries (host vars, globals, literals), rules that throw; each such '
        'configuration is loaded as written + wrapped and then again in EVERY file order of the rules (<= 24), alternating 1/4 commit worker '
        'threads and the file order of the inventory, each load compared with the load in script order (names and attributes). '
        'non-trivial = at least one rule was put into the targeted index by the real AddRule, or an API query the real recogniser accepts, or '
        '(frames) two rules created objects on one target and every order was loaded; distinct = distinct script text')
TRUSTED = ['model: coq/Apply/ArModel.v (transcription of applyrule-targeted.cpp, applyrule.cpp AddRule, *-apply.cpp EvaluateApplyRule(s), '
           'config_parser.yy assign/ignore combination, expression.cpp Variable/Indexer/Equal/NotEqual/LogicalAnd/Or/Negate/In, '
           'value-operators.cpp operator==, Value::ToBool, filterutility.cpp GetFilterTargets fast path)',
           'harness resets the object registry between loads by Unregister + clearing ConfigItem::m_Items/m_UnnamedItems and ApplyRule::m_Rules; '
           'objects are committed (registered), not activated',
           'the index a rule got is read from ApplyRule::m_Rules (private, -fno-access-control) only to report the fast-path share; verdicts use the created objects',
           'model of the frame: coq/Apply/ArFrame.v (frame.Locals as a mutable dictionary through EvaluateApplyRule/EvaluateApplyRules; one frame per '
           'EvaluateApplyRule call) - its agreement with the code is what the frames family compares; the rule body sees locals, then the modelled own '
           'fields of the new object (host_name, name, service_name, parent/child names, vars.b<i>), then globals; other attributes are not modelled and not generated',
           'ar_order compares each permuted load with the script-order load textually in the harness (sorted canonical object lines) and prints the differing set; '
           'the Gallina order oracle then compares the two parsed sets']
ASSUMPTIONS = ['function calls in filters are opaque in the model; the generators use match() only, whose glob semantics is supplied by the glue',
               'Dictionary/object == compares pointers in the code and is modelled as "different"; generators do not compare dictionaries',
               'parallel evaluation (WorkQueue with 1, 2 and 4 threads) is exercised, not modelled',
               'expressions of the model are pure (no assignment inside filters, no mutation of closure values or of the target from a rule body): '
               'a use() dictionary mutated by a rule body is shared by reference between all instances in the code and outside the model']


def hx(s):
    return s.encode().hex() if s else '-'


def S(s):
    return 's(%s)' % hx(s)


HOSTN = 'dot(var(host),name)'
SVCN = 'dot(var(service),name)'


def lit_variants(rnd, name, consts):
    """the constant side of a comparison and its neighbours"""
    r = rnd.random()
    if r < 0.10:
        return S(name)
    if r < 0.40:
        c = [k for k, v in consts.items() if v == S(name)]
        return 'var(%s)' % (rnd.choice(c) if c else 'ArCH')
    if r < 0.50:
        return 'n(5)'
    if r < 0.58:
        return 'null'
    if r < 0.66:
        return rnd.choice(('t', 'f'))
    if r < 0.80:
        return S(name.swapcase())
    if r < 0.90:
        return HOSTN
    return S(name + ' ')


def name_side(rnd, var):
    r = rnd.random()
    if r < 0.15:
        return 'dot(var(%s),name)' % var
    if r < 0.40:
        return 'ix(var(%s),s(%s))' % (var, hx('name'))
    if r < 0.50:
        return 'ix(var(%s),var(ArCName))' % var
    if r < 0.70:
        return 'dot(var(%s),display_name)' % var
    if r < 0.78:
        return 'dot(dot(var(%s),vars),name)' % var
    if r < 0.93:
        return 'dot(var(%s),name)' % ('service' if var == 'host' else 'host')
    return 'dot(var(obj),name)' if rnd.random() < 0.3 else 'dot(var(%s),name)' % var


def cmp_atom(rnd, var, name, consts, exact=False):
    """exact: <var>.name == "<name>" (operands possibly swapped, still recognised);
    otherwise exactly ONE edit: the name side, the constant side, or the operator"""
    a = 'dot(var(%s),name)' % var
    b = S(name)
    op = 'eq'
    if not exact:
        r = rnd.random()
        if r < 0.4:
            a = name_side(rnd, var)
        elif r < 0.8:
            b = lit_variants(rnd, name, consts)
        else:
            op = 'ne'
    if rnd.random() < 0.35:
        a, b = b, a
    return '%s(%s,%s)' % (op, a, b)


def other_pred(rnd, svc):
    c = [
        'eq(dot(dot(var(host),vars),os),s(%s))' % hx(rnd.choice(('linux', 'win'))),
        'in(s(%s),dot(var(host),groups))' % hx(rnd.choice(('g1', 'g2'))),
        'dot(dot(var(host),vars),n)',
        'in(dot(var(host),name),arr(%s))' % ','.join(S(n) for n in rnd.sample(['H', 'h', 'HS', 'P'], 2)),
        'call(match,s(%s),dot(var(host),name))' % hx(rnd.choice(('H*', '?', '*S', 'h'))),
        'ne(dot(dot(var(host),vars),e),null)',
        't', 'f',
    ]
    if svc:
        c += ['eq(dot(dot(var(service),vars),x),n(1))', 'call(match,s(%s),dot(var(service),name))' % hx(rnd.choice(('S*', 's', 'r?')))]
    return rnd.choice(c)


def gen_filter(rnd, svc, hnames, snames, consts):
    """a filter near the recognised grammar; returns expr text"""
    exact = rnd.random() < 0.45

    def disj():
        h = rnd.choice(hnames)
        if not svc:
            if not exact and rnd.random() < 0.12:
                # && of two host names where the grammar wants ||
                return 'and(%s,%s)' % (cmp_atom(rnd, 'host', h, consts, True), cmp_atom(rnd, 'host', rnd.choice(hnames), consts, True))
            return cmp_atom(rnd, 'host', h, consts, exact or rnd.random() < 0.5)
        s = rnd.choice(snames)
        a = cmp_atom(rnd, 'host', h, consts, exact or rnd.random() < 0.6)
        b = cmp_atom(rnd, 'service', s, consts, exact or rnd.random() < 0.6)
        if not exact:
            r = rnd.random()
            if r < 0.08:
                b = cmp_atom(rnd, 'host', rnd.choice(hnames), consts, True)      # && of two host names
            elif r < 0.14:
                return a                                                   # host part only
            elif r < 0.18:
                return b                                                   # service part only
            elif r < 0.22:
                b = other_pred(rnd, svc)
        if rnd.random() < 0.4:
            a, b = b, a
        return 'and(%s,%s)' % (a, b)

    n = rnd.choice((1, 1, 1, 2, 2, 3))
    f = disj()
    for _ in range(n - 1):
        g = disj()
        f = 'or(%s,%s)' % ((f, g) if rnd.random() < 0.7 else (g, f))
    if not exact:
        r = rnd.random()
        if r < 0.07:
            f = 'or(%s,f)' % f
        elif r < 0.12:
            f = 'or(f,%s)' % f
        elif r < 0.16:
            f = 'and(%s,t)' % f
        elif r < 0.20:
            f = 'not(not(%s))' % f
        elif r < 0.26:
            f = 'or(%s,%s)' % (f, other_pred(rnd, svc))
        elif r < 0.31:
            f = 'and(%s,%s)' % (f, other_pred(rnd, svc))
        elif r < 0.36:
            f = other_pred(rnd, svc)
        elif r < 0.39:
            f = 'or(%s,t)' % f
    return f


HPOOL = ['H', 'h', 'HS', 'S', 'H S', 'G', 'P', 'H.x', 'name']
SPOOL = ['S', 's', 'H', 'T', 'r0', 'S S']


def gen_inventory(rnd, lines):
    nh = rnd.choice((1, 2, 2, 3, 3, 4))
    hn = rnd.sample(HPOOL[:7] if rnd.random() < 0.85 else HPOOL, nh)
    svcs = []
    for h in hn:
        v = []
        if rnd.random() < 0.5:
            v.append('%s=%s' % (hx('os'), S(rnd.choice(('linux', 'win')))))
        if rnd.random() < 0.4:
            v.append('%s=n(%d)' % (hx('n'), rnd.choice((0, 1, 5))))
        if rnd.random() < 0.3:
            v.append('%s=%s' % (hx('e'), rnd.choice((S(''), 'null', S('x')))))
        if rnd.random() < 0.5:
            v.append('%s=arr(%s)' % (hx('l'), ','.join(rnd.choice((S('a'), S('b'), 'n(7)', S(''), S('a'))) for _ in range(rnd.choice((0, 1, 2, 2))))))
        if rnd.random() < 0.5:
            v.append('%s=dict(%s)' % (hx('m'), ','.join('%s=%s' % (hx(k), rnd.choice((S('v'), 'n(1)', 'dict(%s=n(1))' % hx('x'), 'null')))
                                                       for k in sorted(rnd.sample(['a', 'b', 'c'], rnd.choice((0, 1, 2)))))))
        # vars keys must be sorted bytewise (std::map order) for byte-identical printing
        v.sort(key=lambda kv: bytes.fromhex(kv.split('=')[0]))
        l = 'ar_host n=%s' % hx(h)
        if v:
            l += ' vars=dict(%s)' % ','.join(v)
        g = rnd.choice(([], [], ['g1'], ['g1', 'g2'], ['g2']))
        if g:
            l += ' groups=arr(%s)' % ','.join(S(x) for x in g)
        if rnd.random() < 0.2:
            l += ' dn=%s' % hx(rnd.choice(HPOOL[:4]))
        lines.append(l)
    for h in hn:
        for s in rnd.sample(SPOOL[:5] if rnd.random() < 0.9 else SPOOL, rnd.choice((0, 1, 1, 2, 3))):
            l = 'ar_svc h=%s n=%s' % (hx(h), hx(s))
            if rnd.random() < 0.3:
                l += ' vars=dict(%s=n(%d))' % (hx('x'), rnd.choice((0, 1)))
            lines.append(l)
            svcs.append((h, s))
    return hn, svcs


CONSTS = {'ArCH': S('H'), 'ArCh': S('h'), 'ArCS': S('S'), 'ArCN': 'n(5)', 'ArCName': S('name'), 'ArCE': S('')}


def gen_rules_case(rnd, fam='rules'):
    lines = []
    for k in sorted(CONSTS):
        if rnd.random() < 0.8 or k in ('ArCH', 'ArCName'):
            lines.append('ar_glob n=%s v=%s' % (k, CONSTS[k]))
    hn, svcs = gen_inventory(rnd, lines)
    snames = sorted({s for _, s in svcs}) or ['S']
    nr = rnd.choice((1, 1, 2, 2, 3))
    has_svc_rule = False
    for i in range(nr):
        kind = rnd.choice((0, 1, 1, 2, 3))
        to = 'host' if kind == 0 else rnd.choice(('host', 'svc', 'svc'))
        svc = to == 'svc'
        sn = snames + (['r0'] if has_svc_rule else [])
        l = 'ar_rule kind=%d to=%s name=r%d' % (kind, to, i)
        l += ' a=' + gen_filter(rnd, svc, hn + ['zz'] * (rnd.random() < 0.2), sn, CONSTS)
        if rnd.random() < 0.15:
            l += ' a2=' + gen_filter(rnd, svc, hn, sn, CONSTS)
        if rnd.random() < 0.25:
            l += ' i=' + (gen_filter(rnd, svc, hn, sn, CONSTS) if rnd.random() < 0.5 else other_pred(rnd, svc))
        body = []
        if rnd.random() < 0.6:
            body.append(HOSTN)
        if svc and rnd.random() < 0.5:
            body.append(SVCN)
        r = rnd.random()
        if r < 0.35:
            fk = 'k'
            sh = rnd.random()
            if sh < 0.05:
                fk = 'host'
            elif sh < 0.08:
                fk = 'service'
            t = rnd.random()
            if t < 0.45:
                l += ' fk=%s ft=dot(dot(var(host),vars),l)' % fk
            elif t < 0.85:
                l += ' fk=%s fv=v ft=dot(dot(var(host),vars),m)' % fk
                if rnd.random() < 0.5:
                    body.append('var(v)')
            elif t < 0.90:
                l += ' fk=%s ft=dot(dot(var(host),vars),m)' % fk          # array iterator over a dictionary: throws
            elif t < 0.95:
                l += ' fk=%s fv=v ft=dot(dot(var(host),vars),l)' % fk     # dictionary iterator over an array: throws
            elif t < 0.98:
                l += ' fk=%s ft=arr(%s,%s)' % (fk, S('x'), S(rnd.choice(('y', 'x', 'a!b'))))
            else:
                l += ' fk=%s ft=dot(var(nosuch),x)' % fk                  # fterm throws: silently no instances
            if fk == 'k' and rnd.random() < 0.7:
                body.append('var(k)')
        if rnd.random() < 0.3:
            un = 'u' if rnd.random() < 0.85 else 'host'
            uval = rnd.choice(['uu'] + hn + hn)
            if rnd.random() < 0.5:
                # the closure variable as the constant side of a name comparison (a recogniser that took closure
                # variables for constants would index this; the loop variable or the target may hide the variable)
                g = ('eq(%s,var(%s))' % (HOSTN, un)) if rnd.random() < 0.7 else ('eq(var(%s),%s)' % (un, HOSTN))
                if svc:
                    if rnd.random() < 0.5:
                        g = 'and(%s,eq(%s,%s))' % (g, SVCN, S(rnd.choice(sn)))
                    else:
                        uval = rnd.choice(sn)
                        g = 'and(eq(%s,%s),eq(%s,var(%s)))' % (HOSTN, S(rnd.choice(hn)), SVCN, un)
                if rnd.random() < 0.3:
                    g = 'or(%s,%s)' % (g, gen_filter(rnd, svc, hn, sn, CONSTS))
                l = re.sub(r' a=\S+', ' a=' + g, l, count=1)
                if ' fk=k ' in l and rnd.random() < 0.3:
                    l = l.replace(' fk=k ', ' fk=%s ' % un)      # for (u in ...) use (u): the loop variable hides the closure variable
                    body = [b for b in body if b != 'var(k)']
            l += ' use=%s:%s' % (un, S(uval))
            if un == 'u':
                body.append('var(u)')
        if ' ft=' in l and rnd.random() < 0.25:
            # for-only rule: no assign where (the parser supplies `true`), optionally ignore where
            l = re.sub(r' a2?=\S+', '', l)
            if ' i=' not in l and rnd.random() < 0.8:
                ig = cmp_atom(rnd, 'host', rnd.choice(hn), CONSTS, True)
                if svc and rnd.random() < 0.5:
                    ig = 'and(%s,%s)' % (ig, cmp_atom(rnd, 'service', rnd.choice(sn), CONSTS, True))
                l += ' i=' + ig
        if body:
            l += ' body=' + ';'.join(body[:4])
        if kind == 2:
            l += ' parent=%s' % hx(hn[0])
        if kind == 0:
            has_svc_rule = True
        lines.append(l)
    lines.append('ar_load')
    return {'lines': lines, 'tags': {'family': fam}}


# ---------------------------------------------------------------------------------------------------------
# family "frames": 2-4 rules hitting the same targets whose variables COLLIDE on purpose - loop variables, use()
# variables named like globals, like the variables of the other rules, like own attributes of the object under
# construction (host_name, name, service_name) - read by the other rules' `for` term, filter, ignore and body.
# The configuration is loaded as written + wrapped (ar_load) and then in every file order of the rules, with the
# inventory reversed and 1/4 worker threads (ar_order).
FR_GLOBALS = {'ArCH': S('H'), 'ArCh': S('h'), 'ArCS': S('S'), 'ArCN': 'n(5)', 'ArCName': S('name'), 'ArCE': S(''),
              'ArCL': 'arr(%s,%s)' % (S('a'), S('b')), 'ArCM': 'dict(%s=%s,%s=n(5))' % (hx('a'), S('H'), hx('b')), 'ArCP': 'n(80)'}
FR_VARS = ['ArCH', 'ArCN', 'ArCL', 'ArCP', 'ArCM', 'u', 'k', 'v', 'x', 'host_name', 'name', 'service_name']
FR_SCALARS = [S('H'), S('h'), S('a'), S('b'), 'n(80)', 'n(5)']
FR_OWNFIELDS = {0: ['host_name', 'name'], 1: ['host_name', 'service_name'], 3: ['host_name', 'service_name'],
                2: ['child_host_name', 'parent_host_name', 'child_service_name']}


def gen_frames_inventory(rnd, lines):
    hn = rnd.sample(['H', 'h', 'G', 'P'], rnd.choice((1, 2, 2, 3)))
    svcs = []
    for h in hn:
        v = []
        if rnd.random() < 0.85:
            v.append('%s=arr(%s)' % (hx('l'), ','.join(rnd.choice(FR_SCALARS) for _ in range(rnd.choice((0, 1, 1, 1, 2))))))
        if rnd.random() < 0.8:
            v.append('%s=dict(%s)' % (hx('m'), ','.join('%s=%s' % (hx(k), rnd.choice(FR_SCALARS + [S('v')]))
                                                       for k in sorted(rnd.sample(['a', 'b', 'c'], rnd.choice((0, 1, 1, 1, 2)))))))
        if rnd.random() < 0.85:
            v.append('%s=%s' % (hx('p'), rnd.choice(FR_SCALARS)))
        v.sort(key=lambda kv: bytes.fromhex(kv.split('=')[0]))
        l = 'ar_host n=%s' % hx(h)
        if v:
            l += ' vars=dict(%s)' % ','.join(v)
        lines.append(l)
    for h in hn:
        for sv in rnd.sample(['S', 's', 'T'], rnd.choice((0, 1, 1, 2))):
            lines.append('ar_svc h=%s n=%s' % (hx(h), hx(sv)))
            svcs.append((h, sv))
    return hn, svcs


def gen_frames_case(rnd):
    lines = ['ar_glob n=%s v=%s' % (k, FR_GLOBALS[k]) for k in sorted(FR_GLOBALS)]
    hn, svcs = gen_frames_inventory(rnd, lines)
    snames = sorted({sv for _, sv in svcs}) or ['S']
    nr = rnd.choice((2, 2, 2, 3, 3, 4))
    main_kind = rnd.choice((0, 0, 0, 0, 1, 1, 2, 3, 3))
    main_to = 'host' if main_kind == 0 else rnd.choice(('host', 'svc'))
    HV = 'dot(dot(var(host),vars),%s)'
    # one name per case that the rules fight over: bound by some (loop / use variable), read by the others expecting
    # the global, the own field of the new object, or nothing at all
    hot = rnd.choice(('ArCH', 'ArCN', 'ArCP', 'ArCL', 'ArCH', 'ArCP', 'host_name', 'name', 'service_name', 'u', 'k'))

    def pick(excl=()):
        if hot not in excl and rnd.random() < 0.5:
            return hot
        return rnd.choice([x for x in FR_VARS if x not in excl])

    for i in range(nr):
        if rnd.random() < 0.75:
            kind, to = main_kind, main_to
        else:
            kind = rnd.choice((0, 1, 2, 3))
            to = 'host' if kind == 0 else rnd.choice(('host', 'svc'))
        svc = to == 'svc'
        l = 'ar_rule kind=%d to=%s name=r%d' % (kind, to, i)
        own = []
        loop = rnd.random() < 0.55
        fv = None
        if loop:
            fk = pick()
            isdict = rnd.random() < 0.4
            if isdict:
                fv = pick((fk,))
            r = rnd.random()
            good = rnd.random() < 0.96          # the container kind the iterator wants
            wantdict = isdict if good else not isdict
            if r < 0.55:
                ft = HV % ('m' if wantdict else 'l')
            elif r < 0.8:
                ft = 'var(%s)' % ('ArCM' if wantdict else 'ArCL')
            elif r < 0.9:
                ft = 'var(%s)' % rnd.choice([x for x in FR_VARS if x not in ('ArCL', 'ArCM')])     # possibly another rule's variable: undefined here -> no instances
            else:
                ft = ('dict(%s=%s)' % (hx('a'), rnd.choice(FR_SCALARS))) if wantdict else 'arr(%s)' % ','.join(rnd.sample(FR_SCALARS, 2))
            l += ' fk=%s' % fk + (' fv=%s' % fv if fv else '') + ' ft=%s' % ft
            own += [fk] + ([fv] if fv else [])
        use = []
        if rnd.random() < 0.4:
            for un in sorted({pick() for _ in range(rnd.choice((1, 1, 2)))}):
                use.append('%s:%s' % (un, rnd.choice(FR_SCALARS)))
                own.append(un)
        safe = sorted(set(own)) * 3 + sorted(FR_GLOBALS)
        unsafe = [x for x in FR_VARS if x not in own and x not in FR_GLOBALS]

        def var():
            if (hot in FR_GLOBALS or hot in own) and rnd.random() < 0.4:
                return 'var(%s)' % hot
            return 'var(%s)' % (rnd.choice(unsafe) if unsafe and rnd.random() < 0.04 else rnd.choice(safe))

        def atom():
            r = rnd.random()
            if svc and r < 0.08:
                # what an `apply Service` body assigned (vars.b0), read by a rule applied to that service
                # (never against the global dictionary: == on dictionaries is pointer identity in the code, see ASSUMPTIONS)
                x = var()
                return 'eq(dot(dot(var(service),vars),b0),%s)' % (x if x != 'var(ArCM)' else 'var(ArCN)')
            if r < 0.18:
                return 'eq(%s,%s)' % (HV % 'p', var())
            if r < 0.28:
                return 'eq(%s,%s)' % (var(), rnd.choice(FR_SCALARS))
            if r < 0.38:
                return 'in(%s,%s)' % (var(), HV % 'l')
            if r < 0.46:
                return 'eq(%s,%s)' % (HOSTN, var())
            if r < 0.64:
                a = cmp_atom(rnd, 'host', rnd.choice(hn), CONSTS, True)
                if svc and rnd.random() < 0.7:
                    a = 'and(%s,%s)' % (a, cmp_atom(rnd, 'service', rnd.choice(snames), CONSTS, True))
                return a
            if r < 0.70:
                return 'ne(%s,null)' % var()
            if r < 0.76:
                return var()
            return 't'

        def pred():
            a = atom()
            r = rnd.random()
            if r < 0.25:
                return 'and(%s,%s)' % (a, atom())
            if r < 0.45:
                return 'or(%s,%s)' % (a, atom())
            return a

        if not loop or rnd.random() < 0.8:
            l += ' a=' + pred()
        if rnd.random() < 0.2:
            l += ' i=' + atom()
        body = []
        if rnd.random() < 0.75:
            for _ in range(rnd.choice((1, 2, 2, 3, 4))):
                r = rnd.random()
                if rnd.random() < 0.3 and (hot in FR_GLOBALS or hot in own or hot in FR_OWNFIELDS[kind]):
                    body.append('var(%s)' % hot)
                elif r < 0.35 and own:
                    body.append('var(%s)' % rnd.choice(own))
                elif r < 0.5:
                    body.append('var(%s)' % rnd.choice(sorted(FR_GLOBALS)))
                elif r < 0.75:
                    f = rnd.choice(FR_OWNFIELDS[kind])
                    body.append('var(%s)' % f if rnd.random() < 0.75 else 'dot(this,%s)' % f)
                elif r < 0.85 and body:
                    body.append('dot(var(vars),b%d)' % rnd.randrange(len(body)))
                elif r < 0.93:
                    body.append('dot(dot(var(service),vars),b0)' if svc and rnd.random() < 0.5 else HOSTN)
                elif unsafe and rnd.random() < 0.25:
                    # a name nobody defines for THIS rule (another rule's variable): undefined, the load fails -
                    # unless it is an own field of the new object
                    x = rnd.choice(unsafe)
                    if x != 'name' or kind == 0:
                        body.append('var(%s)' % x)
        if use:
            l += ' use=' + ','.join(use)
        if body:
            l += ' body=' + ';'.join(body[:4])
        if kind == 2:
            # one parent for all Dependency rules of a case: no dependency cycles between hosts (their detection is not C16's)
            l += ' parent=%s' % hx(hn[0])
        lines.append(l)
    lines.append('ar_load')
    lines.append('ar_order')
    return {'lines': lines, 'tags': {'family': 'frames'}}


def gen_api_case(rnd):
    lines = []
    hn, svcs = gen_inventory(rnd, lines)
    snames = sorted({s for _, s in svcs}) or ['S']
    lines.append('ar_load')
    for _ in range(rnd.choice((2, 3, 4))):
        svc = rnd.random() < 0.55
        fvc = {}
        for k in sorted(CONSTS):
            if rnd.random() < 0.5:
                fvc[k] = CONSTS[k]
        tv = None
        if rnd.random() < 0.12:
            # a filter variable named like something EvaluateFilter sets: obj, the type variables, every navigation field
            tv = rnd.choice(('host', 'service', 'obj', 'check_command', 'check_period', 'event_command', 'command_endpoint'))
            fvc[tv] = S(rnd.choice(hn))
        f = gen_filter(rnd, svc, hn + ['zz'] * (rnd.random() < 0.2), snames + ['S!T'] * (rnd.random() < 0.1), fvc or {'ArCH': S('H')})
        if tv and rnd.random() < 0.6:
            # the filter variable named like the target used as the constant side of a name comparison
            g = ('eq(%s,var(%s))' % (HOSTN, tv)) if rnd.random() < 0.7 else ('eq(var(%s),%s)' % (tv, HOSTN))
            if svc:
                if rnd.random() < 0.5:
                    g = 'and(%s,eq(%s,%s))' % (g, SVCN, S(rnd.choice(snames)))
                else:
                    # ... or as the constant side of the service name comparison
                    fvc[tv] = S(rnd.choice(snames))
                    g = 'and(eq(%s,%s),eq(var(%s),%s))' % (HOSTN, S(rnd.choice(hn)), tv, SVCN)
            f = g if rnd.random() < 0.6 else 'or(%s,%s)' % (g, f)
        l = 'ar_api to=%s f=%s' % ('svc' if svc else 'host', f)
        if fvc:
            l += ' fv=' + ','.join('%s:%s' % (k, fvc[k]) for k in sorted(fvc))
        lines.append(l)
    return {'lines': lines, 'tags': {'family': 'api'}}


def generate(seed, tier):
    rnd = random.Random(seed * 7919 + 16)
    n_rules, n_api, n_frames = {'quick': (6000, 1600, 1500), 'thorough': (60000, 16000, 15000),
                                'search': (2500, 600, 1200)}.get(tier, (6000, 1600, 1500))
    cases = [gen_rules_case(rnd) for _ in range(n_rules)]
    cases += [gen_api_case(rnd) for _ in range(n_api)]
    rnd2 = random.Random(seed * 104729 + 1601)       # own stream: the older families keep their population
    cases += [gen_frames_case(rnd2) for _ in range(n_frames)]
    return cases


def nontrivial(case, impl_lines):
    if case.get('tags', {}).get('family') == 'frames':
        # at least two rules created something on one target, and every file order was loaded
        per = {}
        for l in impl_lines:
            if l.startswith('p-obj'):
                t = dict(x.split('=', 1) for x in l.split()[1:] if '=' in x)
                m = re.search(r'21(7230|7231|7232|7233)', t.get('n', ''))       # "!r<i>"
                per.setdefault((t.get('h'), t.get('s')), set()).add(m.group(1) if m else '?')
        return any(len(v) >= 2 for v in per.values()) and any(l.startswith('o-load') for l in impl_lines)
    return any((l.startswith('p-rule') and ' idx=R' not in l and ' idx=none' not in l) or l.startswith('api fast=1') for l in impl_lines)


def classify(case, detail, impl_lines):
    if 'crash' in detail:
        return 'crash'
    if 'depends-on-order' in detail:
        return 'created-set-depends-on-order'
    if 'api-recorded-divergence' in detail:
        return 'api-recorded-divergence'
    if 'recorded-divergence' in detail and 'premise=for-error-on-unindexed-target' in detail:
        return 'for-error-on-unindexed-target'
    if 'api-' in detail:
        # a fixed finding coming back (fix reverted) keeps its name
        if 'depends-on-fast-path' in detail and any(l.startswith('ar_api') and re.search(r'fv=(?:.*,)?(host|service|obj|check_command|check_period|event_command|command_endpoint):', l) for l in case['lines']):
            return 'api-filter-var-named-like-target'
        return 'api-fast-path'
    if 'depends-on-fast-path' in detail:
        if any(l.startswith('ar_rule') and re.search(r' f[kv]=(host|service) ', l + ' ') for l in case['lines']):
            return 'shadowed-target-variable'
        return 'fast-path-changes-created-set'
    if 'not-the-matching-targets' in detail:
        return 'created-set-wrong'
    return 'model-mismatch'


def keep_line(l):
    return l.startswith('ar_load') or l.startswith('ar_glob') or l.startswith('ar_order')


def extra_stats(cases, impl):
    rules = idx = failp = failw = okp = api = apifast = apierr = 0
    objs = 0
    kinds = {}
    oloads = osame = fr_cases = fr_shared_target = fr_collide = 0
    for c in cases:
        if c.get('tags', {}).get('family') == 'frames':
            fr_cases += 1
            if nontrivial(c, impl.get(c['id'], [])):
                fr_shared_target += 1
            # a name bound by one rule (loop / use variable) and read by another rule that does not bind it
            binds, reads = [], []
            for l in c['lines']:
                if l.startswith('ar_rule'):
                    b = set(re.findall(r' f[kv]=(\w+)', l)) | set(re.findall(r'[=,](\w+):', l.split(' use=')[1].split(' ')[0]) if ' use=' in l else [])
                    binds.append(b)
                    reads.append(set(re.findall(r'var\((\w+)\)', l)) - b)
            if any(binds[i] & reads[j] for i in range(len(binds)) for j in range(len(binds)) if i != j):
                fr_collide += 1
        for l in impl.get(c['id'], []):
            if l.startswith('o-load'):
                oloads += 1
                if l.endswith(' same'):
                    osame += 1
            if l.startswith('p-rule'):
                rules += 1
                if ' idx=H:' in l or ' idx=S:' in l:
                    idx += 1
            elif l == 'p-load fail':
                failp += 1
            elif l == 'w-load fail':
                failw += 1
            elif l.startswith('p-load ok'):
                okp += 1
            elif l.startswith('p-obj'):
                objs += 1
                k = l.split()[1]
                kinds[k] = kinds.get(k, 0) + 1
            elif l.startswith('api '):
                api += 1
                if 'fast=1' in l:
                    apifast += 1
                if 'plain=err' in l:
                    apierr += 1
    return {'rules_loaded': rules, 'rules_in_targeted_index': idx,
            'fast_path_share_rules': round(idx / rules, 3) if rules else 0,
            'plain_loads_ok': okp, 'plain_loads_failed': failp, 'wrapped_loads_failed': failw,
            'objects_created_plain': objs, 'objects_by_kind': kinds,
            'api_queries': api, 'api_queries_on_fast_path': apifast, 'fast_path_share_api': round(apifast / api, 3) if api else 0,
            'api_queries_throwing': apierr,
            'frames_cases': fr_cases, 'frames_cases_two_rules_created_on_one_target': fr_shared_target,
            'frames_cases_name_bound_by_one_rule_read_by_another': fr_collide,
            'order_loads': oloads, 'order_loads_same_as_script_order': osame}
