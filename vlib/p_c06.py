"""C06 - acknowledgements: normal vs sticky clearing, expiry, suppression.
Generators aimed at the case splits of coq/Ck/CkAckProofs.v: entry point x object state x already
acknowledged x expiry at now-1/now/now+1, normal/sticky x state change / no change / recovery,
reads at expiry-1/expiry/expiry+1 through every operation that reads the acknowledgement."""
import random, itertools, collections
from . import ckgen

PID = 'C06'
HEADER = ['obs ackset ackclr nr ref sc ncr']
T0 = ckgen.T0
CORR_NAME = 'combined checkable model CkFull + cluster entry points CkAck (cka_step)'
RULE = ('(1) entry matrix: {host,service} x start state {never checked, OK/Up, soft problem, hard problem, WARNING} x entry point '
        '{API action, external command, external command _EXPIRE, cluster event} x sticky x notify x persistent x expiry '
        '{none, now-1, now, now+1, now+60}, followed by read, second acknowledgement through another entry point, removal; '
        '(2) clear rule: acknowledged problem x next result {same state, other problem state, OK/Up} x normal/sticky, with persistent and '
        'non-persistent comments and results stamped before/at/after the comment; (3) expiry boundary: reads at expiry-1/expiry/expiry+1 '
        'through ackread, result, second acknowledgement, fire, comment timer, removal; (4) all sequences of length 3 (quick) / 4 (thorough) over a '
        '16-move alphabet from 3 start states; (5) random histories (10-40 ops) with boundary-seeking time advances, pause, parent, downtimes. '
        'non-trivial = at least one acknowledgement was accepted by the implementation and at least one operation follows it; distinct = distinct script text')
TRUSTED = ['model: coq/Ck/CkFull.v (get_ack, do_ack, do_unack, ack_on_change, remove_ack_comments, do_result, do_fire) + coq/Ck/CkAck.v '
           '(ClusterEvents::AcknowledgementSet/ClearedAPIHandler), transcribed by hand from lib/icinga/checkable.cpp:139-193, '
           'checkable-check.cpp:262-282,329-330, checkable-comment.cpp:22-44, apiactions.cpp:210-300, externalcommandprocessor.cpp:597-743, clusterevents.cpp:802-910',
           'harness/ops_ckfull.cpp: the cluster handlers are called with a MessageOrigin whose FromClient is a JsonRpcConnection authenticated as an existing '
           'Endpoint and FromZone = null (an endpoint of the local zone); the origin checks themselves are C13',
           'hook H1 (virtual clock) in lib/base/utility.cpp; timer handlers (comment expiry, FireSuppressedNotifications) are called directly',
           'ocaml/ops_cka.ml parses observation lines into the records the Gallina oracle cka_oracle decides on']
ASSUMPTIONS = ['timestamps are whole seconds (exact in binary64)',
               'the lazy expiry is observed at the operations that read the acknowledgement; between two reads the raw attribute keeps its value (as in the code)',
               'exactly-one Acknowledgement notification is stated for a non-paused (HA-active) object; a paused object requests none (Checkable::AcknowledgeProblem tests IsPaused)',
               'cluster events: the Comment object is replicated by the config-sync, not by the event; the event handlers create/remove no comments (modelled as such)']

VIAS = ('api', 'ext', 'extexp', 'cluster')


def ackline(via, sticky, notify, pers, now, off):
    """off = None (no expiry) or offset relative to now"""
    if via == 'ext':
        eg, exp = 0, 0
    elif off is None:
        eg, exp = 0, 0
    else:
        eg, exp = 1, now + off
    return 'ack via=%s sticky=%d notify=%d pers=%d eg=%d expiry=%d' % (via, sticky, notify, pers, eg, exp)


class Case:
    def __init__(self, kind, mx=3, fam='?'):
        self.kind = kind
        self.t = T0
        self.fam = fam
        self.lines = ['now %d' % T0, 'ckf_new kind=%s max=%d vol=0 flap=0 active=0 ci=300' % (kind, mx)]

    def adv(self, d):
        self.t += d
        self.lines.append('now %d' % self.t)

    def at(self, t):
        if t > self.t:
            self.t = t
        self.lines.append('now %d' % self.t)

    def add(self, l):
        self.lines.append(l)

    def start(self, s, mx=3):
        """bring the object into a start state"""
        if s == 'pending':
            return
        self.adv(10)
        self.add('crf state=0')
        if s == 'ok':
            return
        if s == 'warn':
            self.adv(10); self.add('crf state=1'); return
        n = 1 if s == 'soft' else mx
        for _ in range(n):
            self.adv(10)
            self.add('crf state=2')

    def case(self):
        return {'lines': self.lines, 'tags': {'family': self.fam}}


def entry_matrix(out):
    for kind in ('host', 'svc'):
        for st in ('pending', 'ok', 'soft', 'hard', 'warn'):
            for via in VIAS:
                for sticky in (0, 1):
                    for notify in (0, 1):
                        for off in (None, -1, 0, 1, 60):
                            if via == 'ext' and off is not None:
                                continue
                            pers = (sticky + notify + (off or 0)) % 2
                            c = Case(kind, fam='entry-matrix')
                            c.start(st)
                            c.adv(7)
                            c.add(ackline(via, sticky, notify, pers, c.t, off))
                            c.add('ackread')
                            # second acknowledgement through the next entry point, 1 s later and at once
                            v2 = VIAS[(VIAS.index(via) + 1 + sticky) % 4]
                            c.add(ackline(v2, 1 - sticky, 1, 0, c.t, 30))
                            c.adv(1)
                            c.add(ackline(via, sticky, notify, 0, c.t, 30))
                            c.add('unack via=%s' % ('api', 'ext', 'cluster')[(sticky + notify + VIAS.index(via)) % 3])
                            c.add('ackread')
                            c.add(ackline(v2, sticky, 1, 1, c.t, None))
                            c.adv(10)
                            c.add('crf state=0')
                            out.append(c.case())


def clear_rule(out):
    for kind in ('host', 'svc'):
        for st in ('soft', 'hard', 'warn', 'pending'):
            for via in VIAS:
                for sticky in (0, 1):
                    for nxt in ((2,), (3,), (1,), (0,), (2, 2), (3, 0), (1, 2), (0, 2)):
                        for pers in (0, 1):
                            for stamp in (0, -1, -20):
                                if stamp and (pers or len(nxt) > 1):
                                    continue
                                c = Case(kind, fam='clear-rule')
                                c.start(st)
                                c.adv(5)
                                c.add(ackline(via, sticky, 1, pers, c.t, None))
                                for s in nxt:
                                    c.adv(10)
                                    if stamp:
                                        # result whose execution_end lies before the comment's entry time
                                        c.add('crf state=%d start=%d end=%d' % (s, c.t, c.t + stamp - 10))
                                    else:
                                        c.add('crf state=%d' % s)
                                    c.add('ackread')
                                c.add('unack via=api')
                                out.append(c.case())


def expiry_boundary(out):
    readers = ('ackread', 'crf-same', 'crf-change', 'crf-ok', 'ack-api', 'ack-cluster', 'ack-extexp', 'fire', 'cmtimer', 'unack', 'unack-cluster', 'pause')
    for kind in ('host', 'svc'):
        for via in ('api', 'extexp', 'cluster'):
            for sticky in (0, 1):
                for d in (1, 2, 60):
                    for at in (-1, 0, 1):
                        for rd in readers:
                            c = Case(kind, fam='expiry-boundary')
                            c.start('hard')
                            c.adv(3)
                            e = c.t + d
                            c.add(ackline(via, sticky, 0, 0, c.t, d))
                            c.at(e + at)
                            if rd == 'crf-same': c.add('crf state=2')
                            elif rd == 'crf-change': c.add('crf state=%d' % (1 if kind == 'svc' else 0))
                            elif rd == 'crf-ok': c.add('crf state=0')
                            elif rd == 'ack-api': c.add(ackline('api', 1 - sticky, 1, 0, c.t, None))
                            elif rd == 'ack-cluster': c.add(ackline('cluster', 1 - sticky, 1, 0, c.t, 5))
                            elif rd == 'ack-extexp': c.add(ackline('extexp', sticky, 1, 1, c.t, 1))
                            elif rd == 'unack': c.add('unack via=ext')
                            elif rd == 'unack-cluster': c.add('unack via=cluster')
                            elif rd == 'pause': c.add('pause p=1'); c.add(ackline('api', 0, 1, 0, c.t, None))
                            else: c.add(rd)
                            c.add('ackread')
                            c.adv(1)
                            c.add('crf state=2')
                            c.add('ackread')
                            out.append(c.case())


MOVES = ('R0', 'R1', 'R2', 'R3', 'AN', 'AS', 'AE', 'AC', 'AA', 'U', 'UC', 'RD', 'T5', 'T6', 'F', 'C')


def apply_move(c, m):
    if m[0] == 'R' and m != 'RD':
        c.adv(10); c.add('crf state=%s' % m[1])
    elif m == 'AN': c.add(ackline('api', 0, 1, 0, c.t, None))
    elif m == 'AS': c.add(ackline('ext', 1, 0, 1, c.t, None))
    elif m == 'AE': c.add(ackline('extexp', 0, 1, 0, c.t, 5))
    elif m == 'AC': c.add(ackline('cluster', 1, 1, 0, c.t, 5))
    elif m == 'AA': c.add(ackline('api', 1, 0, 0, c.t, 5))
    elif m == 'U': c.add('unack via=api')
    elif m == 'UC': c.add('unack via=cluster')
    elif m == 'RD': c.add('ackread')
    elif m == 'T5': c.adv(5)
    elif m == 'T6': c.adv(6)
    elif m == 'F': c.add('fire')
    elif m == 'C': c.add('cmtimer')


def sequences(out, L, kinds, starts):
    for kind in kinds:
        for st in starts:
            for seq in itertools.product(MOVES, repeat=L):
                if seq[0] in ('T5', 'T6', 'RD', 'F', 'C', 'U', 'UC'):
                    continue            # nothing to observe before the first real move
                c = Case(kind, fam='sequences-%d' % L)
                c.start(st)
                for m in seq:
                    apply_move(c, m)
                c.add('ackread')
                out.append(c.case())


class AGen(ckgen.Gen):
    """random histories: the shared generator plus the cluster entry point"""

    def ack(self):
        r = self.r
        via = r.choice(('api', 'api', 'ext', 'extexp', 'cluster', 'cluster'))
        off = r.choice((None, None, -1, 0, 1, 1, 2, 5, 30, 60))
        if via == 'extexp' and off is None and r.random() < 0.5:
            off = 3
        if off is not None and via != 'ext':
            self.boundaries.update((self.t + off - 1, self.t + off, self.t + off + 1))
        l = ackline(via, r.randint(0, 1), r.randint(0, 1), int(r.random() < 0.3), self.t, off)
        if via == 'extexp' and off is None:
            l = l.replace('eg=0', 'eg=1')      # _EXPIRE with timestamp 0 = no expiry
        self.lines.append(l)

    def unack(self):
        self.lines.append('unack via=%s' % self.r.choice(('api', 'ext', 'cluster')))


W_C06 = {'adv': 6, 'result': 7, 'ack': 4, 'unack': 1.2, 'ackread': 2.5, 'cmtimer': 1, 'fire': 1, 'pause': 0.3,
         'parent': 0.4, 'dt_add': 0.5, 'dt_remove': 0.2, 'dt_starttimer': 0.3, 'dt_cleanup': 0.2}


def random_cases(out, rnd, n):
    for i in range(n):
        g = AGen(rnd, vol=int(rnd.random() < 0.1), flap=int(rnd.random() < 0.1))
        names = list(W_C06)
        ws = [W_C06[k] for k in names]
        if g.active:
            g.nextcheck()
        for _ in range(rnd.randint(10, 40)):
            k = rnd.choices(names, ws)[0]
            if k == 'adv': g.adv()
            elif k == 'result': g.result()
            elif k == 'ack': g.ack()
            elif k == 'unack': g.unack()
            elif k in ('ackread', 'cmtimer', 'fire', 'dt_starttimer'): g.simple(k)
            elif k == 'pause': g.pause()
            elif k == 'parent': g.parent()      # ckgen.Gen.parent pins next_check after a parent recovery (active objects)
            elif k == 'dt_add': g.dt_add()
            elif k == 'dt_remove': g.dt_remove()
            elif k == 'dt_cleanup': g.dt_cleanup()
        out.append(g.case('random'))


def generate(seed, tier):
    rnd = random.Random(seed)
    out = []
    entry_matrix(out)
    clear_rule(out)
    expiry_boundary(out)
    if tier == 'thorough':
        sequences(out, 3, ('host', 'svc'), ('ok', 'soft', 'hard'))
        sequences(out, 4, ('svc',), ('hard',))
        random_cases(out, rnd, 20000)
    elif tier == 'search':
        sequences(out, 3, ('host', 'svc'), ('soft', 'hard'))
        random_cases(out, rnd, 6000)
    else:
        sequences(out, 3, ('host', 'svc'), ('hard', ('ok', 'soft')[seed % 2]))
        random_cases(out, rnd, 3000)
    return out


def nontrivial(case, impl_lines):
    idx = [i for i, l in enumerate(impl_lines) if ' ackset=' in l]
    return bool(idx) and idx[0] < len(impl_lines) - 1


def classify(case, detail, impl_lines):
    d = detail.split()[0] if detail else ''
    if 'crash' in detail or 'missing-observation' in detail:
        return 'crash'
    if d == 'cluster-ok-accepted':
        return 'cluster-ok-accepted'
    if d == 'accepted-acknowledgement-expiry-attribute' and 'via=extexp' in detail:
        return 'extcmd-expire-never'
    return d or 'unclassified'


def keep_line(l):
    return l.startswith('ckf_new') or l == 'now %d' % T0


def extra_stats(cases, impl):
    st = collections.Counter()
    for c in cases:
        il = impl.get(c['id'], [])
        ops = [l for l in c['lines'] if not l.startswith('now ') and not l.startswith('ckf_new')]
        for l, o in zip(ops, il):
            if l.startswith('ack '):
                via = l.split('via=')[1].split()[0]
                st['ack_%s_%s' % (via, 'accepted' if ' ackset=' in o else 'refused')] += 1
                if ' nr=16' in o:
                    st['ack_notifications'] += 1
            if ' ackclr' in o:
                st['cleared_by_' + o.split()[0]] += 1
            if l.startswith('ackread') and ' handled=1' in o:
                st['reads_handled'] += 1
    st['cases_with_expiry_clear'] = sum(1 for c in cases if any((l.startswith('ackread') or l.startswith('crf')) and ' ackclr' in l and ' sc=' not in l for l in impl.get(c['id'], [])))
    return dict(st)
