"""C03 - notification delivery: filters, periods, per-user incident state, reminders.
Generators for the correspondence run (real Notification/User/UserGroup/TimePeriod objects vs. the extracted model)."""
import random, itertools

PID = 'C03'
HEADER = []
T0 = 2000000000
RULE = ('one real Host|Service + Notification + 1-3 Users (0-1 UserGroup, 0-4 TimePeriods) per case; '
        'exhaustive op histories of length 3 over a 12-letter alphabet (Problem crit/warn, Recovery, Acknowledgement, Custom, '
        'DowntimeStart, forced Problem, Problem/Recovery with the period closed, tick after 1 s / after the interval, user period closed) '
        'for one user x 8 configurations; random histories of 20-150 ops over all nine types x forced/not with random checkable '
        'snapshots, type/state filters from {all, none, singletons, complements}, interval in {0,1,30,1800}, times.begin/end with the '
        'clock at boundary-1/boundary/boundary+1, cold-start stashing, pause, suppressed re-sends; directed families for the two '
        'recorded findings. non-trivial = at least one command executed for a user and at least 3 ops; distinct = distinct script text')
TRUSTED = ['model: coq/Notif/NfModel.v (transcription of Checkable::SendNotifications, Notification::BeginExecuteNotification, '
           'CheckNotificationUserFilters, FireSuppressedNotifications(notification), NotificationComponent::NotificationTimerHandler); '
           'enum values re-extracted each run (coq/Facts/Facts_enums.v)',
           'hook H1 (virtual clock) in lib/base/utility.cpp; NotificationTimerHandler and ApiListener::m_UpdatedObjectAuthority reached through -fno-access-control',
           'the checkable snapshot (state, state type, last hard state change, downtime, acknowledgement, reachability, flapping, '
           'enable flags) and period membership are inputs of the model, set on the real objects by the harness (C08 decides periods)']
ASSUMPTIONS = ['timestamps are whole seconds (exact in binary64)',
               'asynchronous command execution is drained after every operation instead of interleaved',
               'an incident ends when a Recovery notification reaches Notification::BeginExecuteNotification (unless merely withheld by the closed period) or is requested while notifications are disabled',
               'the HA branch uses a never-started PKI-less ApiListener with a local endpoint, visible only while an op with ha=1 runs']

TYPES = [1, 2, 4, 8, 16, 32, 64, 128, 256]
ALLT = 511


def ctx_line(c):
    keys = ['raw', 'hard', 'lhsc', 'vol', 'gen', 'cen', 'dt', 'ack', 'reach', 'flap', 'cks', 'paused', 'ha', 'auth', 'per', 'uen', 'ucl', 'cr', 'soon']
    return 'nf_ctx ' + ' '.join('%s=%s' % (k, c[k]) for k in keys)


def ids(l):
    return ','.join(str(i) for i in sorted(l)) if l else '-'


def base_ctx(nu):
    return {'raw': 0, 'hard': 1, 'lhsc': T0 - 1000, 'vol': 0, 'gen': 1, 'cen': 1, 'dt': 0, 'ack': 0, 'reach': 1, 'flap': 0,
            'cks': 0, 'paused': 0, 'ha': 0, 'auth': 1, 'per': 0, 'uen': ids(range(1, nu + 1)), 'ucl': '-', 'cr': 1, 'soon': 0}


def new_line(cfg):
    l = 'nf_new kind=%s interval=%d types=%d states=%d per=%d begin=%s end=%s nu=%d' % (
        cfg['kind'], cfg['interval'], cfg['types'], cfg['states'], cfg['per'], cfg['begin'], cfg['end'], len(cfg['users']))
    for i, u in enumerate(cfg['users'], 1):
        l += ' u%d=%d:%d:%d' % (i, u[0], u[1], u[2])
    l += ' du=%s g=%s' % (ids(cfg['du']), ids(cfg['g']) if cfg['g'] is not None else '-')
    return l


def mkcfg(kind='svc', interval=30, types=-1, states=-1, per=0, begin='-', end='-', users=((-1, -1, 0),), du=(1,), g=None):
    return {'kind': kind, 'interval': interval, 'types': types, 'states': states, 'per': per, 'begin': begin, 'end': end,
            'users': list(users), 'du': list(du), 'g': g}


# ---------------------------------------------------------------- exhaustive short histories, one user
def letter(cfg, ctx, t, L):
    """apply letter L to the running (ctx, t); returns script lines"""
    out = []
    c = ctx

    def prob(raw):
        if c['raw'] != raw:
            c['lhsc'] = t[0]
        c['raw'] = raw; c['cr'] = 0; c['hard'] = 1
    req = None
    if L == 'Pc': prob(2); req = (32, 0)
    elif L == 'Pw': prob(1); req = (32, 0)
    elif L == 'R':
        if c['raw'] != 0: c['lhsc'] = t[0]
        c['raw'] = 0; c['cr'] = 1; c['ack'] = 0; req = (64, 0)
    elif L == 'A': c['ack'] = 1; req = (16, 0)
    elif L == 'unA': c['ack'] = 0
    elif L == 'C': req = (8, 0)
    elif L == 'D': req = (1, 0)
    elif L == 'fP': prob(2); req = (32, 1)
    elif L == 'xP': prob(2); c['per'] = 1; req = (32, 0)
    elif L == 'xR':
        if c['raw'] != 0: c['lhsc'] = t[0]
        c['raw'] = 0; c['cr'] = 1; c['per'] = 1; req = (64, 0)
    elif L == 'uP': prob(2); c['ucl'] = '1'; req = (32, 0)
    elif L == 't1': t[0] += 1
    elif L == 'tI': t[0] += max(1, cfg['interval'])
    if L in ('t1', 'tI'):
        out.append('now %d' % t[0])
        out.append(ctx_line(c))
        out.append('nf_tick')
    else:
        out.append(ctx_line(c))
        if req:
            out.append('nf_req type=%d force=%d' % req)
        c['per'] = 0; c['ucl'] = '-'
        if L == 'unA':
            t[0] += 1
            out.append('now %d' % t[0]); out.append(ctx_line(c)); out.append('nf_tick')
    return out


LETTERS = ['Pc', 'Pw', 'R', 'A', 'unA', 'C', 'D', 'fP', 'xP', 'xR', 't1', 'tI']


def exhaustive(L):
    cfgs = [mkcfg(interval=30, per=1, users=((-1, -1, 1),)),
            mkcfg(interval=0, per=1, users=((-1, -1, 1),)),
            mkcfg(kind='host', interval=0, per=1, users=((-1, -1, 1),)),
            mkcfg(interval=30, per=1, types=ALLT & ~64, users=((-1, -1, 1),)),
            mkcfg(interval=0, per=1, types=32 | 16, users=((32 | 16 | 64, -1, 1),)),
            mkcfg(interval=30, per=1, states=4 | 8, users=((-1, 1 | 2 | 4, 1),)),
            mkcfg(interval=1, per=1, begin='1', end='2', users=((ALLT & ~32, -1, 1),)),
            mkcfg(kind='host', interval=30, per=1, states=32, users=((-1, 16 | 32, 1),), du=(), g=(1,))]
    cases = []
    for ci, cfg in enumerate(cfgs):
        for h in itertools.product(LETTERS, repeat=L):
            t = [T0]
            ctx = base_ctx(1)
            lines = ['now %d' % T0, new_line(cfg)]
            for x in h:
                lines += letter(cfg, ctx, t, x)
            cases.append({'lines': lines, 'tags': {'family': 'exhaustive-1user', 'cfg': ci}})
    return cases


# ---------------------------------------------------------------- random
def rfilter(rnd, bits):
    allm = 0
    for b in bits: allm |= b
    k = rnd.random()
    if k < 0.3: return -1
    if k < 0.4: return 0
    if k < 0.6: return rnd.choice(bits)
    if k < 0.8: return allm & ~rnd.choice(bits)
    return rnd.randint(0, allm) & allm


def rand_cfg(rnd):
    kind = rnd.choice(('host', 'svc'))
    sbits = [16, 32] if kind == 'host' else [1, 2, 4, 8]
    nu = rnd.randint(1, 3)
    users = []
    for i in range(nu):
        ut = rfilter(rnd, TYPES)
        if rnd.random() < 0.5: ut = ut | 32 if ut != -1 else ut
        us = rfilter(rnd, [1, 2, 4, 8, 16, 32]) if rnd.random() < 0.5 else -1
        users.append((ut, us, rnd.randint(0, 1)))
    g = None
    du = list(range(1, nu + 1))
    if rnd.random() < 0.5:
        g = sorted(rnd.sample(range(1, nu + 1), rnd.randint(0, nu)))
        du = sorted(rnd.sample(range(1, nu + 1), rnd.randint(0 if g else 1, nu)))
        if not du and not g: du = [1]
    tm = rnd.random()
    begin = end = '-'
    if tm < 0.15: begin = str(rnd.choice((0, 1, 10, 60)))
    elif tm < 0.3: end = str(rnd.choice((0, 1, 10, 60)))
    elif tm < 0.45:
        b = rnd.choice((0, 1, 10)); begin = str(b); end = str(b + rnd.choice((0, 1, 10, 60)))
    elif tm < 0.5: begin = str(-1)
    nt = rfilter(rnd, TYPES) if rnd.random() < 0.6 else -1
    ns = rfilter(rnd, sbits) if rnd.random() < 0.4 else -1
    return mkcfg(kind=kind, interval=rnd.choice((0, 0, 1, 30, 30, 1800)), types=nt, states=ns, per=rnd.randint(0, 1),
                 begin=begin, end=end, users=users, du=du, g=g)


def rand_case(rnd, n, fam='random'):
    cfg = rand_cfg(rnd)
    nu = len(cfg['users'])
    c = base_ctx(nu)
    t = T0
    lines = ['now %d' % t, new_line(cfg)]
    iv = cfg['interval']
    wild = rnd.random() < 0.3     # arbitrary snapshots vs. mostly plausible ones
    pflag = 0.25 if wild else 0.06
    for _ in range(n):
        # time: aim at interval and times.begin/end boundaries
        cands = [0, 1, 1, 5, iv - 1, iv, iv + 1, 30]
        for k in ('begin', 'end'):
            if cfg[k] != '-':
                d = c['lhsc'] + int(cfg[k]) - t
                cands += [d - 1, d, d + 1, d, d + 1]
        t += max(0, rnd.choice(cands))
        lines.append('now %d' % t)
        # checkable snapshot
        r = rnd.random()
        ty = None
        if r < 0.25:
            nr = rnd.choice((1, 2, 2, 3))
            if (nr == 0) != (c['raw'] == 0) or rnd.random() < 0.7: c['lhsc'] = t
            c['raw'] = nr; c['cr'] = 0; c['hard'] = 0 if rnd.random() < 0.15 else 1
            ty = 32
        elif r < 0.37:
            if c['raw'] != 0: c['lhsc'] = t
            c['raw'] = 0; c['cr'] = 1; c['hard'] = 1; c['ack'] = 0
            ty = 64
        elif r < 0.45:
            c['ack'] = 1 - c['ack']; ty = 16 if c['ack'] else None
        elif r < 0.50:
            c['dt'] = 1 - c['dt']; ty = 1 if c['dt'] else rnd.choice((2, 4))
        elif r < 0.55:
            c['flap'] = 1 - c['flap']; ty = 128 if c['flap'] else 256
        elif r < 0.60:
            ty = 8
        for k in ('gen', 'cen', 'paused'):
            c[k] = 0 if rnd.random() < pflag / 2 else 1 if k != 'paused' else 0
        c['paused'] = 1 if rnd.random() < pflag / 2 else 0
        c['ha'] = 1 if rnd.random() < 0.3 else 0
        c['auth'] = 0 if rnd.random() < pflag / 2 else 1
        c['reach'] = 0 if rnd.random() < pflag else 1
        c['cks'] = 1 if rnd.random() < pflag / 2 else 0
        c['vol'] = 1 if rnd.random() < (0.3 if wild else 0.05) else 0
        c['soon'] = 1 if rnd.random() < pflag else 0
        c['per'] = 1 if rnd.random() < 0.25 else 0
        c['ucl'] = ids([i for i in range(1, nu + 1) if rnd.random() < 0.2])
        c['uen'] = ids([i for i in range(1, nu + 1) if rnd.random() > 0.1])
        if wild:
            c['raw'] = rnd.randint(0, 3); c['hard'] = rnd.randint(0, 1); c['cr'] = rnd.choice((-1, 0, 1))
            if rnd.random() < 0.2: c['lhsc'] = t - rnd.choice((0, 1, 10, 60, 61))
        lines.append(ctx_line(c))
        k = rnd.random()
        if ty is not None and k < 0.75:
            lines.append('nf_req type=%d force=%d' % (ty, 1 if rnd.random() < 0.12 else 0))
        elif k < 0.85:
            lines.append('nf_req type=%d force=%d' % (rnd.choice(TYPES), rnd.randint(0, 1)))
        else:
            lines.append('nf_tick')
        if rnd.random() < 0.35:
            t += rnd.choice((0, 1, 5, iv, iv + 1, 1800))
            lines.append('now %d' % t)
            if rnd.random() < 0.5:
                c['per'] = 0; c['ucl'] = '-'
                lines.append(ctx_line(c))
            lines.append('nf_tick')
    return {'lines': lines, 'tags': {'family': fam}}


# ---------------------------------------------------------------- directed at the recorded findings / boundaries
def directed(rnd, n):
    cases = []
    for i in range(n):
        kind = rnd.choice(('host', 'svc'))
        nu = rnd.randint(1, 3)
        users = [(rnd.choice((-1, 32 | 16 | 64, 16 | 64)), -1, 1) for _ in range(nu)]
        how = rnd.choice(('type', 'period'))
        cfg = mkcfg(kind=kind, interval=rnd.choice((0, 30)), types=(ALLT & ~64) if how == 'type' else -1, per=1,
                    users=users, du=range(1, nu + 1))
        c = base_ctx(nu); t = T0
        lines = ['now %d' % t, new_line(cfg)]
        c['raw'] = 2; c['cr'] = 0; c['lhsc'] = t
        lines += [ctx_line(c), 'nf_req type=32 force=0']
        t += 10; lines.append('now %d' % t)
        c['raw'] = 0; c['cr'] = 1; c['lhsc'] = t; c['per'] = 1 if how == 'period' else 0
        lines += [ctx_line(c), 'nf_req type=64 force=0']
        t += 10; lines.append('now %d' % t)
        c['raw'] = 2; c['cr'] = 0; c['lhsc'] = t; c['per'] = 0
        c['ucl'] = ids([u for u in range(1, nu + 1) if rnd.random() < 0.7])
        lines += [ctx_line(c), 'nf_req type=32 force=0']
        t += 5; lines.append('now %d' % t)
        c['ucl'] = '-'; c['ack'] = 1
        lines += [ctx_line(c), 'nf_req type=%d force=0' % rnd.choice((16, 16, 64))]
        cases.append({'lines': lines, 'tags': {'family': 'directed-stale-users'}})
    for i in range(n):
        kind = rnd.choice(('host', 'svc'))
        cfg = mkcfg(kind=kind, interval=0, users=((-1, -1, 0),))
        c = base_ctx(1); t = T0
        lines = ['now %d' % t, new_line(cfg)]
        c['raw'] = 2; c['cr'] = 0; c['lhsc'] = t
        lines += [ctx_line(c), 'nf_req type=32 force=0']
        t += 10; lines += ['now %d' % t, ctx_line(c), 'nf_tick']
        ty = rnd.choice((16, 1, 2, 4, 128, 256, 8))
        if ty == 16: c['ack'] = 1
        lines += [ctx_line(c), 'nf_req type=%d force=0' % ty]
        c['ack'] = 0
        t += 10; lines += ['now %d' % t, ctx_line(c), 'nf_tick']
        t += 10; lines += ['now %d' % t, ctx_line(c), 'nf_tick']
        cases.append({'lines': lines, 'tags': {'family': 'directed-interval0'}})
    # cold start / pause / HA: stash built while the authority is not yet updated, then ticks with paused x ha x auth;
    # Recovery requests while notifications are disabled
    for i in range(n):
        kind = rnd.choice(('host', 'svc'))
        cfg = mkcfg(kind=kind, interval=rnd.choice((0, 30)), users=((-1, -1, 0),))
        c = base_ctx(1); t = T0
        lines = ['now %d' % t, new_line(cfg)]
        c['raw'] = 2; c['cr'] = 0; c['lhsc'] = t; c['auth'] = 0
        for ty in rnd.sample((32, 8, 16, 1), rnd.randint(1, 3)):
            c['ha'] = rnd.randint(0, 1); c['paused'] = rnd.choice((0, 0, 1))
            lines += [ctx_line(c), 'nf_req type=%d force=%d' % (ty, rnd.choice((0, 0, 1)))]
        for k in range(3):
            t += rnd.choice((1, 30))
            c['paused'] = rnd.randint(0, 1); c['ha'] = rnd.randint(0, 1); c['auth'] = rnd.choice((0, 1, 1))
            lines += ['now %d' % t, ctx_line(c), 'nf_tick']
            if rnd.random() < 0.4:
                lines += [ctx_line(c), 'nf_req type=%d force=0' % rnd.choice((32, 64, 16))]
        cases.append({'lines': lines, 'tags': {'family': 'directed-coldstart-ha'}})
    for i in range(n):
        kind = rnd.choice(('host', 'svc'))
        nu = rnd.randint(1, 2)
        cfg = mkcfg(kind=kind, interval=rnd.choice((0, 30)), users=[(-1, -1, 1)] * nu, du=range(1, nu + 1))
        c = base_ctx(nu); t = T0
        lines = ['now %d' % t, new_line(cfg)]
        c['raw'] = 2; c['cr'] = 0; c['lhsc'] = t
        lines += [ctx_line(c), 'nf_req type=32 force=0']
        t += 10; lines.append('now %d' % t)
        c['raw'] = 0; c['cr'] = 1; c['lhsc'] = t
        c[rnd.choice(('gen', 'cen'))] = 0
        lines += [ctx_line(c), 'nf_req type=64 force=%d' % (1 if rnd.random() < 0.2 else 0)]
        c['gen'] = 1; c['cen'] = 1
        t += 10; lines.append('now %d' % t)
        c['raw'] = 2; c['cr'] = 0; c['lhsc'] = t
        c['ucl'] = ids([u for u in range(1, nu + 1) if rnd.random() < 0.7])
        lines += [ctx_line(c), 'nf_req type=32 force=0']
        t += 5; lines.append('now %d' % t)
        c['ucl'] = '-'; c['ack'] = 1
        lines += [ctx_line(c), 'nf_req type=%d force=0' % rnd.choice((16, 16, 64))]
        cases.append({'lines': lines, 'tags': {'family': 'directed-disabled-recovery'}})
    # times window boundaries
    for b, e, d in itertools.product((0, 1, 10), (0, 1, 10), (-1, 0, 1)):
        for which in ('begin', 'end'):
            cfg = mkcfg(interval=rnd.choice((0, 30)), begin=str(b), end=str(b + e), users=((-1, -1, 0),))
            c = base_ctx(1); t = T0
            lines = ['now %d' % t, new_line(cfg)]
            c['raw'] = 2; c['cr'] = 0; c['lhsc'] = t
            t = c['lhsc'] + (b if which == 'begin' else b + e) + d
            if t < T0: c['lhsc'] += T0 - t; t = T0
            lines += ['now %d' % t, ctx_line(c), 'nf_req type=32 force=0']
            for dd in (1, 1, 30):
                t += dd
                lines += ['now %d' % t, ctx_line(c), 'nf_tick']
            cases.append({'lines': lines, 'tags': {'family': 'times-boundary'}})
    return cases


def generate(seed, tier):
    rnd = random.Random(seed)
    cases = []
    cases += exhaustive({'quick': 3, 'thorough': 4, 'search': 3}.get(tier, 3))
    cases += directed(rnd, {'quick': 60, 'thorough': 400, 'search': 100}.get(tier, 60))
    nrand = {'quick': 700, 'thorough': 8000, 'search': 1500}.get(tier, 700)
    for i in range(nrand):
        cases.append(rand_case(rnd, rnd.choice((20, 40, 80, 150)) if i % 4 == 0 else rnd.randint(8, 40)))
    return cases


def nontrivial(case, impl_lines):
    ops = [l for l in impl_lines if l.startswith('nf_')]
    return len(ops) >= 3 and any(' cmd=-' not in l for l in ops)


def classify(case, detail, impl_lines):
    if 'crash' in detail or 'missing' in detail:
        return 'crash'
    if 'class=nomore-reset' in detail:
        return 'nomore-reset'
    return 'delivery-rule'


def keep_line(l):
    # the snapshot lines are kept: an op without its snapshot would run against the fixture's defaults
    return l.startswith('nf_new') or l.startswith('nf_ctx')


def extra_stats(cases, impl):
    import collections
    st = collections.Counter()
    for c in cases:
        for l in impl.get(c['id'], []):
            if not l.startswith('nf_'): continue
            st['ops'] += 1
            toks = dict(t.split('=', 1) for t in l.split()[1:] if '=' in t)
            if toks.get('ev', '-') != '-':
                for e in toks['ev'].split(','):
                    if e == 'C': st['recovery_execs'] += 1
                    else:
                        ty = e[1:].split(':')[0]
                        st['completed_type_%s' % ty] += 1
                        if e.endswith(':0'): st['completed_without_recipient'] += 1
            if toks.get('cmd', '-') != '-': st['commands'] += len(toks['cmd'].split(','))
            if l.startswith('nf_tick') and 'D32:' in toks.get('ev', ''): st['tick_problem_sends'] += 1
            if toks.get('stash', '-') != '-': st['ops_with_stash'] += 1
            if toks.get('sup', '0') != '0': st['ops_with_suppressed_types'] += 1
    return dict(st)
