"""C17 - runtime objects: config writer / lexer round trip, structure of the generated configuration,
all-or-nothing create, delete with and without cascade.  Generators for the correspondence run."""
import random, decimal, re

PID = 'C17'
HEADER = []
T0 = 2000000000
RULE = ('strings / identifiers / nested values / object declarations over an alphabet weighted to quotes, backslash, newline, CR, FF, tab, '
        '$, }}}, */, //, #, @, keyword-like and identifier-like lines inside multi-line keys, dotted keys, UTF-8 multibyte, numbers of many '
        'magnitudes and precisions (incl. round-half-even ties k/128, 2^-n, 10^+-n, 2^53 neighbours); each value is emitted by the REAL '
        'ConfigWriter (bytes compared with the model), compiled by the REAL ConfigCompiler and read back; raw literal texts (octal / bad '
        'escapes, heredocs, comments, duration suffixes) for the lexer model; create/delete/cascade sequences of length <= 6 through the REAL '
        'ConfigObjectUtility in the scratch _api package with failures provoked by invalid attribute, validation error, dangling reference, '
        'duplicate name; after EVERY operation the complete file tree below the package (one entry per object file: whose file, digest of the bytes) compared with the model and judged by the oracle (failed operation: identical tree; successful create: exactly the file of the target is new and holds the generated text; successful delete: exactly the files of the deleted closure are gone); 17 object types (Host, User, UserGroup, HostGroup, ServiceGroup, Check/Notification/EventCommand, TimePeriod, Zone, ApiUser, Service, host- and service-level Notification, Dependency, Comment, Downtime, ScheduledDowntime); families dup-runtime-<T>/dup-static-<T> (same request again, other attributes, other case, create-delete-create, first object static), cascade-graph/-chain/-dependency/-command (random dependency graphs incl. diamonds and a run-time check command; deletes with and without cascade), fail-<T>, extra-parts-<T>; cw_restart = the package directory loaded the way a restart loads it must yield exactly the live run-time objects (aimed families always, random sequences in the thorough tier); template names with quote/newline; Service requests carrying a host_name attribute that is consistent with / contradicts (existing parent, missing parent) the composed name; a creation rejected in the commit phase followed by a valid creation of the same name, which must succeed. non-trivial = the case carries a payload byte outside [A-Za-z0-9_] or a '
        'transaction of >= 2 operations; distinct = distinct script text')
TRUSTED = ['model: coq/Cw/CwModel.v (transcription of ConfigWriter::Emit*, EscapeIcingaString, ConfigObjectUtility::CreateObjectConfig, '
           'config_lexer.ll INITIAL/STRING/HEREDOC/C_COMMENT states, a recogniser for the writer skeleton of config_parser.yy), coq/Cw/CwTxn.v '
           '(abstract transaction model of CreateObject/DeleteObject(Helper)); compile/evaluate/commit outcome of a provoked failure is an input of the model',
           'source facts re-extracted each run (coq/Facts/Facts_c17.v): writer keyword list, identifier regex and regex function, escape table, '
           'import emission, EmitNumber format, lexer keyword list, lexer identifier rules, string escapes, chunk rule',
           'boost::regex semantics of ^/$ (default perl syntax: also at embedded \\n \\r \\f) transcribed by hand; glibc printf("%.6f") is correctly rounded (half-even on the exact value)',
           'hook H1 (virtual clock) for the `version` attribute',
           'glue: FNV-1a-64 digest of file bytes (harness) / of the generated text (OCaml) - the same 6-line function on both sides; the table of reference attributes per type (ocaml/ops_cw.ml refs_of) from which the model dependencies and the oracle closure conditions are derived; ConfigObjectUtility::ComputeNewObjectConfigPath is used by the harness to attribute a file to a tracked (type, name)',
           'cw_restart emulates a restart for the _api package only (unregister run-time objects, compile + commit + activate all object files in one activation context); statically configured objects are not reloaded']
ASSUMPTIONS = ['a number is passed to model and harness as the shortest fixed notation (>= 6 decimals) that reads back as the binary64 under test; that this is what a correctly rounded printf/strtod pair produces is established by the run (byte comparison with the real writer), not inside the Gallina model', 'attribute paths within one request do not overlap (no key is a dotted prefix of another)',
               'HTTP layer / JSON decoding / permissions are not part of this check (C18, C20)']

ALLF = 'vars,address,address6,check_command,max_check_attempts,check_interval,display_name,notes,groups,zone,host_name,name,templates,last_check,state_raw,next_check'
CFGF = 'vars,address,address6,check_command,max_check_attempts,check_interval,display_name,notes,groups,zone,host_name,name'
FT = ' allf=%s cfgf=%s' % (ALLF, CFGF)
SALLF = ALLF.replace('address,address6,', '')
SCFGF = CFGF.replace('address,address6,', '')
SFT = ' allf=%s cfgf=%s' % (SALLF, SCFGF)

# every type the harness can create through ConfigObjectUtility: config fields used by the generator (cfgf) and the
# minimal valid attribute dictionary.  allf = cfgf + one field that exists but is not configurable.
_GRP = 'vars,display_name,groups,zone,name'
_CMD = 'vars,command,arguments,env,timeout,zone,name'
TYPES = {
    'Host': (CFGF, 'last_check'), 'Service': (SCFGF, 'last_check'),
    'User': ('vars,display_name,groups,period,email,pager,enable_notifications,zone,name', 'last_notification'),
    'UserGroup': (_GRP, 'templates'), 'HostGroup': (_GRP, 'templates'), 'ServiceGroup': (_GRP, 'templates'),
    'CheckCommand': (_CMD, 'templates'), 'NotificationCommand': (_CMD, 'templates'), 'EventCommand': (_CMD, 'templates'),
    'TimePeriod': ('vars,display_name,ranges,prefer_includes,excludes,includes,zone,name', 'valid_begin'),
    'Zone': ('parent,endpoints,global,zone,name', 'templates'),
    'ApiUser': ('password,permissions,zone,name', 'templates'),
    'Notification': ('vars,command,interval,period,users,user_groups,host_name,service_name,zone,name', 'last_notification'),
    'Dependency': ('vars,child_host_name,child_service_name,parent_host_name,parent_service_name,disable_checks,disable_notifications,ignore_soft_states,period,zone,name', 'templates'),
    'Comment': ('host_name,service_name,author,text,entry_type,persistent,expire_time,zone,name', 'legacy_id'),
    'Downtime': ('host_name,service_name,author,comment,start_time,end_time,fixed,duration,zone,name', 'legacy_id'),
    'ScheduledDowntime': ('vars,host_name,service_name,author,comment,ranges,fixed,duration,zone,name', 'templates'),
}
SIMPLE_TYPES = ['Host', 'User', 'UserGroup', 'HostGroup', 'ServiceGroup', 'CheckCommand', 'NotificationCommand', 'EventCommand', 'TimePeriod', 'Zone', 'ApiUser']
COMPOSITE3 = ['Notification', 'Dependency', 'Comment', 'Downtime', 'ScheduledDowntime']
COMPOSITE = ['Service'] + COMPOSITE3


def ft(ty):
    cfgf, extra = TYPES[ty]
    return ' allf=%s,%s cfgf=%s' % (cfgf, extra, cfgf)


def valid_attrs(ty, parent_host='h0'):
    """minimal attribute dictionary with which the type can be created in the fixture"""
    if ty in ('Host', 'Service'): return {'check_command': 'cwcmd'}
    if ty in ('CheckCommand', 'NotificationCommand', 'EventCommand'): return {'command': ['/bin/true']}
    if ty == 'TimePeriod': return {'ranges': {}}
    if ty == 'ApiUser': return {'password': 'pw'}
    if ty == 'Notification': return {'command': 'cwncmd', 'users': ['cwuser']}
    if ty == 'Dependency': return {'parent_host_name': parent_host}
    if ty == 'Comment': return {'author': 'cw', 'text': 'txt'}
    if ty == 'Downtime': return {'author': 'cw', 'comment': 'cmt', 'start_time': Num(2100000000), 'end_time': Num(2100003600)}
    if ty == 'ScheduledDowntime': return {'author': 'cw', 'comment': 'cmt', 'ranges': {}}
    return {}


def variant_attrs(ty, parent_host='h0'):
    """valid attributes that differ from valid_attrs (a duplicate request that differs only in attributes)"""
    a = dict(valid_attrs(ty, parent_host))
    if ty in ('Host', 'Service', 'User', 'UserGroup', 'HostGroup', 'ServiceGroup'): a['display_name'] = 'other "one"'
    elif ty in ('CheckCommand', 'NotificationCommand', 'EventCommand'): a['timeout'] = Num(17)
    elif ty == 'TimePeriod': a['display_name'] = 'x'
    elif ty == 'Zone': a['global'] = True
    elif ty == 'ApiUser': a['password'] = 'other'
    elif ty == 'Notification': a['interval'] = Num(90)
    elif ty == 'Dependency': a['disable_checks'] = True
    elif ty == 'Comment': a['text'] = 'another text'
    elif ty == 'Downtime': a['comment'] = 'another'
    elif ty == 'ScheduledDowntime': a['comment'] = 'another'
    return a


def cr(ty, name, attrs, exp='ok', must=False, extra=''):
    return 'cw_create type=%s name=%s attrs=%s exp=%s%s%s%s' % (ty, hx(name), enc(attrs), exp, ' must=ok' if must else '', extra, ft(ty))


def dl(ty, name, cascade=0):
    return 'cw_delete type=%s name=%s cascade=%d' % (ty, hx(name), cascade)


def static_text(ty, name, parent=None):
    """the declaration of a fixture object as configuration text (plain names only: no escaping needed)"""
    parts = name.split('!')
    comp = ty in COMPOSITE
    L = ['object %s "%s" {' % (ty, parts[-1] if comp else name)]
    if ty in ('Host', 'Service'): L += ['  check_command = "cwcmd"', '  enable_active_checks = false']
    if ty in ('CheckCommand', 'NotificationCommand', 'EventCommand'): L += ['  command = [ "/bin/true" ]']
    if comp:
        hk, sk = ('child_host_name', 'child_service_name') if ty == 'Dependency' else ('host_name', 'service_name')
        L += ['  %s = "%s"' % (hk, parts[0])]
        if ty != 'Service' and len(parts) > 2: L += ['  %s = "%s"' % (sk, parts[1])]
    if ty == 'Notification': L += ['  command = "cwncmd"', '  users = [ "cwuser" ]']
    if ty == 'Dependency': L += ['  parent_host_name = "%s"' % (parent or parts[0])]
    if ty == 'Comment': L += ['  author = "cw"', '  text = "t"']
    if ty == 'Downtime': L += ['  author = "cw"', '  comment = "c"', '  start_time = 2100000000', '  end_time = 2100003600']
    if ty == 'ScheduledDowntime': L += ['  author = "cw"', '  comment = "c"', '  ranges = { }']
    if ty == 'TimePeriod': L += ['  ranges = { }']
    if ty == 'ApiUser': L += ['  password = "pw"']
    return '\n'.join(L + ['}', ''])


def st(ty, name, parent=None, pkg=None):
    """an object that was NOT created through the API: from the main configuration (pkg None) or DEPLOYED through the
    config package `pkg` (a file of a stage of that package, compiled with that package name)"""
    r = 'cw_static type=%s name=%s%s' % (ty, hx(name), (' parent=' + hx(parent)) if parent else '')
    if pkg is not None:
        assert all(c.isalnum() or c in '!_-' for c in name)
        r += ' pkg=%s text=%s' % (hx(pkg) or '-', hx(static_text(ty, name, parent)))
    return r


# valid config package names (ConfigPackageUtility::ValidatePackageName: [A-Za-z0-9_-]+) that are NOT the package `_api`
# although they begin / end with it, differ in case only, or are a proper prefix of it - and unrelated ones
FOREIGN_PKGS = ['_api-import', '_api2', '_apiary', '_api_', '_api-', '_API', '_Api', 'x_api', '-_api', '_ap', '_', 'api', 'production', 'director']

KEYWORDS = ['object', 'template', 'include', 'include_recursive', 'include_zones', 'library', 'null', 'true', 'false', 'const', 'var', 'this',
            'globals', 'locals', 'use', 'using', 'namespace', 'default', 'ignore_on_error', 'current_filename', 'current_line', 'apply', 'to',
            'where', 'import', 'assign', 'ignore', 'function', 'return', 'break', 'continue', 'for', 'if', 'else', 'while', 'throw', 'try',
            'except', 'debugger', 'in']


# ----------------------------------------------------------------------------- value codec
def hx(b):
    if isinstance(b, str):
        b = b.encode('utf-8')
    return b.hex()


class Num:
    """a binary64, written as the shortest fixed notation with at least six decimals that reads back as the same double
    (Python's float formatting and parsing are correctly rounded and independent of the C++ under test)"""
    def __init__(self, x):
        self.x = float(x)

    def enc(self):
        x = self.x
        s = '%.6f' % x
        p = 6
        while float(s) != x and p < 1100:
            p += 1
            s = '%.*f' % (p, x)
        if '.' in s:
            s = s.rstrip('0').rstrip('.')
        if s in ('-0', ''):
            s = '0'
        return s

    def decimals(self):
        s = self.enc()
        return len(s.split('.')[1]) if '.' in s else 0


def bkey(k):
    return k.encode('utf-8') if isinstance(k, str) else k


def enc(v):
    if v is None: return 'n'
    if v is True: return 't'
    if v is False: return 'f'
    if isinstance(v, Num): return 'd' + v.enc() + ';'
    if isinstance(v, (int, float)): return 'd' + Num(v).enc() + ';'
    if isinstance(v, (str, bytes)): return 's' + hx(v) + ';'
    if isinstance(v, list): return 'a' + ''.join(enc(x) for x in v) + ';'
    if isinstance(v, dict):
        return 'o' + ''.join(hx(k) + ':' + enc(x) for k, x in sorted(v.items(), key=lambda kv: bkey(kv[0]))) + ';'
    raise ValueError(v)


def dec(s, p=0):
    """-> (python structure with numbers as decimal strings, next pos)"""
    c = s[p]; p += 1
    if c == 'n': return None, p
    if c == 't': return True, p
    if c == 'f': return False, p
    if c == 'd':
        e = s.index(';', p); return ('num', s[p:e]), e + 1
    if c == 's':
        e = s.index(';', p); return bytes.fromhex(s[p:e]), e + 1
    if c == 'a':
        l = []
        while s[p] != ';':
            v, p = dec(s, p); l.append(v)
        return l, p + 1
    if c == 'o':
        d = []
        while s[p] != ';':
            e = s.index(':', p); k = bytes.fromhex(s[p:e]); v, p = dec(s, e + 1); d.append((k, v))
        return ('dict', d), p + 1
    raise ValueError(s[p - 1:])


def walk(v):
    yield v
    if isinstance(v, list):
        for x in v:
            yield from walk(x)
    elif isinstance(v, tuple) and v[0] == 'dict':
        for k, x in v[1]:
            yield k
            yield from walk(x)


# ----------------------------------------------------------------------------- alphabets
SPECIAL = ['"', '\\', '\n', '\r', '\t', '\f', '\b', '$', '}}}', '{{{', '*/', '/*', '//', '#', '@', "'", ' ', '=', '{', '}', '[', ']', ',', ';', '.', '!',
           '\\n', '\\"', '\\\\', '\\0', '\\101', '%', '(', ')', '-', '+', '<', '>', '\x7f', '\x01', 'é', '€', '\U0001F600', ' ', '\x85'.encode('latin1').decode('latin1')]
WORDS = ['a', 'b', 'x', 'z', 'abc', 'A_1', '_u', 'vars', 'name', 'x1', '9a', 'log', 'globals', 'CwProbe'] + KEYWORDS


def rstr(rnd, maxlen=12, special=0.55):
    n = rnd.choice((0, 1, 1, 2, 3, 5, 8, maxlen))
    out = []
    for _ in range(n):
        r = rnd.random()
        if r < special:
            out.append(rnd.choice(SPECIAL))
        elif r < special + 0.25:
            out.append(rnd.choice(WORDS))
        else:
            out.append(chr(rnd.randint(32, 126)))
    return ''.join(out)


def rident(rnd):
    r = rnd.random()
    if r < 0.3:
        return rnd.choice(KEYWORDS)
    if r < 0.4:
        return rnd.choice(KEYWORDS) + rnd.choice(('', '_', '1', 'x'))
    first = rnd.choice('abcxyzABZ_')
    return first + ''.join(rnd.choice('abcxyz019_AZ') for _ in range(rnd.choice((0, 1, 2, 5, 9))))


def rline(rnd):
    """one line of a multi-line key: identifier-like, statement-like, keyword-like, or junk"""
    r = rnd.random()
    if r < 0.35: return rident(rnd)
    if r < 0.55: return '%s = %s' % (rident(rnd), rnd.choice(('1', '"v"', 'true', '{ }')))
    if r < 0.65: return 'CwProbe = "pwn"'
    if r < 0.72: return 'globals.CwProbe = "pwn"'
    if r < 0.8: return 'log("x")'
    return rstr(rnd, 6)


def rkey(rnd):
    r = rnd.random()
    if r < 0.30: return rident(rnd)
    if r < 0.55:
        sep = rnd.choice(('\n', '\n', '\r', '\f', '\r\n', '\n\n'))
        return sep.join(rline(rnd) for _ in range(rnd.choice((2, 2, 3, 4))))
    if r < 0.65: return rident(rnd) + rnd.choice(('\n', '\r', ' ', '-', '.')) + rnd.choice(('', rident(rnd)))
    return rstr(rnd, 8)


def rnum(rnd):
    r = rnd.random()
    if r < 0.18: return float(rnd.choice((0, 1, -1, 2, 10, 255, 256, 65535, 3600, 86400, 2 ** 31, 2 ** 32, 2 ** 53, 2 ** 53 - 1, -2 ** 53, 2 ** 63, 2 ** 64)))
    if r < 0.30: return rnd.randint(-10 ** 6, 10 ** 6) / 10.0 ** rnd.randint(0, 6)          # at most six decimals (often inexact in binary)
    if r < 0.42: return rnd.randint(-2000, 2000) / 128.0                                       # exact ties for half-even
    if r < 0.52: return rnd.choice((1, -1)) * 2.0 ** -rnd.randint(1, 40)
    if r < 0.62: return rnd.choice((1, -1, 3, 7)) * 10.0 ** rnd.randint(-12, 25)
    if r < 0.70: return rnd.choice((0.1234567, 1e-7, 12345678.123456789, 0.0000005, 0.0000015, 0.9999995, 9.9999995, 999999.9999995, -0.0, 1e-320, 5e-324, 1.7976931348623157e308, 0.1, 0.2, 0.3))
    if r < 0.85: return rnd.uniform(-1000, 1000)
    return float(rnd.randint(-10 ** 9, 10 ** 9))


def rvalue(rnd, depth=0, nul=False):
    r = rnd.random()
    if depth >= 3: r = r * 0.6
    if r < 0.08: return None
    if r < 0.16: return rnd.random() < 0.5
    if r < 0.36: return Num(rnum(rnd))
    if r < 0.60:
        s = rstr(rnd)
        if nul and rnd.random() < 0.5:
            i = rnd.randint(0, len(s)); s = s[:i] + '\0' + s[i:]
        return s
    if r < 0.78: return [rvalue(rnd, depth + 1, nul) for _ in range(rnd.choice((0, 1, 2, 3)))]
    return {rkey(rnd): rvalue(rnd, depth + 1, nul) for _ in range(rnd.choice((0, 1, 2, 3)))}


def has_inexact(v):
    if isinstance(v, Num): return v.decimals() > 6
    if isinstance(v, list): return any(has_inexact(x) for x in v)
    if isinstance(v, dict): return any(has_inexact(x) for x in v.values())
    return False


def strip_inexact(v, rnd):
    return v        # every binary64 round-trips since the EmitNumber fix


def strip_inexact_old(v, rnd):
    if isinstance(v, Num): return Num(rnd.randint(-10 ** 6, 10 ** 6) / 64.0) if v.decimals() > 6 else v
    if isinstance(v, list): return [strip_inexact(x, rnd) for x in v]
    if isinstance(v, dict): return {k: strip_inexact(x, rnd) for k, x in v.items()}
    return v


def case(lines, fam):
    return {'lines': ['now %d' % T0] + lines, 'tags': {'family': fam}}


HOSTNAMES = ['h1', 'h2', 'web-01', 'h"q', 'h\\b', 'h\nl', 'h$x$', 'h}}}', 'h*/x', 'h//c', 'h#c', 'hé€', 'if', 'object', 'h a', "h'", 'h{{{', 'h\tt', 'h%41', 'h<>:|?*']
SVCNAMES = ['s1', 'ping', 's"q', 's\\', 's\nl', 's}}}', 's#', 'in', 'sé']
TMPL_BAD = ['cwtmpl"\n\tvars = {\n\t\tinjected = "yes"\n\t}\n\tnotes = "pwn', 'cwtmpl"\n\tnotes = "pwn', 'cwtmpl"\n\tvars = {\n\t}\n\tdisplay_name = "x']


def even_dollars(v):
    """custom variables are validated as macro strings: keep `$` balanced in the transaction families"""
    if isinstance(v, str): return v + '$' if v.count('$') % 2 else v
    if isinstance(v, list): return [even_dollars(x) for x in v]
    if isinstance(v, dict): return {k: even_dollars(x) for k, x in v.items()}
    return v


def no_dollars(v):
    if isinstance(v, str): return v.replace('$', 'S')
    if isinstance(v, list): return [no_dollars(x) for x in v]
    if isinstance(v, dict): return {k: no_dollars(x) for k, x in v.items()}
    return v


def host_attrs(rnd, inexact_ok, nul_ok):
    """valid Host attributes with non-overlapping paths"""
    a = {'check_command': 'cwcmd'}
    r = rnd.random()
    nul = nul_ok and rnd.random() < 0.5
    if r < 0.45:
        a['vars'] = {rkey(rnd): rvalue(rnd, 1, nul) for _ in range(rnd.choice((0, 1, 2, 3)))}
    elif r < 0.85:
        seen = set()
        for _ in range(rnd.choice((1, 2, 3))):
            k1 = rkey(rnd).replace('.', '_')
            if rnd.random() < 0.3:
                k1 = k1 + '.' + rkey(rnd).replace('.', ':')
            if rnd.random() < 0.1:
                k1 = k1 + '.'
            top = k1.split('.')[0]
            if top in seen:
                continue
            seen.add(top)
            a['vars.' + k1] = rvalue(rnd, 1, nul)
    for f in ('address', 'display_name', 'notes'):
        if rnd.random() < 0.3:
            a[f] = rstr(rnd) or 'x'
    a = even_dollars(a)
    if rnd.random() < 0.3:
        a['max_check_attempts'] = Num(rnd.randint(1, 9))
    if rnd.random() < 0.3:
        a['check_interval'] = Num(rnd.choice((60, 300, 0.5, 12.25, 0.1234567, 1.0000005, 30.000001)))
    if nul:
        a = no_dollars(a)
    if not inexact_ok or nul:
        ci = a.get('check_interval')
        a = strip_inexact(a, rnd)
        if ci is not None:
            a['check_interval'] = ci
    return a


def gen_txn(rnd, inexact_ok=True, nul_ok=False):
    """create/delete/cascade sequence; the generator mirrors which objects exist to set exp= for Services"""
    lines = ['cw_global name=CwProbe val=initial']
    hosts = rnd.sample(HOSTNAMES, 3)
    exist = {}      # (type, name) -> runtime?
    n = rnd.randint(2, 6)
    for _ in range(n):
        r = rnd.random()
        h = rnd.choice(hosts)
        if r < 0.40:
            attrs = host_attrs(rnd, inexact_ok, nul_ok)
            exp = 'ok'
            f = rnd.random()
            tm = ''
            if f < 0.10:
                attrs[rnd.choice(('nosuchattr', 'last_check', 'state_raw', 'name', 'nosuch.sub', 'templates'))] = 'x'           # invalid attribute
            elif f < 0.18:
                del attrs['check_command']; exp = 'commit'                                                          # validation: required attribute
            elif f < 0.24:
                attrs['check_interval'] = Num(0); exp = 'commit'                                                    # validation: interval > 0
            elif f < 0.32:
                attrs['check_command'] = rnd.choice(('nosuch', 'cw"cmd', '')); exp = 'commit'                       # dangling reference
            elif f < 0.38:
                attrs['groups'] = ['nosuchgroup']; exp = 'commit'                                                   # dangling reference
            elif f < 0.44:
                tm = ' tmpl=' + hx('cwtmpl')
            elif f < 0.48:
                tm = ' tmpl=' + hx('nosuchtmpl'); exp = 'commit'
            elif f < 0.52:
                tm = ' tmpl=' + hx(rnd.choice(TMPL_BAD))
            lines.append('cw_create type=Host name=%s attrs=%s exp=%s%s%s' % (hx(h), enc(attrs), exp, tm, FT))
            bad_attr = any(k.split('.')[0] not in CFGF.split(',') or k == 'name' for k in attrs)
            if exp == 'ok' and not bad_attr and ('Host', h) not in exist:
                exist[('Host', h)] = True
        elif r < 0.62:
            s = rnd.choice(SVCNAMES)
            full = h + '!' + s
            if rnd.random() < 0.06:
                full += '!' + rnd.choice(('x', 's1', ''))
            attrs = {'check_command': 'cwcmd'}
            if rnd.random() < 0.5:
                attrs['vars'] = {rkey(rnd): even_dollars(strip_inexact(rvalue(rnd, 2), rnd))}
            exp = 'ok' if ('Host', h) in exist else 'commit'
            if rnd.random() < 0.1:
                del attrs['check_command']; exp = 'commit'
            # a name-part attribute next to the composed name: consistent / contradicting (existing parent) / contradicting (no such parent)
            q = rnd.random()
            if q < 0.10:
                attrs['host_name'] = h
            elif q < 0.25:
                others = [x[1] for x in exist if x[0] == 'Host' and x[1] != h]
                attrs['host_name'] = rnd.choice(others) if others else rnd.choice(hosts)
            elif q < 0.32:
                attrs['host_name'] = 'nosuchhost'
            lines.append('cw_create type=Service name=%s attrs=%s exp=%s%s' % (hx(full), enc(attrs), exp, SFT))
            eff = '!'.join(full.split('!')[:2])
            if exp == 'ok' and ('Service', eff) not in exist and ('Service', full) not in exist:
                exist[('Service', eff)] = True
        elif r < 0.70:
            if ('Host', h) not in exist:
                exist[('Host', h)] = False
            lines.append('cw_static type=Host name=%s' % hx(h))
        elif r < 0.75:
            s = rnd.choice(('st1', 'st"2'))
            if ('Host', h) in exist and ('Service', h + '!' + s) not in exist:
                exist[('Service', h + '!' + s)] = False
            lines.append('cw_static type=Service name=%s' % hx(h + '!' + s))
        elif r < 0.82 and exist:
            # the name of an object that exists (run-time or static) requested again, with fresh attributes
            k = rnd.choice(sorted(exist))
            if k[0] == 'Host':
                lines.append('cw_create type=Host name=%s attrs=%s exp=ok%s' % (hx(k[1]), enc(host_attrs(rnd, inexact_ok, nul_ok)), FT))
            else:
                lines.append('cw_create type=Service name=%s attrs=%s exp=ok%s' % (hx(k[1]), enc({'check_command': 'cwcmd', 'notes': rstr(rnd) or 'n'}), SFT))
        else:
            casc = rnd.randint(0, 1)
            if rnd.random() < 0.7 or not exist:
                lines.append('cw_delete type=Host name=%s cascade=%d' % (hx(h), casc))
                k = ('Host', h)
                if exist.get(k) is True:
                    kids = [x for x in exist if x[0] == 'Service' and x[1].startswith(h + '!')]
                    if casc or not kids:
                        for x in kids: del exist[x]
                        del exist[k]
            else:
                k = rnd.choice(sorted(exist))
                lines.append('cw_delete type=%s name=%s cascade=%d' % (k[0], hx(k[1]), casc))
                if exist.get(k) is True:
                    kids = [x for x in exist if k[0] == 'Host' and x[0] == 'Service' and x[1].startswith(k[1] + '!')]
                    if casc or not kids:
                        for x in kids: del exist[x]
                        del exist[k]
    return lines


def generate(seed, tier):
    rnd = random.Random(seed)
    scale = {'quick': 1, 'thorough': 8, 'search': 3}.get(tier, 1)
    cases = []
    # A. strings
    fixed = ['', '"', '\\', '\n', '\\n', '\\"', 'a"b\\c\nd\te$f', '}}}', '{{{x}}}', '*/', '/* */', '//', '#', '\r\n', '\x08\x0c', '$host.name$', 'é€\U0001F600', '\\101', '\\0', "it's"]
    for s in fixed:
        cases.append(case(['cw_str s=' + (hx(s) or '-'), 'cw_rt v=' + enc(s)], 'string-fixed'))
    for _ in range(700 * scale):
        s = rstr(rnd, 20, rnd.choice((0.3, 0.6, 0.9)))
        cases.append(case(['cw_str s=' + (hx(s) or '-'), 'cw_rt v=' + enc(s)], 'string-random'))
    for _ in range(30 * scale):
        s = rstr(rnd, 10)
        i = rnd.randint(0, len(s))
        s = s[:i] + '\0' + s[i:]
        cases.append(case(['cw_str s=' + hx(s), 'cw_rt v=' + enc(s)], 'string-nul'))
    # B. identifiers
    for k in KEYWORDS + ['abc', 'A_1', '_', '9a', '', 'a b', 'a-b', 'a.b', 'x = 1\nz', 'x\ry', 'x\x0cy', 'x\n', '\nx', 'a b\nc d', '1\n2', 'é', 'x\x85y', 'if\nx', 'x\nif', 'x\r\ny']:
        cases.append(case(['cw_id s=%s ia=1' % (hx(k) or '-'), 'cw_id s=%s ia=0' % (hx(k) or '-'), 'cw_rt v=' + enc({k: 1})], 'ident-fixed'))
    for _ in range(600 * scale):
        k = rkey(rnd)
        cases.append(case(['cw_id s=%s ia=%d' % (hx(k) or '-', rnd.randint(0, 1)), 'cw_rt v=' + enc({k: rnd.choice((1, 'v', None))})], 'ident-random'))
    # C. values
    for x in (0.1234567, 1e-7, 12345678.123456789, 0.0078125, 0.0234375, 0.5, -0.0, 1e22, 1e300, 5e-324, 2 ** 53 + 2.0, 0.0000005, 0.9999995):
        cases.append(case(['cw_val v=' + enc(Num(x)), 'cw_rt v=' + enc(Num(x)), 'cw_rt v=' + enc([Num(x), Num(-x)])], 'number-fixed'))
    for _ in range(500 * scale):
        x = Num(rnum(rnd))
        cases.append(case(['cw_val v=' + enc(x), 'cw_rt v=' + enc(x)], 'number-random'))
    for _ in range(900 * scale):
        v = rvalue(rnd)
        if has_inexact(v) and rnd.random() < 0.7:
            v = strip_inexact(v, rnd)
        cases.append(case(['cw_val v=%s ind=%d' % (enc(v), rnd.randint(0, 3)), 'cw_rt v=' + enc(v)], 'value-random'))
    for _ in range(40 * scale):
        v = strip_inexact(rvalue(rnd, 0, True), rnd)
        cases.append(case(['cw_rt v=' + enc(v)], 'value-nul'))
    # D. object declarations (pure emission through CreateObjectConfig)
    for _ in range(500 * scale):
        ty = rnd.choice(('Host', 'Host', 'Service'))
        nm = rnd.choice(HOSTNAMES + [rstr(rnd)])
        if ty == 'Service':
            nm = nm + rnd.choice(('!', '!', '!', '', '!x!')) + rnd.choice(SVCNAMES)
        attrs = host_attrs(rnd, rnd.random() < 0.3, False)
        if rnd.random() < 0.1:
            attrs[rnd.choice(('nosuchattr', 'last_check', 'name', 'zone'))] = 'x'
        ex = ''
        if rnd.random() < 0.3:
            ex += ' tmpl=' + ','.join(hx(t) for t in rnd.sample(['cwtmpl', 'generic-host', 't"q', 't\\', 'a b'] + TMPL_BAD, rnd.randint(1, 2)))
        if rnd.random() < 0.2:
            ex += ' ign=1'
        if ty == 'Service':
            attrs.pop('address', None)
            q = rnd.random()
            if q < 0.15:
                attrs['host_name'] = nm.split('!')[0]
            elif q < 0.40:
                attrs['host_name'] = rnd.choice(HOSTNAMES)
        cases.append(case(['cw_item type=%s name=%s attrs=%s%s%s' % (ty, hx(nm) or '-', enc(attrs), ex, FT if ty == 'Host' else SFT)], 'item'))
    # E. raw literal texts for the lexer model
    raws = ['"a\\101b"', '"\\0419"', '"\\8"', '"\\400"', '"\\377"', '"\\1234"', '"\\12x"', '"\\x"', '"a\\\nb"', '"a\nb"', '"abc', '{{{a"b\n}} }}}', '{{{}}}', '{{{ }} } }}}',
            '{{{x', '"a" /* c */', '"a" // c', '"a" # c', '/* x */ "a"', '/* x "a"', '5', '5.5', '5.', '5.x', '05', '5 /* */', '-5', '- 5',
            'true', 'false', 'null', 'nullx', 'truefalse', '[ ]', '[]', '[ 1, 2 ]', '[1,2]', '[ 1, ]', '{\n}', '{\n\ta = 1\n}', '{\n\t@if = 1\n}', '{\n\tif = 1\n}', '{\n\t"a b" = 1\n}',
            '{\n\ta = 1\n\ta = 2\n}', '[ "}}}", "*/" ]', '"\\t\\r\\b\\f\\n\\\\\\""', "'a'", '"a""b"', '"\\', '"a\\', '5.5.5', '1e5', '.5', '@x', '"é"', '"a\rb"']
    for t in raws:
        cases.append(case(['cw_rtraw t=' + hx(t)], 'raw-fixed'))
    for _ in range(300 * scale):
        body = ''.join(rnd.choice(['a', 'b', '\\', '\\', '\\n', '\\"', '\\\\', '0', '1', '7', '8', '9', '\\1', '\\12', '\\123', '\\400', ' ', '\t', 'x']) for _ in range(rnd.randint(0, 8)))
        t = rnd.choice(['"%s"', '"%s" /* c */', '{{{%s}}}', '[ "%s" ]'])
        cases.append(case(['cw_rtraw t=' + hx(t % body)], 'raw-random'))
    # F. transactions
    for _ in range(500 * scale):
        cases.append(case(gen_txn(rnd, inexact_ok=False), 'txn'))
    for _ in range(60 * scale):
        cases.append(case(gen_txn(rnd, inexact_ok=True), 'txn-inexact-numbers'))
    for _ in range(40 * scale):
        cases.append(case(gen_txn(rnd, inexact_ok=False, nul_ok=True), 'txn-nul'))
    # H. composed names: a supplied name-part attribute must not redirect the object to another parent
    for other, label in (('np2', 'existing'), ('nosuchhost', 'missing'), ('np1', 'consistent')):
        for casc in (0, 1):
            cases.append(case(['cw_global name=CwProbe val=initial',
                               'cw_create type=Host name=%s attrs=%s exp=ok%s' % (hx('np1'), enc({'check_command': 'cwcmd'}), FT),
                               'cw_create type=Host name=%s attrs=%s exp=ok%s' % (hx('np2'), enc({'check_command': 'cwcmd'}), FT),
                               'cw_item type=Service name=%s attrs=%s%s' % (hx('np1!conflict'), enc({'check_command': 'cwcmd', 'host_name': other}), SFT),
                               'cw_create type=Service name=%s attrs=%s exp=ok%s' % (hx('np1!conflict'), enc({'check_command': 'cwcmd', 'host_name': other}), SFT),
                               'cw_delete type=Service name=%s cascade=0' % hx('np2!conflict'),
                               'cw_delete type=Host name=%s cascade=%d' % (hx('np1'), casc),
                               'cw_delete type=Host name=%s cascade=%d' % (hx('np2'), casc)], 'name-part-' + label))
    # I. a creation rejected in the commit phase must leave the name free: the same name, requested validly, is created
    for kind, bad in (('validation', {'check_interval': Num(0), 'check_command': 'cwcmd'}), ('required', {'vars': {'a': 1}}),
                      ('dangling-command', {'check_command': 'nosuchcmd'}), ('dangling-group', {'check_command': 'cwcmd', 'groups': ['nosuchgroup']}),
                      ('unknown-template', {'check_command': 'cwcmd'})):
        for nm in ('retry', 'r"e\ntry'):
            tm = (' tmpl=' + hx('nosuchtmpl')) if kind == 'unknown-template' else ''
            cases.append(case(['cw_global name=CwProbe val=initial',
                               'cw_create type=Host name=%s attrs=%s exp=commit%s%s' % (hx(nm), enc(bad), tm, FT),
                               'cw_create type=Host name=%s attrs=%s exp=ok must=ok%s' % (hx(nm), enc({'check_command': 'cwcmd', 'vars': {'k': 'v'}}), FT),
                               'cw_delete type=Host name=%s cascade=0' % hx(nm),
                               'cw_create type=Host name=%s attrs=%s exp=ok must=ok%s' % (hx(nm), enc({'check_command': 'cwcmd'}), FT)], 'retry-after-' + kind))
    # J. duplicate names, for every type the API can create: the second request must be refused and must not touch
    #    the file (name or bytes) of the object that exists; same attributes / other attributes / first object from
    #    static configuration; a name differing only in case is a different object; create - delete - create
    G0 = 'cw_global name=CwProbe val=initial'
    for ty in SIMPLE_TYPES + COMPOSITE:
        for nm0 in ('dupA', 'd"u\\p'):
            pre, post, par = [], [], 'dp'
            if ty in COMPOSITE:
                pre = [cr('Host', 'dh', valid_attrs('Host'), must=True), cr('Service', 'dh!ds', valid_attrs('Service'), must=True)]
                post = [dl('Host', 'dh', 1)]
            if ty == 'Dependency':
                pre.append(cr('Host', 'dp', valid_attrs('Host'), must=True)); post.append(dl('Host', 'dp', 1))
            names = [nm0] if ty not in COMPOSITE else (['dh!' + nm0] if ty == 'Service' else ['dh!' + nm0, 'dh!ds!' + nm0])
            for nm in names:
                va, vb = valid_attrs(ty, par), variant_attrs(ty, par)
                upper = nm[:-len(nm0)] + nm0.upper()
                # first object created at run time
                cases.append(case([G0] + pre + [
                    cr(ty, nm, va, must=True),
                    cr(ty, nm, va),                       # same request again: "already exists"
                    cr(ty, nm, vb),                       # differs only in attributes
                    cr(ty, upper, vb, must=True),         # differs in case: another object, another file
                    cr(ty, nm, va),
                    dl(ty, nm, 0),
                    cr(ty, nm, vb, must=True),            # the name is free again
                    cr(ty, nm, va),
                    dl(ty, upper, 0), dl(ty, nm, 0)] + post, 'dup-runtime-' + ty))
                # first object from static configuration: refused, and the static object cannot be deleted
                cases.append(case([G0] + pre + [
                    st(ty, nm, par if ty == 'Dependency' else None),
                    cr(ty, nm, va),
                    cr(ty, nm, vb),
                    dl(ty, nm, 0), dl(ty, nm, 1),
                    cr(ty, upper, va, must=True),
                    cr(ty, nm, va)] + post, 'dup-static-' + ty))
    # K. cascading deletes over a real dependency graph: host <- services <- notifications / dependencies / comments /
    #    downtimes / scheduled downtimes, a run-time check command used by a host, static children below run-time
    #    parents; refused without cascade; with cascade exactly the closure and exactly its files go
    for i in range(60 * scale):
        L = [G0]
        hs = ['ca', 'cb']
        use_cc = rnd.random() < 0.5
        if use_cc:
            L.append(cr('CheckCommand', 'rcc', valid_attrs('CheckCommand'), must=True))
        objs = []
        for h in hs:
            a = valid_attrs('Host')
            if use_cc and h == 'cb': a['check_command'] = 'rcc'
            L.append(cr('Host', h, a, must=True) if rnd.random() < 0.85 else st('Host', h))
            objs.append(('Host', h))
            for sv in rnd.sample(['s1', 's2', 's"3'], rnd.randint(0, 2)):
                L.append(cr('Service', h + '!' + sv, valid_attrs('Service'), must=True) if rnd.random() < 0.8 else st('Service', h + '!' + sv))
                objs.append(('Service', h + '!' + sv))
        svcs = [n for t, n in objs if t == 'Service']
        for _ in range(rnd.randint(1, 5)):
            ty = rnd.choice(COMPOSITE3)
            base = rnd.choice(hs + svcs)
            if ty == 'Dependency':           # children below cb, parents below ca: no dependency cycle
                base = rnd.choice(['cb'] + [x for x in svcs if x.startswith('cb!')])
            nm = base + '!' + rnd.choice(('x1', 'x2', 'x y'))
            if (ty, nm) in objs: continue
            a = valid_attrs(ty, 'ca')
            psvcs = [x for x in svcs if x.startswith('ca!')]
            if ty == 'Dependency' and psvcs and rnd.random() < 0.5:
                ps = rnd.choice(psvcs)
                a = {'parent_host_name': ps.split('!')[0], 'parent_service_name': ps.split('!')[1]}
            if rnd.random() < 0.2 and ty != 'Dependency':
                L.append(st(ty, nm))
            else:
                L.append(cr(ty, nm, a, must=True))
            objs.append((ty, nm))
        for _ in range(rnd.randint(1, 4)):
            t, n = rnd.choice(objs + ([('CheckCommand', 'rcc')] if use_cc else []))
            L.append(dl(t, n, rnd.randint(0, 1)))
        # a duplicate after the deletes, then everything goes
        # (only Host / Service: a deleted Service stays in its host's m_Services map - Host::RemoveService is never called -
        #  so a Comment/Downtime/... requested for a deleted service is accepted by the code; see notes, not exercised here)
        t, n = rnd.choice([o for o in objs if o[0] in ('Host', 'Service')])
        L.append(cr(t, n, valid_attrs(t)))
        for h in hs: L.append(dl('Host', h, 1))
        if use_cc: L.append(dl('CheckCommand', 'rcc', 1))
        cases.append(case(L, 'cascade-graph'))
    # fixed shapes: chain of depth 3, diamond (a notification reached through host and service), dependency between two services
    cases.append(case([G0, cr('Host', 'k', valid_attrs('Host'), must=True), cr('Service', 'k!s', valid_attrs('Service'), must=True),
                       cr('Notification', 'k!s!n', valid_attrs('Notification'), must=True), cr('Comment', 'k!s!c', valid_attrs('Comment'), must=True),
                       cr('Downtime', 'k!d', valid_attrs('Downtime'), must=True),
                       dl('Service', 'k!s', 0), dl('Host', 'k', 0), dl('Service', 'k!s', 1), dl('Host', 'k', 1)], 'cascade-chain'))
    cases.append(case([G0, cr('Host', 'k', valid_attrs('Host'), must=True), cr('Service', 'k!s', valid_attrs('Service'), must=True),
                       cr('Service', 'k!t', valid_attrs('Service'), must=True),
                       cr('Dependency', 'k!s!d', {'parent_host_name': 'k', 'parent_service_name': 't'}, must=True),
                       dl('Service', 'k!t', 0), dl('Service', 'k!t', 1), dl('Host', 'k', 1)], 'cascade-dependency'))
    cases.append(case([G0, cr('CheckCommand', 'rcc', valid_attrs('CheckCommand'), must=True),
                       cr('Host', 'k', {'check_command': 'rcc'}, must=True), cr('Service', 'k!s', {'check_command': 'rcc'}, must=True),
                       st('Service', 'k!st'), dl('CheckCommand', 'rcc', 0), dl('CheckCommand', 'rcc', 1),
                       cr('Host', 'k', {'check_command': 'rcc'}, exp='commit'), cr('Host', 'k', valid_attrs('Host'), must=True), dl('Host', 'k', 0)], 'cascade-command'))
    # K2. "created at runtime" = the package _api EXACTLY.  Objects deployed through OTHER config packages - names that
    #     begin / end with `_api`, differ in case, are a proper prefix, unrelated names - and from the main configuration:
    #     every delete (with / without cascade) must be refused, object, item and the file in that package's stage stay;
    #     a runtime child below such a parent can be deleted; a cascading delete of a runtime parent unregisters a child
    #     deployed through another package but leaves that package's file alone.  A file lying in the _api package when
    #     the configuration is loaded (what a restart finds) IS a runtime object: deletable, file removed.
    pk_types = ['Host', 'HostGroup', 'User', 'CheckCommand', 'TimePeriod', 'Zone']
    for pi, pkg in enumerate(FOREIGN_PKGS):
        ty = pk_types[pi % len(pk_types)]
        L = [G0, cr('Host', 'rh', valid_attrs('Host'), must=True),
             st('Host', 'ph', pkg=pkg), st('Service', 'ph!ps', pkg=pkg), st('Service', 'rh!fs', pkg=pkg)]
        if ty != 'Host': L.append(st(ty, 'pobj', pkg=pkg))
        L += [cr('Service', 'ph!rs', valid_attrs('Service'), must=True), cr('Comment', 'ph!ps!rc', valid_attrs('Comment'), must=True)]
        L += [st('Comment', 'ph!fc', pkg=pkg), st('Host', 'mh')]
        L += [dl('Host', 'ph', 0), dl('Host', 'ph', 1), dl('Service', 'ph!ps', 0), dl('Service', 'ph!ps', 1),
              dl('Comment', 'ph!fc', 0), dl('Comment', 'ph!fc', 1), dl('Service', 'rh!fs', 0), dl('Service', 'rh!fs', 1),
              dl('Host', 'mh', 0), dl('Host', 'mh', 1)]
        if ty != 'Host': L += [dl(ty, 'pobj', 0), dl(ty, 'pobj', 1)]
        L += [cr('Host', 'ph', valid_attrs('Host')),                       # the name is taken: refused, the package's file untouched
              dl('Comment', 'ph!ps!rc', 0), dl('Service', 'ph!rs', 1),      # runtime children of deployed parents: deletable
              dl('Host', 'rh', 0), dl('Host', 'rh', 1),                     # cascade unregisters rh!fs, its file stays in the other package
              cr('Host', 'rh', valid_attrs('Host'), must=True), dl('Host', 'rh', 0)]
        cases.append(case(L, 'pkg-foreign'))
    for ty in pk_types:
        nm = 'ao'
        cases.append(case([G0, st(ty, nm, pkg='_api'), cr(ty, nm, valid_attrs(ty)), dl(ty, nm, 0), dl(ty, nm, 0),
                           cr(ty, nm, valid_attrs(ty), must=True), dl(ty, nm, 1)], 'pkg-api-file'))
    for i in range(40 * scale):
        pk = rnd.sample(FOREIGN_PKGS, 2) + ['_api', None]
        L = [G0]
        objs = []
        for h in ('qa', 'qb', 'qc'):
            w = rnd.choice(pk + ['create'])
            L.append(cr('Host', h, valid_attrs('Host'), must=True) if w == 'create' else st('Host', h, pkg=w))
            objs.append(('Host', h))
            for sv in rnd.sample(['s1', 's2'], rnd.randint(0, 2)):
                w = rnd.choice(pk + ['create'])
                L.append(cr('Service', h + '!' + sv, valid_attrs('Service'), must=True) if w == 'create' else st('Service', h + '!' + sv, pkg=w))
                objs.append(('Service', h + '!' + sv))
                if rnd.random() < 0.4:
                    w = rnd.choice(pk + ['create'])
                    t3 = rnd.choice(('Comment', 'Downtime', 'Notification'))
                    L.append(cr(t3, h + '!' + sv + '!x', valid_attrs(t3), must=True) if w == 'create' else st(t3, h + '!' + sv + '!x', pkg=w))
                    objs.append((t3, h + '!' + sv + '!x'))
        for _ in range(rnd.randint(3, 8)):
            t, n = rnd.choice(objs)
            L.append(dl(t, n, rnd.randint(0, 1)))
        cases.append(case(L, 'pkg-random'))
    # L. failures of every type: invalid attribute, non-configurable attribute, missing parent, bad name
    for ty in SIMPLE_TYPES + COMPOSITE:
        va = valid_attrs(ty, 'fp')
        nm = 'fx' if ty not in COMPOSITE else 'fh!fx'
        L = [G0, cr('Host', 'fh', valid_attrs('Host'), must=True), cr('Host', 'fp', valid_attrs('Host'), must=True)]
        bad1 = dict(va); bad1['nosuchattr'] = 'x'
        bad2 = dict(va); bad2[TYPES[ty][1]] = 'x'
        L += [cr(ty, nm, bad1), cr(ty, nm, bad2)]
        if ty in COMPOSITE:
            L += [cr(ty, 'nohost!fx', va, exp='commit'), cr(ty, 'nobang', va)]
        if ty in COMPOSITE3:
            L += [cr(ty, 'fh!nosvc!fx', va, exp='commit')]
        L += [cr(ty, nm, va, must=True), dl('Host', 'fh', 1), dl('Host', 'fp', 1)]
        cases.append(case(L, 'fail-' + ty))
    # M. names with more parts than the composer of the type uses (known finding composite-name-extra-parts until the
    #    proposed fix is in; Service: must be refused cleanly)
    for ty in COMPOSITE3:
        for nm in ('eh!es!en!x', 'eh!!en', 'eh!es!en!'):
            cases.append(case([G0, cr('Host', 'eh', valid_attrs('Host'), must=True), cr('Service', 'eh!es', valid_attrs('Service'), must=True),
                               cr('Host', 'ep', valid_attrs('Host'), must=True),
                               cr(ty, nm, valid_attrs(ty, 'ep')), dl(ty, nm, 0), dl('Host', 'eh', 1), dl('Host', 'ep', 1)], 'extra-parts-' + ty))
    cases.append(case([G0, cr('Host', 'eh', valid_attrs('Host'), must=True), cr('Service', 'eh!es!x', valid_attrs('Service')),
                       cr('Service', 'eh!!x', valid_attrs('Service')), dl('Host', 'eh', 1)], 'extra-parts-Service'))
    # G. aimed at F-C17-a: multi-line dictionary keys through the real CreateObject
    for payload in ('x = 1\nCwProbe = "pwn"\nz', 'x\nz', 'a\rb', 'a\x0cb', 'q = {\n}\nz', 'x = 1\r\nz', 'if\nz', 'x\n\n', '\nx'):
        for where in ('nested', 'dotted'):
            attrs = {'check_command': 'cwcmd'}
            if where == 'nested':
                attrs['vars'] = {payload: 'v', 'plain': 'ok'}
            else:
                attrs['vars.k'] = {payload: 'v'}
            cases.append(case(['cw_global name=CwProbe val=initial',
                               'cw_create type=Host name=%s attrs=%s exp=ok%s' % (hx('inj'), enc(attrs), FT),
                               'cw_delete type=Host name=%s cascade=0' % hx('inj')], 'multiline-key'))
    # N. restart angle: at the end of a transaction case the package directory is loaded the way a restart loads it
    #    (every file compiled with package _api, committed and activated together) and must yield exactly the live
    #    run-time objects.  Always for the aimed families; for the random sequences in the thorough tier.
    for c in cases:
        fam = c['tags']['family']
        aimed = fam.startswith(('dup-', 'cascade-', 'fail-', 'retry-', 'name-part-'))
        if aimed or (tier != 'quick' and fam.startswith('txn')):
            # not after a request whose name has extra parts (Service: refused; others: known finding, stray object)
            if any(l.startswith('cw_create') and bytes.fromhex(dict(t.split('=', 1) for t in l.split()[1:] if '=' in t)['name']).count(b'!') >= 2 + (0 if ' type=Service ' in l else 1) for l in c['lines']):
                continue
            # only the _api package is reloaded: not in cases that create statically configured objects (a static object
            # would keep pointing at the old instance of a run-time parent; the harness answers res=skipped anyway).
            if any(l.startswith('cw_static') for l in c['lines']):
                continue
            # once before the trailing deletes (objects are live), once at the very end
            i = len(c['lines'])
            while i > 0 and c['lines'][i - 1].startswith('cw_delete'):
                i -= 1
            if i < len(c['lines']):
                c['lines'].insert(i, 'cw_restart')
            c['lines'].append('cw_restart')
    return cases


def payload_bytes(case):
    out = b''
    for l in case['lines']:
        for tok in l.split()[1:]:
            if '=' in tok:
                k, v = tok.split('=', 1)
                if k in ('s', 'name', 't'):
                    try: out += bytes.fromhex(v)
                    except ValueError: pass
                elif k in ('v', 'attrs'):
                    try:
                        for x in walk(dec(v)[0]):
                            if isinstance(x, bytes): out += x
                            elif isinstance(x, tuple) and x[0] == 'num': out += b'.' if '.' in x[1] else b''
                    except Exception: pass
    return out


def nontrivial(case, impl_lines):
    ops = [l for l in case['lines'] if l.startswith('cw_create') or l.startswith('cw_delete')]
    if len(ops) >= 2:
        return True
    return re.search(rb'[^A-Za-z0-9_]', payload_bytes(case)) is not None


def _line_values(line):
    vals = []
    for tok in line.split()[1:]:
        if '=' in tok:
            k, v = tok.split('=', 1)
            if k in ('v', 'attrs'):
                try: vals.append(dec(v)[0])
                except Exception: pass
            elif k == 's':
                try: vals.append(bytes.fromhex(v) if v != '-' else b'')
                except ValueError: pass
    return vals


def classify(case, detail, impl_lines):
    if 'crash' in detail:
        return 'crash'
    m = re.match(r'step=(\d+) op=(\w+) code=(\d+) (\S+)', detail)
    if not m:
        return 'unclassified'
    step, op, code, label = int(m.group(1)), m.group(2), int(m.group(3)), m.group(4)
    line = case['lines'][step] if step < len(case['lines']) else ''
    toks = dict(t.split('=', 1) for t in line.split()[1:] if '=' in t)
    vals = _line_values(line)
    # template names written raw between double quotes
    tm = toks.get('tmpl')
    if tm and op in ('cw_item', 'cw_create') and code in (3, 11, 12):
        for h in tm.split(','):
            try: b = bytes.fromhex(h)
            except ValueError: b = b''
            if any(c in b for c in b'"\\\n'):
                return 'import-unescaped'
    if code == 1:
        for v in vals:
            for x in walk(v):
                if isinstance(x, tuple) and x[0] == 'num' and '.' in x[1] and len(x[1].split('.')[1]) > 6:
                    return 'number-precision'
        return 'structure'
    if code == 2:
        for v in vals:
            for x in walk(v):
                if isinstance(x, bytes) and b'\0' in x:
                    return 'nul-truncation'
        return 'structure'
    if code in (11, 12) and op == 'cw_create' and toks.get('type') == 'Service':
        try: nm = bytes.fromhex(toks.get('name', ''))
        except ValueError: nm = b''
        if nm.count(b'!') >= 2:
            return 'name-extra-parts'
    if code in (11, 12) and op == 'cw_create' and toks.get('type') in COMPOSITE3:
        try: nm = bytes.fromhex(toks.get('name', ''))
        except ValueError: nm = b''
        if nm.count(b'!') >= 3 or b'' in nm.split(b'!'):
            return 'composite-name-extra-parts'
    return label


def keep_line(l):
    return l.startswith('now') or l.startswith('cw_global')


def extra_stats(cases, impl):
    st = {'create_ok': 0, 'create_fail': 0, 'delete_ok': 0, 'delete_fail': 0, 'delete_nosuch': 0, 'roundtrip_ok': 0, 'roundtrip_err': 0,
          'emit_exc': 0, 'payload_bytes': 0, 'payload_quote': 0, 'payload_backslash': 0, 'payload_newline': 0, 'payload_nonascii': 0}
    for c in cases:
        pb = payload_bytes(c)
        st['payload_bytes'] += len(pb)
        st['payload_quote'] += pb.count(b'"')
        st['payload_backslash'] += pb.count(b'\\')
        st['payload_newline'] += pb.count(b'\n')
        st['payload_nonascii'] += sum(1 for x in pb if x >= 128)
        for l in impl.get(c['id'], []):
            if l.startswith('cw_create'): st['create_ok' if ' res=ok' in l else 'create_fail'] += 1
            elif l.startswith('cw_delete'):
                st['delete_ok' if ' res=ok' in l else ('delete_nosuch' if 'res=nosuch' in l else 'delete_fail')] += 1
            elif l.startswith('cw_restart'): st['restart_ok' if ' res=ok missing=0 extra=0 changed=0' in l else 'restart_differs'] = st.get('restart_ok' if ' res=ok missing=0 extra=0 changed=0' in l else 'restart_differs', 0) + 1
            elif l.startswith('cw_rt'): st['roundtrip_err' if l.endswith('ERR') else 'roundtrip_ok'] += 1
            elif l.endswith(' EXC'): st['emit_exc'] += 1
    return st
