// C01, concurrent results: n real threads call the real Checkable::ProcessCheckResult on the SAME Host/Service.
//
//   ck_conc states=<s0,s1,..> d=<d0,d1,..> reps=<R> seed=<S> [skew=<max us>] [park=lsr|va|ncr] [pto=<park timeout us>]
//
// The subject is the object of the current case (ck_new + cr ... bring it into the start state).  Per repetition
// the start state is restored, thread j gets a new CheckResult with state sj and execution start now+dj, all threads
// are released together (each after a busy-wait of 0..skew us drawn from the seed) and the outcome is recorded:
//   <state>.<state type>.<attempt>.<last hard state>/<res>:<#new-result events>:<state-change events>,...   (one per thread)
// Reported: the SET of distinct outcomes over the repetitions.  The inputs are deterministic, the schedule is the
// runtime's; the outcomes are therefore judged by the extracted Gallina predicates (cc_strict_ok / cc_relaxed_ok), not
// compared with vmodel.
// park=<point>: a directed schedule without any hook in the code under test - thread 0 is held inside a signal
// handler (signals are the public extension points) until the other threads have returned or a timeout expired:
//   lsr  Checkable::OnLastStateRawChanged  - right after the snapshot of the previous state (under the ObjectLock in the
//                                            tree as it is: the others then simply wait, the timeout ends the hold)
//   va   CheckResult::OnVarsAfterChanged   - between the two critical sections (state fields written, result not stored)
//   ncr  Checkable::OnNewCheckResult       - after the critical sections, before the state-change event is chosen
#include "vdrive.hpp"
#include "base/utility.hpp"
#include "icinga/host.hpp"
#include "icinga/service.hpp"
#include "icinga/checkresult.hpp"
#include <atomic>
#include <thread>
#include <chrono>
#include <random>
#include <set>

using namespace icinga;

Checkable::Ptr CkSubject();
void CkQuietThread(bool q);
std::string CkStateLine();

namespace {

struct Rec { int ncr = 0; std::string sc; };

thread_local Rec *tl_Rec = nullptr;
thread_local int tl_Park = 0;                 // 1 lsr, 2 va, 3 ncr; reset when used
std::atomic<Checkable *> l_Subject{nullptr};
std::atomic<int> l_Finished{0};               // directed: threads other than 0 that have returned
std::atomic<bool> l_Reached{false};           // directed: thread 0 is held (or has returned)
std::atomic<int> l_Others{0};
std::atomic<long> l_ParkTimeoutUs{20000};
std::atomic<int> l_ParkTimedOut{0};
bool l_Connected = false;

void ParkHere()
{
	tl_Park = 0;
	l_Reached.store(true);
	auto deadline = std::chrono::steady_clock::now() + std::chrono::microseconds(l_ParkTimeoutUs.load());
	while (l_Finished.load() < l_Others.load()) {
		if (std::chrono::steady_clock::now() > deadline) { l_ParkTimedOut++; break; }
		std::this_thread::yield();
	}
}

void ConnectOnce()
{
	if (l_Connected) return;
	l_Connected = true;
	Checkable::OnStateChange.connect([](const Checkable::Ptr& c, const CheckResult::Ptr&, StateType t, const MessageOrigin::Ptr&) {
		if (tl_Rec && c.get() == l_Subject.load()) tl_Rec->sc += (t == StateTypeHard ? 'H' : 'S');
	});
	Checkable::OnNewCheckResult.connect([](const Checkable::Ptr& c, const CheckResult::Ptr&, const MessageOrigin::Ptr&) {
		if (tl_Rec && c.get() == l_Subject.load()) {
			tl_Rec->ncr++;
			if (tl_Park == 3) ParkHere();
		}
	});
	Checkable::OnLastStateRawChanged.connect([](const Checkable::Ptr& c, const Value&) {
		if (tl_Park == 1 && c.get() == l_Subject.load()) ParkHere();
	});
	CheckResult::OnVarsAfterChanged.connect([](const CheckResult::Ptr&, const Value&) {
		if (tl_Park == 2) ParkHere();
	});
}

std::vector<long> NumList(const std::string& s)
{
	std::vector<long> r;
	std::stringstream ss(s);
	std::string t;
	while (std::getline(ss, t, ',')) if (!t.empty()) r.push_back(std::stol(t));
	return r;
}

// the attributes ProcessCheckResult's state machine reads and writes
struct Snapshot {
	ServiceState raw, lastHardRaw, lastRaw;
	StateType ty, lastTy;
	int attempt;
	unsigned short hardStates, softStates;
	CheckResult::Ptr cr;
	double lastStateChange, lastHardStateChange, prevStateChange;
	int suppressed;
	ServiceState beforeSuppression;

	void Take(const Checkable::Ptr& c) {
		raw = c->GetStateRaw(); ty = c->GetStateType(); attempt = c->GetCheckAttempt();
		lastHardRaw = c->GetLastHardStateRaw(); hardStates = c->GetLastHardStatesRaw(); softStates = c->GetLastSoftStatesRaw();
		lastRaw = c->GetLastStateRaw(); lastTy = c->GetLastStateType(); cr = c->GetLastCheckResult();
		lastStateChange = c->GetLastStateChange(); lastHardStateChange = c->GetLastHardStateChange();
		prevStateChange = c->GetPreviousStateChange();
		suppressed = c->GetSuppressedNotifications(); beforeSuppression = c->GetStateBeforeSuppression();
	}
	void Put(const Checkable::Ptr& c) const {
		c->SetStateRaw(raw, true); c->SetStateType(ty, true); c->SetCheckAttempt(attempt, true);
		c->SetLastHardStateRaw(lastHardRaw, true); c->SetLastHardStatesRaw(hardStates, true); c->SetLastSoftStatesRaw(softStates, true);
		c->SetLastStateRaw(lastRaw, true); c->SetLastStateType(lastTy, true); c->SetLastCheckResult(cr, true);
		c->SetLastStateChange(lastStateChange, true); c->SetLastHardStateChange(lastHardStateChange, true);
		c->SetPreviousStateChange(prevStateChange, true);
		c->SetSuppressedNotifications(suppressed, true); c->SetStateBeforeSuppression(beforeSuppression, true);
	}
};

struct Job { CheckResult::Ptr cr; int skewUs = 0; int res = -1; Rec rec; };

} // namespace

VOP(ck_conc)
{
	Checkable::Ptr ck = CkSubject();
	if (!ck) throw std::runtime_error("ck_conc: no subject");
	ConnectOnce();
	std::vector<long> states = NumList(a.str("states", "2,2"));
	std::vector<long> ds = NumList(a.str("d", ""));
	int n = (int)states.size();
	while ((int)ds.size() < n) ds.push_back(0);
	int reps = (int)a.num("reps", 100);
	int maxSkew = (int)a.num("skew", 20);
	std::string parkName = a.str("park", "-");
	int park = parkName == "lsr" ? 1 : parkName == "va" ? 2 : parkName == "ncr" ? 3 : 0;
	l_ParkTimeoutUs.store(a.num("pto", 20000));
	l_ParkTimedOut.store(0);
	l_Others.store(n - 1);
	std::minstd_rand rng((unsigned)a.num("seed", 1));
	double now = Utility::GetTime();

	Snapshot snap;
	snap.Take(ck);
	l_Subject.store(ck.get());

	std::vector<Job> jobs(n);
	std::atomic<int> gen{0}, done{0};
	std::atomic<bool> quit{false};
	std::vector<std::thread> ths;
	for (int j = 0; j < n; j++) {
		ths.emplace_back([&, j]() {
			CkQuietThread(true);
			int seen = 0;
			for (;;) {
				while (gen.load() == seen && !quit.load()) std::this_thread::yield();
				if (quit.load()) return;
				seen = gen.load();
				Job& job = jobs[j];
				job.rec = Rec();
				tl_Rec = &job.rec;
				if (park && j == 0) tl_Park = park;
				if (park && j > 0) { while (!l_Reached.load()) std::this_thread::yield(); }
				if (job.skewUs > 0) {
					auto until = std::chrono::steady_clock::now() + std::chrono::microseconds(job.skewUs);
					while (std::chrono::steady_clock::now() < until) { }
				}
				try { job.res = (int)ck->ProcessCheckResult(job.cr); } catch (...) { job.res = -2; }
				tl_Park = 0;
				tl_Rec = nullptr;
				if (park && j == 0) l_Reached.store(true);
				if (park && j > 0) l_Finished++;
				done++;
			}
		});
	}

	static const int skews[] = {0, 0, 0, 0, 1, 2, 3, 5, 8, 13, 20, 35, 50};
	std::set<std::string> seen;
	for (int r = 0; r < reps; r++) {
		snap.Put(ck);
		for (int j = 0; j < n; j++) {
			CheckResult::Ptr cr = new CheckResult();
			double st = now + ds[j];
			cr->SetState((ServiceState)states[j]);
			cr->SetScheduleStart(st); cr->SetScheduleEnd(st);
			cr->SetExecutionStart(st); cr->SetExecutionEnd(st);
			cr->SetActive(true);
			cr->SetOutput("vdrive-conc");
			jobs[j].cr = cr;
			int sk = skews[rng() % (sizeof(skews) / sizeof(skews[0]))];
			jobs[j].skewUs = sk > maxSkew ? maxSkew : sk;
			jobs[j].res = -1;
		}
		l_Finished.store(0);
		l_Reached.store(false);
		done.store(0);
		gen++;
		while (done.load() < n) std::this_thread::yield();
		std::ostringstream o;
		Host::Ptr host = dynamic_pointer_cast<Host>(ck);
		Service::Ptr svc = dynamic_pointer_cast<Service>(ck);
		long st, lh;
		if (host) { st = host->GetState(); lh = host->GetLastHardState(); }
		else { st = svc->GetState(); lh = svc->GetLastHardState(); }
		o << st << "." << (long)ck->GetStateType() << "." << ck->GetCheckAttempt() << "." << lh << "/";
		for (int j = 0; j < n; j++) {
			if (j) o << ",";
			o << jobs[j].res << ":" << jobs[j].rec.ncr << ":" << (jobs[j].rec.sc.empty() ? "-" : jobs[j].rec.sc);
		}
		seen.insert(o.str());
	}
	quit.store(true);
	for (auto& t : ths) t.join();
	l_Subject.store(nullptr);
	for (auto& j : jobs) j.cr = nullptr;

	std::string obs;
	for (auto& t : seen) { if (!obs.empty()) obs += "|"; obs += t; }
	std::ostringstream o;
	o << "ckc n=" << n << " park=" << parkName << " reps=" << reps << " obs=" << obs << " pto=" << l_ParkTimedOut.load();
	Out(o.str());
}
