// C09 fixture: real CheckCommand / Host / Service objects compiled from config text, real
// MacroProcessor::ResolveArguments, real Checkable::ExecuteCheck -> PluginCheckTask -> PluginUtility::ExecuteCommand
// -> Process (spawn helper, execvp or /bin/sh -c) -> recplug, real ProcessFinishedHandler.
// Observed: the value ResolveArguments returns (through Process::PrepareCommand), the argv the plugin
// process received, and state / exit_status / output / performance_data of the stored check result.
#include "vdrive.hpp"
#include "base/utility.hpp"
#include "base/process.hpp"
#include "base/array.hpp"
#include "base/dictionary.hpp"
#include "base/configtype.hpp"
#include "base/serializer.hpp"
#include "config/configitem.hpp"
#include "icinga/host.hpp"
#include "icinga/service.hpp"
#include "icinga/checkcommand.hpp"
#include "icinga/macroprocessor.hpp"
#include "icinga/pluginutility.hpp"
#include "remote/apilistener.hpp"
#include <mutex>
#include <condition_variable>
#include <chrono>
#include <fstream>
#include <cstdlib>
#include <unistd.h>

using namespace icinga;

namespace {

struct MxArg {
	std::string name;
	bool dict{false};
	std::map<std::string, std::string> dsl;    // attribute -> DSL expression
	std::string plain;                          // DSL expression of the plain form
};

struct MxState {
	std::map<std::string, std::vector<std::pair<std::string, std::string>>> vars;   // level -> (name dsl, value dsl)
	std::map<std::string, std::vector<std::pair<std::string, std::string>>> attrs;  // level -> (attr, value dsl)
	std::vector<std::string> envnames;
	bool cmdIsArray{true};
	std::vector<std::string> cmd;                // DSL expressions
	bool haveArgs{false};
	std::vector<MxArg> args;
	long plugExit{0};
	std::string plugOut{"-"};
	long plugSignal{0};
	long plugSleep{0};
	std::string plugTerm;
	long plugGchild{0};
	long timeout{30};
	bool built{false};
	bool withSvc{false};
	Host::Ptr host;
	Service::Ptr svc;
	CheckCommand::Ptr command;
	std::string argvFile;
};

MxState l_S;
std::mutex l_Mx;
std::condition_variable l_Cv;
Checkable::Ptr l_Waiting;
bool l_Done = false;
bool l_Init = false;

// DSL string literal for arbitrary NUL-free bytes: only backslash, double quote and newline need escapes
// (octal escapes are avoided: the lexer reads "\\134" followed by a digit as one bad escape)
std::string Q(const std::string& s)
{
	std::string r = "\"";
	for (unsigned char c : s) {
		if (c == '\\') r += "\\\\";
		else if (c == '"') r += "\\\"";
		else if (c == '\n') r += "\\n";
		else r += (char)c;
	}
	return r + "\"";
}

// "s:<hex>" | "n:<int>" | "b:<0|1>" | "e:"
std::string ScalarDsl(const std::string& spec)
{
	if (spec.size() < 2 || spec[1] != ':') throw std::runtime_error("bad scalar spec " + spec);
	std::string body = spec.substr(2);
	switch (spec[0]) {
		case 's': return Q(HexDec(body));
		case 'n': return body;
		case 'b': return body == "1" ? "true" : "false";
		case 'e': return "null";
	}
	throw std::runtime_error("bad scalar spec " + spec);
}

// t=s|n|b|e v=..   or   t=a n=K e0=.. e1=..   or   t=d n=K k0=<hex> e0=..
std::string ValueDsl(const Args& a)
{
	std::string t = a.str("t", "s");
	if (t == "a" || t == "d") {
		long n = a.num("n", 0);
		std::string r = (t == "a") ? "[ " : "{ ";
		for (long i = 0; i < n; i++) {
			if (i) r += ", ";
			if (t == "d") r += Q(HexDec(a.str("k" + std::to_string(i)))) + " = ";
			r += ScalarDsl(a.str("e" + std::to_string(i)));
		}
		return r + ((t == "a") ? " ]" : " }");
	}
	return ScalarDsl(t + ":" + a.str("v", t == "s" ? "-" : "0"));
}

void RemoveObject(const ConfigObject::Ptr& obj)
{
	if (!obj) return;
	Type::Ptr type = obj->GetReflectionType();
	String name = obj->GetName();
	try { obj->Deactivate(true); } catch (...) {}
	obj->Unregister();
	ConfigItem::Ptr item = ConfigItem::GetByTypeAndName(type, name);
	if (item) item->Unregister();
}

void Reset()
{
	if (l_S.svc) RemoveObject(l_S.svc);
	if (l_S.host) RemoveObject(l_S.host);
	if (l_S.command) RemoveObject(l_S.command);
	for (auto& n : l_S.envnames) unsetenv(n.c_str());
	if (!l_S.argvFile.empty()) { unlink(l_S.argvFile.c_str()); unlink((l_S.argvFile + ".gc").c_str()); }
	l_S = MxState();
}

void InitOnce()
{
	if (l_Init) return;
	l_Init = true;
	Checkable::OnNewCheckResult.connect([](const Checkable::Ptr& c, const CheckResult::Ptr&, const MessageOrigin::Ptr&) {
		std::unique_lock<std::mutex> lock(l_Mx);
		if (l_Waiting && c == l_Waiting) { l_Done = true; l_Cv.notify_all(); }
	});
}

std::string DictDsl(const std::vector<std::pair<std::string, std::string>>& kv)
{
	std::string r = "{ ";
	bool first = true;
	for (auto& p : kv) {
		if (!first) r += ", ";
		first = false;
		r += p.first + " = " + p.second;
	}
	return r + " }";
}

void Build(bool withSvc)
{
	if (l_S.built) return;
	InitOnce();
	std::string id = std::to_string(CaseId());
	std::string cn = "mxc" + id, hn = "mxh" + id;
	l_S.argvFile = ScratchDir() + "/mx_argv_" + id;
	std::ostringstream c;
	c << "object CheckCommand \"" << cn << "\" {\n";
	if (l_S.cmdIsArray) {
		c << "  command = [ ";
		for (size_t i = 0; i < l_S.cmd.size(); i++) c << (i ? ", " : "") << l_S.cmd[i];
		c << " ]\n";
	} else
		c << "  command = " << (l_S.cmd.empty() ? std::string("\"\"") : l_S.cmd[0]) << "\n";
	if (l_S.haveArgs) {
		c << "  arguments = {\n";
		for (auto& g : l_S.args) {
			c << "    " << Q(g.name) << " = ";
			if (!g.dict) c << g.plain << "\n";
			else {
				c << "{\n";
				for (auto& kv : g.dsl) c << "      " << kv.first << " = " << kv.second << "\n";
				c << "    }\n";
			}
		}
		c << "  }\n";
	}
	c << "  env = { RECPLUG_FILE = " << Q(l_S.argvFile) << ", RECPLUG_EXIT = \"" << l_S.plugExit << "\", RECPLUG_OUT = \""
	  << (l_S.plugOut == "-" ? "" : l_S.plugOut) << "\"";
	if (l_S.plugSignal) c << ", RECPLUG_SIGNAL = \"" << l_S.plugSignal << "\"";
	if (l_S.plugSleep) c << ", RECPLUG_SLEEP = \"" << l_S.plugSleep << "\"";
	if (!l_S.plugTerm.empty()) c << ", RECPLUG_TERM = \"" << l_S.plugTerm << "\"";
	if (l_S.plugGchild) c << ", RECPLUG_GCHILD = \"" << l_S.plugGchild << "\"";
	c << " }\n  timeout = " << l_S.timeout << "\n";
	c << "  vars = " << DictDsl(l_S.vars["cmd"]) << "\n}\n";
	c << "object Host \"" << hn << "\" {\n  check_command = \"" << cn << "\"\n  enable_active_checks = false\n  max_check_attempts = 1\n";
	for (auto& p : l_S.attrs["host"]) c << "  " << p.first << " = " << p.second << "\n";
	c << "  vars = " << DictDsl(l_S.vars["host"]) << "\n}\n";
	if (withSvc) {
		c << "object Service \"mxs\" {\n  host_name = \"" << hn << "\"\n  check_command = \"" << cn
		  << "\"\n  enable_active_checks = false\n  max_check_attempts = 1\n";
		for (auto& p : l_S.attrs["svc"]) c << "  " << p.first << " = " << p.second << "\n";
		c << "  vars = " << DictDsl(l_S.vars["svc"]) << "\n}\n";
	}
	LoadConfig(c.str());
	ApiListener::UpdateObjectAuthority();
	l_S.command = CheckCommand::GetByName(cn);
	l_S.host = Host::GetByName(hn);
	if (withSvc) l_S.svc = Service::GetByNamePair(hn, "mxs");
	if (!l_S.command || !l_S.host || (withSvc && !l_S.svc)) throw std::runtime_error("mx objects not created");
	l_S.withSvc = withSvc;
	l_S.built = true;
}

std::string HexList(const std::vector<String>& v)
{
	if (v.empty()) return "[]";
	std::string r;
	for (size_t i = 0; i < v.size(); i++) { if (i) r += ","; r += HexEnc(v[i].GetData()); }
	return r;
}

bool ReadArgvFile(const std::string& path, std::vector<String>& out)
{
	std::ifstream f(path, std::ios::binary);
	if (!f) return false;
	std::string line;
	if (!std::getline(f, line)) return false;
	long n = std::stol(line);
	for (long i = 0; i < n; i++) {
		if (!std::getline(f, line)) return false;
		size_t len = std::stoul(line);
		std::string buf(len, '\0');
		f.read(&buf[0], len);
		f.get();
		out.emplace_back(buf);
	}
	return true;
}

// has the grandchild recorded in <file> disappeared (no such process, or a zombie waiting to be reaped)?
bool GrandchildGone(const std::string& path)
{
	std::ifstream f(path);
	long pid = 0;
	if (!(f >> pid) || pid <= 0) return true;           // never started
	for (int i = 0; i < 200; i++) {
		std::ifstream st("/proc/" + std::to_string(pid) + "/stat");
		std::string line;
		if (!st || !std::getline(st, line)) return true;
		auto rp = line.rfind(')');
		if (rp != std::string::npos && rp + 2 < line.size() && line[rp + 2] == 'Z') return true;
		usleep(10000);
	}
	return false;
}

} // namespace

VOP(mx_new) { Reset(); }

// mx_var lvl=svc|host|cmd name=<hex> t=.. v=..
VOP(mx_var) { l_S.vars[a.str("lvl", "host")].emplace_back(Q(HexDec(a.str("name"))), ValueDsl(a)); }

// mx_attr lvl=svc|host name=<attribute> v=<hex>
VOP(mx_attr) { l_S.attrs[a.str("lvl", "host")].emplace_back(a.str("name"), Q(HexDec(a.str("v", "-")))); }

// mx_env name=<plain> v=<hex>
VOP(mx_env) { setenv(a.str("name").c_str(), HexDec(a.str("v", "-")).c_str(), 1); l_S.envnames.push_back(a.str("name")); }

VOP(mx_cmd) { l_S.cmdIsArray = a.str("kind", "arr") == "arr"; l_S.cmd.clear(); }
VOP(mx_cel) { l_S.cmd.push_back(Q(HexDec(a.str("v", "-")))); }
VOP(mx_args) { l_S.haveArgs = true; }

// mx_arg name=<hex> dict=0 val=<hex> | dict=1 [key=<hex>] [val=<hex>] [req=0|1] [skip=0|1] [rep=0|1] [order=N] [sep=<hex>] [sif=<hex>]
VOP(mx_arg)
{
	l_S.haveArgs = true;
	MxArg g;
	g.name = HexDec(a.str("name"));
	g.dict = a.num("dict", 1) != 0;
	if (!g.dict) g.plain = Q(HexDec(a.str("val", "-")));
	else {
		if (a.has("key")) g.dsl["key"] = Q(HexDec(a.str("key")));
		if (a.has("val")) g.dsl["value"] = Q(HexDec(a.str("val")));
		if (a.has("req")) g.dsl["required"] = a.num("req") ? "true" : "false";
		if (a.has("skip")) g.dsl["skip_key"] = a.num("skip") ? "true" : "false";
		if (a.has("rep")) g.dsl["repeat_key"] = a.num("rep") ? "true" : "false";
		if (a.has("order")) g.dsl["order"] = a.str("order");
		if (a.has("sep")) g.dsl["separator"] = Q(HexDec(a.str("sep")));
		if (a.has("sif")) g.dsl["set_if"] = Q(HexDec(a.str("sif")));
	}
	l_S.args.push_back(g);
}

VOP(mx_plug)
{
	l_S.plugExit = a.num("exit", 0);
	l_S.plugOut = a.str("out", "-");
	l_S.plugSignal = a.num("sig", 0);
	l_S.plugSleep = a.num("sleep", 0);
	l_S.plugTerm = a.str("term", "");
	l_S.plugGchild = a.num("gchild", 0);
	l_S.timeout = a.num("timeout", 30);
}

static MacroProcessor::ResolverList Resolvers()
{
	// exactly what PluginCheckTask::ScriptFunc builds
	MacroProcessor::ResolverList resolvers;
	if (l_S.svc) resolvers.emplace_back("service", l_S.svc);
	resolvers.emplace_back("host", l_S.host);
	resolvers.emplace_back("command", l_S.command);
	return resolvers;
}

// mx_resolve svc=0|1 : MacroProcessor::ResolveArguments as PluginUtility::ExecuteCommand calls it
VOP(mx_resolve)
{
	Build(a.num("svc", 0) != 0);
	Value res;
	try {
		res = MacroProcessor::ResolveArguments(l_S.command->GetCommandLine(), l_S.command->GetArguments(), Resolvers(), nullptr, nullptr, false);
	} catch (const std::exception&) {
		Out("res err");
		return;
	}
	std::vector<String> pa = Process::PrepareCommand(res);
	if (res.IsObjectType<Array>()) {
		std::string line = "res arr";
		for (auto& s : pa) line += " " + HexEnc(s.GetData());
		Out(line);
	} else
		Out("res sh " + HexEnc(pa.at(2).GetData()));
}

// mx_exec svc=0|1 : the real check execution
VOP(mx_exec)
{
	Build(a.num("svc", 0) != 0);
	Checkable::Ptr ck = l_S.svc ? Checkable::Ptr(l_S.svc) : Checkable::Ptr(l_S.host);
	unlink(l_S.argvFile.c_str());
	{
		std::unique_lock<std::mutex> lock(l_Mx);
		l_Waiting = ck; l_Done = false;
	}
	ck->ExecuteCheck();
	bool ok;
	{
		std::unique_lock<std::mutex> lock(l_Mx);
		ok = l_Cv.wait_for(lock, std::chrono::seconds(60), [] { return l_Done; });
		l_Waiting = nullptr;
	}
	if (!ok) { Out("exec HANG-no-check-result"); return; }
	CheckResult::Ptr cr = ck->GetLastCheckResult();
	std::vector<String> argv;
	bool have = ReadArgvFile(l_S.argvFile, argv);
	std::ostringstream o;
	o << "exec argv=" << (have ? HexList(argv) : std::string("none"));
	o << " state=" << (long)cr->GetState() << " exit=" << (long)cr->GetExitStatus();
	Value cmdline = cr->GetCommand();
	bool failedToResolve = cmdline.IsEmpty() && !have;
	bool timeoutScenario = l_S.plugSleep || l_S.plugGchild;
	if (timeoutScenario) {
		// "a plugin exceeding its timeout is killed and reported as UNKNOWN": state/exit above, the marker in the
		// stored output, and nothing of the plugin's session left behind
		o << " tmo=" << (cr->GetOutput().Contains("<Timeout exceeded.>") ? 1 : 0);
		if (l_S.plugGchild) o << " gc=" << (GrandchildGone(l_S.argvFile + ".gc") ? "dead" : "alive");
	}
	if (!failedToResolve && !l_S.plugSignal && !timeoutScenario) {
		std::vector<String> pd;
		Array::Ptr parr = cr->GetPerformanceData();
		if (parr) { ObjectLock olock(parr); for (const Value& v : parr) pd.emplace_back(v); }
		o << " out=" << HexEnc(cr->GetOutput().GetData()) << " pd=" << HexList(pd);
	}
	Out(o.str());
}

// mx_replay svc=0|1 run=0|1 : the command_endpoint path.  Parent: ResolveArguments in COLLECT mode (fresh dictionary,
// useResolvedMacros = false - the call PluginUtility::ExecuteCommand makes when Checkable::ExecuteCheck hands
// CheckCommand::Execute a dictionary).  Agent: a bare virtual Host as ClusterEvents::ExecuteCheckFromQueue builds it,
// ResolveArguments with useResolvedMacros = true, and (run=1) the real Checkable::ExecuteRemoteCheck(macros) ->
// CheckCommand::Execute(.., macros, true) -> PluginCheckTask -> PluginUtility::ExecuteCommand -> Process -> recplug.
VOP(mx_replay)
{
	bool withSvc = a.num("svc", 0) != 0;
	Build(withSvc);
	Dictionary::Ptr macros = new Dictionary();
	try {
		MacroProcessor::ResolveArguments(l_S.command->GetCommandLine(), l_S.command->GetArguments(), Resolvers(), nullptr, macros, false);
	} catch (const std::exception&) {
		Out("rcoll err");
		return;
	}
	Out("rcoll ok");

	Host::Ptr vhost = new Host();
	Dictionary::Ptr attrs = new Dictionary();
	attrs->Set("__name", l_S.host->GetName());
	attrs->Set("type", "Host");
	attrs->Set("check_command", l_S.command->GetName());
	Deserialize(vhost, attrs, false, FAConfig);
	if (withSvc) vhost->SetExtension("agent_service_name", "mxs");
	vhost->SetExtension("agent_check", true);

	{
		MacroProcessor::ResolverList rl;
		rl.emplace_back("host", vhost);
		rl.emplace_back("command", l_S.command);
		try {
			Value res = MacroProcessor::ResolveArguments(l_S.command->GetCommandLine(), l_S.command->GetArguments(), rl, nullptr, macros, true);
			std::vector<String> pa = Process::PrepareCommand(res);
			if (res.IsObjectType<Array>()) {
				std::string line = "rres arr";
				for (auto& s : pa) line += " " + HexEnc(s.GetData());
				Out(line);
			} else
				Out("rres sh " + HexEnc(pa.at(2).GetData()));
		} catch (const std::exception&) {
			Out("rres err");
		}
	}

	if (!a.num("run", 0)) return;
	InitOnce();
	unlink(l_S.argvFile.c_str());
	static long l_RExit;
	{
		std::unique_lock<std::mutex> lock(l_Mx);
		l_Done = false; l_RExit = -1;
	}
	Checkable::ExecuteCommandProcessFinishedHandler = [](const Value&, const ProcessResult& pr) {
		Checkable::CurrentConcurrentChecks.fetch_sub(1);
		Checkable::DecreasePendingChecks();
		std::unique_lock<std::mutex> lock(l_Mx);
		l_RExit = pr.ExitStatus; l_Done = true; l_Cv.notify_all();
	};
	bool threw = false;
	try { vhost->ExecuteRemoteCheck(macros); } catch (const std::exception&) { threw = true; }
	Checkable::ExecuteCommandProcessFinishedHandler = nullptr;
	if (threw) { Out("rexec exception"); return; }
	bool ok;
	long ex;
	{
		std::unique_lock<std::mutex> lock(l_Mx);
		ok = l_Cv.wait_for(lock, std::chrono::seconds(60), [] { return l_Done; });
		ex = l_RExit;
	}
	if (!ok) { Out("rexec HANG-no-process-result"); return; }
	std::vector<String> argv;
	bool have = ReadArgvFile(l_S.argvFile, argv);
	Out("rexec argv=" + (have ? HexList(argv) : std::string("none")) + " exit=" + std::to_string(ex));
}

// pure functions
VOP(mx_esc) { Out("esc " + HexEnc(Utility::EscapeShellArg(HexDec(a.str("v", "-"))).GetData())); }

VOP(mx_exit) { Out("exit " + std::to_string((long)PluginUtility::ExitStatusToState((int)a.num("st", 0)))); }

VOP(mx_out)
{
	std::pair<String, String> co = PluginUtility::ParseCheckOutput(HexDec(a.str("v", "-")));
	Array::Ptr parr = PluginUtility::SplitPerfdata(co.second);
	std::vector<String> pd;
	{ ObjectLock olock(parr); for (const Value& v : parr) pd.emplace_back(v); }
	Out("out text=" + HexEnc(co.first.GetData()) + " perf=" + HexEnc(co.second.GetData()) + " pd=" + HexList(pd));
}

static struct MxCaseEnd {
	MxCaseEnd() { RegisterCaseEnd([]() { Reset(); }); }
} l_MxCaseEnd;
