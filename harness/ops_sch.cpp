// C04 - scheduler.  Two kinds of cases:
//   sch_unc   deterministic: Checkable::UpdateNextCheck() under the virtual clock (diffed against the model)
//   sch_run   the REAL CheckerComponent with its real scheduler thread and the real thread pool, in REAL
//             time, against real Host/Service objects whose check command is a native recording function;
//             a driver thread fires a seeded storm of pause/resume/reschedule/force/enable/disable/
//             period/create/delete; an observer thread snapshots idle/pending under m_Mutex.
// The harness only RECORDS (raw events with timestamps); the verdict is computed by the oracle in vmodel.
#include "vdrive.hpp"
#include "base/utility.hpp"
#include "base/configtype.hpp"
#include "base/configuration.hpp"
#include "base/application.hpp"
#include "base/scriptglobal.hpp"
#include "base/function.hpp"
#include "base/objectlock.hpp"
#include "config/configitem.hpp"
#include "icinga/host.hpp"
#include "icinga/service.hpp"
#include "icinga/checkcommand.hpp"
#include "icinga/timeperiod.hpp"
#include "icinga/icingaapplication.hpp"
#include "checker/checkercomponent.hpp"
#include "remote/endpoint.hpp"
#include "remote/zone.hpp"
#include "remote/jsonrpcconnection.hpp"
#include <atomic>
#include <thread>
#include <mutex>
#include <unordered_map>
#include <condition_variable>
#include <map>
#include <set>
#include <functional>
#include <cmath>
#include <sys/file.h>
#include <fcntl.h>
#include <unistd.h>

using namespace icinga;

void CkRemoveObject(const ConfigObject::Ptr& obj);   // ops_ck.cpp

namespace {

struct CkInfo {
	Checkable::Ptr obj;
	std::string name;       // config name (host or host!svc)
	int mode = 0;           // 0 ok, 1 critical, 2 flip ok/critical every 2 runs, 3 throws, 4 ok but every 3rd result is stamped older than the stored one (rejected)
	long dur_us = 0;        // how long the check command sleeps (synchronous) / how long the "process" lives (asynchronous)
	int kind = 0;           // 0 synchronous: the result is processed before Execute() returns; 1 asynchronous: Execute() returns at
	                        // once, the result is handed to ProcessCheckResult later by another thread (as PluginCheckTask's process callback does)
	bool tl = false;        // timeline case: the command blocks on / the result waits for a gate that the script opens
	std::atomic<bool> gateOpen{true};
	std::atomic<int> blocked{0};         // synchronous executions sitting in the gate
	std::atomic<long> nS{0}, nD{0}, nC{0};   // starts, processed results, clears of force_next_check
	long ci_us = 0, ri_us = 0;
	std::atomic<unsigned long> gen{0};   // seqlock: odd while a driver op on this checkable is in flight
	std::atomic<long> runs{0};
	bool calm = false;       // never paused/disabled/deleted: its lateness measures the lag of the whole system
	// driver-side bookkeeping for eligibility windows (driver thread only)
	bool exists = false, paused = false, enabled = true, inperiod = true;
	long elig_since = -1;
};

struct Rec { char k; long a, b, c, d, e, f; std::string s; };

std::vector<std::unique_ptr<CkInfo>> l_Cks;
std::unordered_map<const Checkable *, int> l_Index;
std::mutex l_IndexMutex;
std::mutex l_RecMutex;
std::vector<Rec> l_Recs;
double l_T0 = 0;
std::atomic<bool> l_Running{false};
std::vector<CheckerComponent::Ptr> l_OldCheckers;  // never freed: their signal slots stay connected
bool l_Init = false;
long l_RunNo = 0;

long NowUs() { return std::llround((Utility::GetTime() - l_T0) * 1e6); }
long ToUs(double t) { return std::llround((t - l_T0) * 1e6); }

void Record(Rec r) { std::unique_lock<std::mutex> lock(l_RecMutex); l_Recs.push_back(std::move(r)); }

int IndexOf(const Checkable *c)
{
	std::unique_lock<std::mutex> lock(l_IndexMutex);
	auto it = l_Index.find(c);
	return it == l_Index.end() ? -1 : it->second;
}

// thread-local context: a lower bound for the clock value the next UpdateNextCheck() on this thread samples
struct Ctx { const Checkable *ck = nullptr; long t0 = 0; int pcr = 0; bool have = false; long t1 = 0, next = 0; };
thread_local Ctx tl_Ctx;
thread_local bool tl_Requesting = false;   // this thread is inside its own SetForceNextCheck(true): the signal it emits is not a clear
std::atomic<int> l_NextTid{1};
thread_local int tl_Tid = 0;
int Tid() { if (!tl_Tid) tl_Tid = l_NextTid.fetch_add(1); return tl_Tid; }

// deterministic ExecuteCheck cases (sch_exec / sch_finish): the command of this subject only records that it was
// started and keeps the unfinished result, like a plugin process would
Checkable::Ptr l_PcrCk;
Host::Ptr l_PcrHost;
long l_PcrNo = 0;
long l_DefStarted = 0;
CheckResult::Ptr l_DefCr;
int l_PcrRemote = 0;     // 0 local; 1 command_endpoint set, endpoint not connected; 2 command_endpoint set, endpoint connected

// ------------------------------------------------------------------ asynchronous executions
// A native stand-in for PluginCheckTask: ScriptFunc spawns the "process", counts the slot (IncreasePendingChecks) and returns;
// when the process ends another thread runs what ProcessFinishedHandler does: DecreasePendingChecks, then ProcessCheckResult.
struct AsyncJob { int id; Checkable::Ptr ck; CheckResult::Ptr cr; long run; };
std::mutex l_AsyncMutex;
std::condition_variable l_AsyncCV;
std::multimap<double, AsyncJob> l_AsyncQ;       // by due time
std::map<int, AsyncJob> l_AsyncHeld;            // timeline cases: waiting for the gate of checkable id
std::vector<std::thread> l_AsyncThreads;
int l_AsyncActive = 0;
bool l_AsyncFlush = false;
std::atomic<long> l_AsyncAlive{0};              // launched, slot not yet counted down
std::mutex l_GateMutex;
std::condition_variable l_GateCV;

void FinishExecution(CkInfo& ci, int id, const Checkable::Ptr& checkable, const CheckResult::Ptr& cr, long run)
{
	tl_Ctx = Ctx{checkable.get(), NowUs(), 1};
	ServiceState st = ServiceOK;
	if (ci.mode == 1) st = ServiceCritical;
	if (ci.mode == 2) st = ((run / 2) % 2) ? ServiceCritical : ServiceOK;
	double now = Utility::GetTime();
	cr->SetState(st);
	cr->SetOutput("sch");
	cr->SetExecutionEnd(now);
	cr->SetScheduleEnd(now);
	if (ci.mode == 4 && run % 3 == 2) {
		// a result stamped OLDER than the stored one (agent/peer with a skewed clock): ProcessCheckResult discards it
		// (NewerCheckResultPresent) - but only after it has cleared m_CheckRunning
		CheckResult::Ptr old = checkable->GetLastCheckResult();
		if (old) {
			cr->SetExecutionStart(old->GetExecutionStart() - 1.0);
			cr->SetScheduleStart(old->GetExecutionStart() - 1.0);
		}
	}
	checkable->ProcessCheckResult(cr);
	tl_Ctx = Ctx{};
	ci.nD++;
	Record({'D', NowUs(), id});   // result processing of this execution is over (accepted or rejected)
}

void AsyncDeliver(const AsyncJob& j)
{
	if (j.id < 0 || j.id >= (int)l_Cks.size()) return;
	CkInfo& ci = *l_Cks[j.id];
	Record({'E', NowUs(), j.id});
	l_AsyncAlive--;
	Checkable::DecreasePendingChecks();
	FinishExecution(ci, j.id, j.ck, j.cr, j.run);
}

void AsyncWorker()
{
	Utility::SetThreadName("sch async");
	std::unique_lock<std::mutex> lock(l_AsyncMutex);
	for (;;) {
		if (l_AsyncQ.empty()) { l_AsyncCV.wait(lock); continue; }
		double due = l_AsyncQ.begin()->first, now = Utility::GetTime();
		if (due > now && !l_AsyncFlush) { l_AsyncCV.wait_for(lock, std::chrono::duration<double>(std::min(due - now, 0.05))); continue; }
		AsyncJob j = l_AsyncQ.begin()->second;
		l_AsyncQ.erase(l_AsyncQ.begin());
		l_AsyncActive++;
		lock.unlock();
		try { AsyncDeliver(j); } catch (const std::exception&) { }
		lock.lock();
		l_AsyncActive--;
		l_AsyncCV.notify_all();
	}
}

void AsyncEnsureWorkers()   // with l_AsyncMutex held
{
	if (l_AsyncThreads.empty())
		for (int i = 0; i < 3; i++) { l_AsyncThreads.emplace_back(AsyncWorker); l_AsyncThreads.back().detach(); }
}

void AsyncPush(double due, AsyncJob j)
{
	std::unique_lock<std::mutex> lock(l_AsyncMutex);
	AsyncEnsureWorkers();
	l_AsyncQ.emplace(due, std::move(j));
	l_AsyncCV.notify_all();
}

// deliver everything that is still outstanding (end of a run) and wait for it
void AsyncFlushAll()
{
	std::unique_lock<std::mutex> lock(l_AsyncMutex);
	if (!l_AsyncHeld.empty() || !l_AsyncQ.empty()) AsyncEnsureWorkers();
	for (auto& kv : l_AsyncHeld) l_AsyncQ.emplace(0.0, kv.second);
	l_AsyncHeld.clear();
	l_AsyncFlush = true;
	l_AsyncCV.notify_all();
	while (!l_AsyncQ.empty() || l_AsyncActive > 0) l_AsyncCV.wait_for(lock, std::chrono::milliseconds(20));
	l_AsyncFlush = false;
}

void SchCheckFn(const Checkable::Ptr& checkable, const CheckResult::Ptr& cr, const Dictionary::Ptr& resolvedMacros, bool useResolvedMacros)
{
	// command_endpoint branch of ExecuteCheck: the command is only asked to resolve its macros (PluginUtility::ExecuteCommand
	// returns at `if (resolvedMacros && !useResolvedMacros)'), nothing is executed here
	if (resolvedMacros && !useResolvedMacros)
		return;
	if (l_PcrCk && checkable == l_PcrCk) {
		l_DefStarted++;
		l_DefCr = cr;
		return;
	}
	int id = IndexOf(checkable.get());
	if (id < 0 || !l_Running.load()) {
		// not ours (left-over from an earlier case): behave like a fast OK check
		cr->SetState(ServiceOK);
		checkable->ProcessCheckResult(cr);
		return;
	}
	CkInfo& ci = *l_Cks[id];
	{
		// lateness of this execution relative to the time it was scheduled for (schedule_start = next_check at dispatch);
		// only for calm checkables, whose next_check is never stale
		long t = NowUs();
		long late = ci.calm ? std::max(0L, t - ToUs(cr->GetScheduleStart())) : -1;
		ci.nS++;
		Record({'S', t, id, late, ToUs(cr->GetScheduleStart()), Tid()});
	}
	long run = ci.runs.fetch_add(1);
	if (ci.kind == 1) {
		// asynchronous: count the slot like PluginCheckTask::ScriptFunc and return; m_CheckRunning stays set
		l_AsyncAlive++;
		Checkable::IncreasePendingChecks();
		AsyncJob j{id, checkable, cr, run};
		if (ci.tl) {
			std::unique_lock<std::mutex> lock(l_AsyncMutex);
			if (!ci.gateOpen.load()) { l_AsyncHeld[id] = j; return; }
		}
		AsyncPush(Utility::GetTime() + ci.dur_us / 1e6, j);
		return;
	}
	if (ci.tl) {
		std::unique_lock<std::mutex> lock(l_GateMutex);
		ci.blocked++;
		while (!ci.gateOpen.load()) l_GateCV.wait_for(lock, std::chrono::milliseconds(50));
		ci.blocked--;
	} else if (ci.dur_us > 0)
		Utility::Sleep(ci.dur_us / 1e6);
	Record({'E', NowUs(), id});
	if (ci.mode == 3) {
		tl_Ctx = Ctx{checkable.get(), NowUs(), 1};
		throw std::runtime_error("sch: check command throws by configuration");
	}
	FinishExecution(ci, id, checkable, cr, run);
}

void InitOnce()
{
	if (l_Init) return;
	l_Init = true;
	ScriptGlobal::Set("SchCheckFn", new Function("SchCheckFn", SchCheckFn,
		{ "checkable", "cr", "resolvedMacros", "useResolvedMacros" }));
	LoadConfig("object CheckCommand \"schcmd\" { execute = SchCheckFn }\n"
		"object TimePeriod \"sch_never\" { update = function(tp, begin, end) { return [] } }\n");
	// ExecuteCheck: SetLastCheckStarted(now) immediately precedes the early UpdateNextCheck() on the same thread
	Checkable::OnLastCheckStartedChanged.connect([](const Checkable::Ptr& c, const Value&) {
		if (!l_Running.load()) return;
		tl_Ctx = Ctx{c.get(), NowUs(), 0};
		int id = IndexOf(c.get());
		if (id >= 0) Record({'X', tl_Ctx.t0, id, Tid()});   // ExecuteCheck() entered for c on this thread
	});
	Checkable::OnNextCheckChanged.connect([](const Checkable::Ptr& c, const Value&) {
		if (!l_Running.load()) return;
		if (tl_Ctx.ck != c.get()) return;
		int id = IndexOf(c.get());
		if (id < 0) return;
		CkInfo& ci = *l_Cks[id];
		long t1 = NowUs();
		long next = ToUs(c->GetNextCheck());
		if (tl_Ctx.pcr) {
			// inside ProcessCheckResult: keep the observation; the interval it is compared with is chosen from the
			// state AFTER the result (OnNewCheckResult below) - "retry_interval while in a soft problem state"
			tl_Ctx.have = true; tl_Ctx.t1 = t1; tl_Ctx.next = next;
			return;
		}
		Record({'N', id, tl_Ctx.t0, t1, next, std::max(ci.ci_us, ci.ri_us), 0});
		tl_Ctx = Ctx{};
	});
	// force_next_check consumed (set to false): in the code as modelled this PRECEDES the ExecuteCheck it belongs to
	Checkable::OnForceNextCheckChanged.connect([](const Checkable::Ptr& c, const Value&) {
		if (!l_Running.load()) return;
		// the signal does not carry the value.  The requester's own emission is skipped by thread (reading the flag there would
		// race with the scheduler consuming it at once and count that clear twice); nobody else sets the flag to true
		if (tl_Requesting) return;
		if (c->GetForceNextCheck()) return;
		int id = IndexOf(c.get());
		if (id < 0) return;
		l_Cks[id]->nC++;
		Record({'C', NowUs(), id});
	});
	// end of ProcessCheckResult, same thread: the post-state is final (a result exists now by definition)
	Checkable::OnNewCheckResult.connect([](const Checkable::Ptr& c, const CheckResult::Ptr&, const MessageOrigin::Ptr&) {
		if (!l_Running.load()) return;
		if (tl_Ctx.ck != c.get() || !tl_Ctx.pcr) return;
		int id = IndexOf(c.get());
		if (id < 0) return;
		CkInfo& ci = *l_Cks[id];
		if (ci.mode == 3) { ci.nD++; Record({'D', NowUs(), id}); }   // thrown: ProcessCheckResult runs in ExecuteCheckHelper's catch block
		if (!tl_Ctx.have) return;
		long I = (c->GetStateType() == StateTypeSoft) ? ci.ri_us : ci.ci_us;
		Record({'N', id, tl_Ctx.t0, tl_Ctx.t1, tl_Ctx.next, I, 1});
		tl_Ctx = Ctx{};
	});
}

// ------------------------------------------------------------------ deterministic rng
struct Rng {
	unsigned long long s;
	explicit Rng(unsigned long long seed) : s(seed * 0x9E3779B97F4A7C15ull + 0x1234567ull) { next(); next(); }
	unsigned long long next() { s ^= s >> 12; s ^= s << 25; s ^= s >> 27; return s * 0x2545F4914F6CDD1Dull; }
	long range(long lo, long hi) { return lo + (long)(next() % (unsigned long long)(hi - lo + 1)); }
	bool chance(int pct) { return (long)(next() % 100) < pct; }
};

// ------------------------------------------------------------------ snapshots
void Snapshot(const CheckerComponent::Ptr& checker, int n)
{
	std::vector<unsigned long> g1(n);
	for (int i = 0; i < n; i++) g1[i] = l_Cks[i]->gen.load();
	std::vector<const Checkable *> idle, pend;
	std::vector<char> sched(n);
	const Checkable *head = nullptr;
	double headKey = 0;
	int pcount = 0;
	long tSnap;
	{
		std::unique_lock<std::mutex> lock(checker->m_Mutex);
		tSnap = NowUs();
		auto& byTime = boost::get<1>(checker->m_IdleCheckables);
		if (byTime.begin() != byTime.end()) { head = byTime.begin()->Object.get(); headKey = byTime.begin()->NextCheck; }
		pcount = Checkable::GetPendingChecks();   // same lock order as CheckThreadProc (m_Mutex, then m_StatsMutex)
		for (const CheckableScheduleInfo& csi : checker->m_IdleCheckables) idle.push_back(csi.Object.get());
		for (const CheckableScheduleInfo& csi : checker->m_PendingCheckables) pend.push_back(csi.Object.get());
		for (int i = 0; i < n; i++) {
			const Checkable::Ptr& o = l_Cks[i]->obj;
			sched[i] = (o && o->IsActive() && !o->IsPaused()) ? 1 : 0;
		}
	}
	std::ostringstream os;
	auto ids = [&](const std::vector<const Checkable *>& v) {
		std::string r;
		for (auto p : v) {
			int id = IndexOf(p);
			if (id < 0) continue;   // objects of other cases
			if (!r.empty()) r += ",";
			r += std::to_string(id);
		}
		return r.empty() ? std::string("-") : r;
	};
	os << "i=" << ids(idle) << " p=" << ids(pend) << " q=";
	bool first = true;
	for (int i = 0; i < n; i++) {
		unsigned long g2 = l_Cks[i]->gen.load();
		if (g2 != g1[i] || (g2 & 1)) continue;
		if (!l_Cks[i]->obj) continue;
		if (!first) os << ",";
		first = false;
		os << i << ":" << (int)sched[i];
	}
	if (first) os << "-";
	// what the scheduler would look at right now: begin() of the next-check index, its key, the slot counter
	os << " h=";
	if (head) os << IndexOf(head) << ":" << ToUs(headKey); else os << "-";
	os << " pc=" << pcount;
	Rec r{'P', tSnap};
	r.s = os.str();
	Record(std::move(r));
}

std::string ObjConfig(long runNo, int id, bool svc, long ci_us, long ri_us, const std::string& carrier, std::string& nameOut)
{
	std::ostringstream c;
	auto attrs = [&]() {
		std::ostringstream o;
		o << "  check_command = \"schcmd\"\n  max_check_attempts = 3\n  enable_flapping = false\n"
		  << "  check_interval = " << (ci_us / 1e6) << "\n  retry_interval = " << (ri_us / 1e6) << "\n";
		return o.str();
	};
	if (svc) {
		std::string sn = "s" + std::to_string(id);
		c << "object Service \"" << sn << "\" {\n  host_name = \"" << carrier << "\"\n" << attrs() << "}\n";
		nameOut = carrier + "!" + sn;
	} else {
		std::string hn = "schr" + std::to_string(runNo) + "h" + std::to_string(id);
		c << "object Host \"" << hn << "\" {\n" << attrs() << "}\n";
		nameOut = hn;
	}
	return c.str();
}

} // namespace

// sch_unc now=<T> ci4=<quarter seconds> ri4=<..> soft=0|1 hascr=0|1 off=<n>
VOP(sch_unc)
{
	InitOnce();
	static Host::Ptr host;
	if (!host) {
		LoadConfig("object Host \"schunc\" {\n  check_command = \"schcmd\"\n  enable_active_checks = false\n}\n");
		host = Host::GetByName("schunc");
	}
	double now = a.dbl("now");
	Utility::VerifSetTime(now);
	host->SetCheckInterval(a.num("ci4") / 4.0);
	host->SetRetryInterval(a.num("ri4") / 4.0);
	host->SetStateType(a.num("soft") ? StateTypeSoft : StateTypeHard);
	if (a.num("hascr")) {
		CheckResult::Ptr cr = new CheckResult();
		cr->SetScheduleEnd(now - 1);
		host->SetLastCheckResult(cr);
	} else {
		host->SetLastCheckResult(nullptr);
	}
	host->SetSchedulingOffset(a.num("off"));
	host->UpdateNextCheck();
	double next = host->GetNextCheck();
	std::ostringstream o;
	o << "unc next=" << std::llround((next - now) * 10000.0);
	Out(o.str());
	Utility::VerifSetTime(-1);
}

// sch_cnew kind=host|svc max=<max_check_attempts> ci4= ri4= off=     a never-checked checkable
// sch_cr now=<T> state=<0..3> [active=0|1]                           the REAL ProcessCheckResult (local: origin = null)

static void PcrCleanup()
{
	if (!l_PcrHost) return;
	Host::Ptr h = l_PcrHost;
	l_PcrCk = nullptr; l_PcrHost = nullptr; l_DefCr = nullptr; l_DefStarted = 0;
	if (l_PcrRemote) {
		Endpoint::Ptr ep = Endpoint::GetByName("schpeer");
		if (ep) { std::unique_lock<std::mutex> lock(ep->m_ClientsLock); ep->m_Clients.clear(); }
		l_PcrRemote = 0;
	}
	for (const Service::Ptr& sv : h->GetServices()) CkRemoveObject(sv);
	CkRemoveObject(h);
}

VOP(sch_cnew)
{
	InitOnce();
	PcrCleanup();
	Utility::VerifSetTime(a.dbl("now", 2000000000));
	std::string hn = "schp" + std::to_string(++l_PcrNo);
	bool svc = a.str("kind", "host") == "svc";
	std::ostringstream c;
	int remote = a.num("remote", 0);
	if (remote) {
		// command_endpoint branch of ExecuteCheck: an endpoint that is not the local one (there is no ApiListener: no local endpoint)
		static bool peer = false;
		if (!peer) { peer = true; LoadConfig("object Endpoint \"schpeer\" { }\nobject Zone \"schzone\" { endpoints = [ \"schpeer\" ] }\n"); }
	}
	auto attrs = [&](bool subject) {
		std::ostringstream o;
		o << "  check_command = \"schcmd\"\n  enable_active_checks = false\n  enable_flapping = false\n";
		if (remote) o << "  zone = \"schzone\"\n";
		if (remote && subject) o << "  command_endpoint = \"schpeer\"\n";
		if (subject)
			o << "  max_check_attempts = " << a.num("max", 3) << "\n  check_interval = " << (a.num("ci4", 20) / 4.0)
			  << "\n  retry_interval = " << (a.num("ri4", 4) / 4.0) << "\n";
		return o.str();
	};
	c << "object Host \"" << hn << "\" {\n" << attrs(!svc) << "}\n";
	if (svc) c << "object Service \"s\" {\n  host_name = \"" << hn << "\"\n" << attrs(true) << "}\n";
	LoadConfig(c.str());
	l_PcrHost = Host::GetByName(hn);
	if (svc) l_PcrCk = Service::GetByNamePair(hn, "s"); else l_PcrCk = l_PcrHost;
	if (!l_PcrCk) throw std::runtime_error("sch: subject not created");
	l_PcrCk->SetSchedulingOffset(a.num("off"));
	l_PcrRemote = remote ? (a.num("conn", 0) ? 2 : 1) : 0;
	if (l_PcrRemote == 2) {
		Endpoint::Ptr ep = Endpoint::GetByName("schpeer");
		if (!ep) throw std::runtime_error("sch: no peer endpoint");
		std::unique_lock<std::mutex> lock(ep->m_ClientsLock);
		ep->m_Clients.insert(nullptr);   // GetConnected() = there is a client; nothing is sent (no ApiListener instance)
	}
}

VOP(sch_cr)
{
	if (!l_PcrCk) throw std::runtime_error("sch_cr without sch_cnew");
	double now = a.dbl("now");
	Utility::VerifSetTime(now);
	CheckResult::Ptr cr = new CheckResult();
	cr->SetState((ServiceState)a.num("state"));
	double st = a.has("start") ? a.dbl("start") : now;   // start > now: stamped in the future (submitter with a faster clock)
	cr->SetScheduleStart(st); cr->SetScheduleEnd(st); cr->SetExecutionStart(st); cr->SetExecutionEnd(st);
	cr->SetActive(a.num("active", 1) != 0);
	cr->SetOutput("sch");
	auto res = l_PcrCk->ProcessCheckResult(cr);
	std::ostringstream o;
	o << "pcr res=" << (int)res;
	if (res == Checkable::ProcessingResult::Ok)
		o << " ty=" << (long)l_PcrCk->GetStateType() << " next=" << std::llround((l_PcrCk->GetNextCheck() - now) * 10000.0);
	Out(o.str());
}

// sch_exec now=<T> [race=<state>]   the REAL Checkable::ExecuteCheck(); race: a passive result (stamped T+1) is processed in
//                                   the window between `before_check = GetTime()` and `m_CheckRunning = true`
static int l_RaceState = -1;
VOP(sch_exec)
{
	if (!l_PcrCk) throw std::runtime_error("sch_exec without sch_cnew");
	static bool hooked = false;
	if (!hooked) {
		hooked = true;
		Checkable::OnNextCheckChanged.connect([](const Checkable::Ptr& c, const Value&) {
			if (l_RaceState < 0 || c != l_PcrCk) return;
			int st = l_RaceState;
			l_RaceState = -1;
			double t = Utility::GetTime() + 1;
			Utility::VerifSetTime(t);
			CheckResult::Ptr cr = new CheckResult();
			cr->SetState((ServiceState)st);
			cr->SetScheduleStart(t); cr->SetScheduleEnd(t); cr->SetExecutionStart(t); cr->SetExecutionEnd(t);
			cr->SetActive(false);
			cr->SetOutput("sch race");
			c->ProcessCheckResult(cr);
		});
	}
	Utility::VerifSetTime(a.dbl("now"));
	long before = l_DefStarted;
	l_RaceState = a.has("race") ? (int)a.num("race") : -1;
	l_PcrCk->ExecuteCheck();
	l_RaceState = -1;
	if (l_PcrRemote) {
		// remote: the local node executes nothing; what is visible afterwards is next_check (connected: now + timeout + 30) or
		// the UNKNOWN result "not connected" (execution_start = now); ExecuteCheck has released m_CheckRunning on return
		double now = a.dbl("now");
		std::ostringstream o;
		o << "exec remote conn=" << (l_PcrRemote == 2 ? 1 : 0);
		if (l_PcrRemote == 1) {
			CheckResult::Ptr cr = l_PcrCk->GetLastCheckResult();
			o << " got=" << ((cr && cr->GetExecutionStart() == now) ? 1 : 0) << " ty=" << (long)l_PcrCk->GetStateType();
		}
		o << " next=" << std::llround((l_PcrCk->GetNextCheck() - now) * 10000.0);
		Out(o.str());
		return;
	}
	Out(std::string("exec started=") + (l_DefStarted > before ? "1" : "0"));
}

// sch_finish now=<T> state=<s>      the command started by sch_exec delivers its result (ProcessCheckResult, active, local)
VOP(sch_finish)
{
	if (!l_PcrCk) throw std::runtime_error("sch_finish without sch_cnew");
	if (!l_DefCr) { Out("fin none"); return; }
	double now = a.dbl("now");
	Utility::VerifSetTime(now);
	CheckResult::Ptr cr = l_DefCr;
	l_DefCr = nullptr;
	cr->SetState((ServiceState)a.num("state"));
	cr->SetOutput("sch");
	cr->SetExecutionEnd(now); cr->SetScheduleEnd(now);
	auto res = l_PcrCk->ProcessCheckResult(cr);
	Out("fin res=" + std::to_string((int)res));
}

static struct SchCaseEnd { SchCaseEnd() { RegisterCaseEnd([]() { PcrCleanup(); Utility::VerifSetTime(-1); }); } } l_SchCaseEnd;

// sch_run seed=S n=N max=M dur=<ms of storm> tp=<pool threads> imin=<ms> imax=<ms> slow=<pct> thr=<pct> rate=<ops per second>
VOP(sch_run)
{
	InitOnce();
	Utility::VerifSetTime(-1);
	long runNo = ++l_RunNo;
	Rng rng(a.num("seed", 1) * 1000003ull + 17);
	int n0 = a.num("n", 20);
	int maxc = a.num("max", 4);
	long dur_ms = a.num("dur", 3000);
	int tp = a.num("tp", 8);
	long imin = a.num("imin", 50), imax = a.num("imax", 400);
	int slowPct = a.num("slow", 20), thrPct = a.num("thr", 10), stalePct = a.num("stale", 10);
	// asynchronous check commands (percent of the checkables).  Of those, as long as the budget lasts (a quarter of the slots, none
	// below max_concurrent_checks 4: they hold their slot most of the time): 25 % run LONGER than their interval, 15 % do not
	// return before a "timeout" of three intervals - the checkable is back in the idle set all that time and comes up again and again
	int asyncPct = a.num("async", 0);
	int slowBudget = a.num("max", 4) >= 4 ? (int)a.num("max", 4) / 4 : 0;
	// quiet=1|2: no storm.  max is small, checkable 1 is slow and holds the slot; while its check runs it is paused (1) or
	// deleted (2); nothing else happens afterwards.  The completion that frees the slot then notifies nobody
	// (ExecuteCheckHelper only notifies if the checkable is still in pending): the other, due checkables must
	// nevertheless start - the scheduler's own 0.5 s re-poll at the concurrency limit is what guarantees it.
	int quiet = a.num("quiet", 0);
	long rate = a.num("rate", 200);
	long slack_us = a.num("slack", 2500) * 1000;
	long dlo = a.num("dlo", 20), dhi = a.num("dhi", 120);
	int calmMod = a.num("calm", 3);   // checkables with id % calm == 0 are never paused/disabled/deleted: long liveness windows
	int ncap = n0 + std::min((int)(dur_ms * rate / 1000 / 8) + 16, a.num("cap", 1) ? 2 * n0 + 40 : 1000000);   // room for runtime-created objects (bounded: the load stays what the generator planned)

	// at most <par> real-thread cases at a time on this machine (all vdrive processes, all concurrent ./check C04):
	// the cases are timing sensitive and must not load the machine by themselves
	int par = a.num("par", 4);
	int slotFd = -1;
	{
		std::string dir = "/var/tmp/verif_c04_slots";
		Utility::MkDirP(dir, 0777);
		for (long tries = 0; slotFd < 0; tries++) {
			for (int k = 0; k < par && slotFd < 0; k++) {
				int fd = open((dir + "/slot" + std::to_string(k)).c_str(), O_CREAT | O_RDWR, 0666);
				if (fd < 0) continue;
				if (flock(fd, LOCK_EX | LOCK_NB) == 0) slotFd = fd; else close(fd);
			}
			Heartbeat();
			if (slotFd < 0) Utility::Sleep(0.05 + (getpid() % 50) / 1000.0);   // not from rng: the storm must depend on the seed only
		}
	}
	ScriptGlobal::Set("MaxConcurrentChecks", maxc);
	Configuration::Concurrency = std::max(1, tp / 2);
	DrainThreadPool();

	l_Cks.clear();
	{ std::unique_lock<std::mutex> lock(l_IndexMutex); l_Index.clear(); }
	l_Recs.clear();
	for (int i = 0; i < ncap; i++) l_Cks.emplace_back(new CkInfo());
	l_T0 = Utility::GetTime();

	std::string carrier = "schr" + std::to_string(runNo) + "h0";
	long dmax_us = 0;
	auto setup = [&](int id, bool svc) {
		CkInfo& ci = *l_Cks[id];
		ci.ci_us = rng.range(imin, imax) * 1000;
		ci.ri_us = std::max(imin * 1000, ci.ci_us * rng.range(30, 80) / 100);
		ci.calm = calmMod > 0 && id % calmMod == 0;
		int m = (int)rng.range(0, 99);
		ci.mode = m < thrPct ? 3 : (m < thrPct + 15 ? 1 : (m < thrPct + 45 ? 2 : (m < thrPct + 45 + stalePct ? 4 : 0)));
		ci.dur_us = rng.chance(slowPct) ? rng.range(dlo, dhi) * 1000 : (rng.chance(30) ? rng.range(1, 5) * 1000 : 0);
		ci.kind = 0;
		if (asyncPct > 0 && !quiet) {
			// drawn in any case: the stream of random numbers (and with it everything else) does not depend on the budget
			bool as = rng.chance(asyncPct);
			int sub = (int)rng.range(0, 99);
			long f1 = rng.range(120, 250), f2 = rng.range(0, 200);
			if (as && ci.mode != 3) {
				ci.kind = 1;
				long imx = std::max(ci.ci_us, ci.ri_us);
				if (sub < 60 || slowBudget <= 0) ci.dur_us = rng.range(1, 10) * 1000;
				else if (sub < 85) { ci.dur_us = imx * f1 / 100; slowBudget--; }
				else { ci.dur_us = 3 * imx + f2 * 1000; slowBudget--; }
			}
		}
		if (quiet) {
			ci.mode = 0;
			ci.dur_us = (id == 1) ? a.num("hold", 500) * 1000 : 0;
			ci.calm = (id != 1);
		}
		dmax_us = std::max(dmax_us, ci.dur_us);
		return ObjConfig(runNo, id, svc, ci.ci_us, ci.ri_us, carrier, ci.name);
	};
	auto bind = [&](int id) {
		CkInfo& ci = *l_Cks[id];
		Checkable::Ptr o;
		auto bang = ci.name.find('!');
		if (bang == std::string::npos) o = Host::GetByName(ci.name);
		else o = Service::GetByNamePair(ci.name.substr(0, bang), ci.name.substr(bang + 1));
		if (!o) throw std::runtime_error("sch: object not created: " + ci.name);
		{ std::unique_lock<std::mutex> lock(l_IndexMutex); l_Index[o.get()] = id; }
		ci.obj = o;
		ci.exists = true; ci.paused = true; ci.enabled = true; ci.inperiod = true;
	};

	// the checker first (as in the product: activation_priority 300 of CheckerComponent is above the checkables')
	std::string cname = "schchecker" + std::to_string(runNo);
	LoadConfig("object CheckerComponent \"" + cname + "\" { }\n");
	CheckerComponent::Ptr checker = ConfigObject::GetObject<CheckerComponent>(cname);
	if (!checker) throw std::runtime_error("sch: no checker");

	l_Running.store(true);
	int n = 0;
	{
		std::ostringstream cfg;
		for (int i = 0; i < n0; i++)
			cfg << setup(i, i > 0 && (i % 2 == 1));
		n = n0;
		LoadConfig(cfg.str());
		for (int i = 0; i < n0; i++) bind(i);
		long t = NowUs();
		for (int i = 0; i < n0; i++) {
			CkInfo& ci = *l_Cks[i];
			ci.gen++;
			ci.obj->SetAuthority(true);
			ci.paused = false; ci.elig_since = t;
			ci.gen++;
		}
	}
	std::atomic<int> nlive{n};
	std::atomic<bool> stop{false};
	std::atomic<long> hiccup{0};

	std::thread observer([&]() {
		Utility::SetThreadName("sch observer");
		while (!stop.load()) {
			double t = Utility::GetTime();
			Heartbeat();
			Utility::Sleep(0.004);
			long over = std::llround((Utility::GetTime() - t - 0.004) * 1e6);
			if (over > hiccup.load()) hiccup.store(over);
			Snapshot(checker, nlive.load());
		}
	});

	struct Win { int c; long a, b, B; };
	std::vector<Win> wins;
	struct Forced { int c; long t; long until; long t2; };
	std::vector<Forced> forced;
	auto bound = [&](const CkInfo& ci) { return 2 * std::max(ci.ci_us, ci.ri_us) + 2 * dmax_us + slack_us; };
	auto eligible = [](const CkInfo& ci) { return ci.exists && !ci.paused && ci.enabled && ci.inperiod; };
	auto touch = [&](int c, const std::function<void(CkInfo&)>& f) {
		CkInfo& ci = *l_Cks[c];
		bool was = eligible(ci);
		long t = NowUs();
		ci.gen++;
		f(ci);
		ci.gen++;
		long t2 = NowUs();
		bool is = eligible(ci);
		if (was && !is) { wins.push_back({c, ci.elig_since, t, bound(ci)}); ci.elig_since = -1; }
		if (!was && is) ci.elig_since = t2;
		// anything that ends existence or authority cancels outstanding forced-check expectations
		if (!ci.exists || ci.paused)
			for (auto& fr : forced) if (fr.c == c && fr.until < 0) fr.until = t;
	};

	std::thread driver([&]() {
		Utility::SetThreadName("sch driver");
		double endAt = Utility::GetTime() + dur_ms / 1000.0;
		if (quiet) {
			// wait until the slow check of checkable 1 is running, then take it away from the scheduler mid-check
			for (int tries = 0; tries < 5000; tries++) {
				bool running = false;
				{
					std::unique_lock<std::mutex> lock(l_RecMutex);
					for (const Rec& r : l_Recs) {
						if (r.k == 'S' && r.b == 1) running = true;
						if (r.k == 'E' && r.b == 1) running = false;
					}
				}
				if (running) break;
				Utility::Sleep(0.001);
			}
			Utility::Sleep(0.02);
			if (quiet == 1) touch(1, [&](CkInfo& k) { k.obj->SetAuthority(false); k.paused = true; });
			else { Record({'Z', NowUs(), 1}); touch(1, [&](CkInfo& k) { CkRemoveObject(k.obj); k.exists = false; }); }
			Snapshot(checker, nlive.load());
			while (Utility::GetTime() < endAt) Utility::Sleep(0.05);   // silence
			return;
		}
		while (Utility::GetTime() < endAt) {
			Utility::Sleep(rng.range(1, 2000000 / rate) / 1e6);
			int c = (int)rng.range(0, n - 1);
			CkInfo& ci = *l_Cks[c];
			int op = (int)rng.range(0, 99);
			if (!ci.exists) op = 95;   // gone: create a new one instead
			else if (calmMod > 0 && c % calmMod == 0 && (op < 22 || (op >= 56 && op < 90))) op = 22 + (int)rng.range(0, 33);
			if (op < 22) {           // pause / resume (authority lost / regained)
				touch(c, [&](CkInfo& k) { k.obj->SetAuthority(k.paused); k.paused = !k.paused; });
				if (rng.chance(50)) {   // quick flip back: the "resume while pending" window
					if (rng.chance(50)) Utility::Sleep(rng.range(0, 300) / 1e6);
					touch(c, [&](CkInfo& k) { k.obj->SetAuthority(k.paused); k.paused = !k.paused; });
				}
			} else if (op < 27) {    // redundant notification: the generated setter emits OnPausedChanged also when the value is unchanged
				touch(c, [&](CkInfo& k) { ObjectLock olock(k.obj); k.obj->SetPaused(k.paused); });
			} else if (op < 42) {    // reschedule (API reschedule-check without force)
				long d = rng.chance(50) ? 0 : rng.range(0, std::max(ci.ci_us, ci.ri_us));
				touch(c, [&](CkInfo& k) { k.obj->SetNextCheck(Utility::GetTime() + d / 1e6); });
				// a later reschedule moves the key the forced request had set: the request is no longer comparable
				{ long tr = NowUs(); for (auto& fr : forced) if (fr.c == c && fr.until < 0) fr.until = tr; }
			} else if (op < 56) {    // force (API reschedule-check force=true)
				long tf = NowUs();   // BEFORE the request: the forced check may start before SetNextCheck() returns
				for (auto& fr : forced) if (fr.c == c && fr.until < 0) fr.until = tf;   // a new request re-keys c (next_check = now): it supersedes the older one
				Record({'R', tf, c, 0});
				touch(c, [&](CkInfo& k) { tl_Requesting = true; k.obj->SetForceNextCheck(true); tl_Requesting = false; k.obj->SetNextCheck(Utility::GetTime()); });
				Record({'R', NowUs(), c, 1});
				if (!ci.paused) forced.push_back({c, tf, -1, NowUs()});
			} else if (op < 70) {    // enable_active_checks
				touch(c, [&](CkInfo& k) { k.enabled = !k.enabled; k.obj->SetEnableActiveChecks(k.enabled); });
			} else if (op < 80) {    // check period closes / opens
				touch(c, [&](CkInfo& k) { k.inperiod = !k.inperiod; k.obj->SetCheckPeriodRaw(k.inperiod ? "" : "sch_never"); });
			} else if (op < 90) {    // delete at runtime (never the carrier host)
				if (c == 0) continue;
				{ Record({'Z', NowUs(), c}); touch(c, [&](CkInfo& k) { CkRemoveObject(k.obj); k.exists = false; }); }
			} else {                 // create at runtime
				if (n >= ncap) continue;
				int id = n;
				std::string cfg = setup(id, rng.chance(50));
				CkInfo& k = *l_Cks[id];
				k.gen++;
				LoadConfig(cfg);
				bind(id);
				n = id + 1;
				nlive.store(n);
				k.obj->SetAuthority(true);
				k.paused = false;
				k.gen++;
				k.elig_since = NowUs();
			}
			Snapshot(checker, nlive.load());
		}
	});
	driver.join();
	// quiet tail: nothing is touched any more; every eligible checkable must keep running
	Utility::Sleep(a.num("tail", 600) / 1000.0);
	long tEnd = NowUs();
	stop.store(true);
	observer.join();
	for (int c = 0; c < n; c++) {
		CkInfo& ci = *l_Cks[c];
		if (ci.elig_since >= 0) wins.push_back({c, ci.elig_since, tEnd, bound(ci)});
	}
	// stop the scheduler thread, then let every queued/running check finish
	static_pointer_cast<ConfigObject>(checker)->Deactivate(true);
	DrainThreadPool();
	AsyncFlushAll();   // asynchronous executions still outstanding deliver their result now
	l_Running.store(false);
	long pcount = Checkable::GetPendingChecks();
	size_t nidle, npend;
	{
		std::unique_lock<std::mutex> lock(checker->m_Mutex);
		nidle = checker->m_IdleCheckables.size();
		npend = checker->m_PendingCheckables.size();
	}

	{
		std::ostringstream o;
		int nas = 0, nlong = 0;
		for (int c = 0; c < n; c++) { if (l_Cks[c]->kind == 1) { nas++; if (l_Cks[c]->dur_us > std::max(l_Cks[c]->ci_us, l_Cks[c]->ri_us)) nlong++; } }
		o << "cfg max=" << maxc << " n=" << n << " slack=" << slack_us << " dmax=" << dmax_us << " end=" << tEnd << " async=" << nas << " asynclong=" << nlong;
		Out(o.str());
	}
	for (const Rec& r : l_Recs) {
		std::ostringstream o;
		switch (r.k) {
			case 'S': o << "S " << r.a << " " << r.b << " " << r.c << " " << r.d << " " << r.e; break;
			case 'X': o << "X " << r.a << " " << r.b << " " << r.c; break;
			case 'D': o << "D " << r.a << " " << r.b; break;
			case 'C': o << "C " << r.a << " " << r.b; break;
			case 'Z': o << "Z " << r.a << " " << r.b; break;   // the driver is about to delete (deactivate) the checkable
			case 'R': o << "R " << r.a << " " << r.b << " " << r.c; break;
			case 'E': o << "E " << r.a << " " << r.b; break;
			case 'P': o << "P " << r.a << " " << r.s; break;
			case 'N': o << "N " << r.a << " " << r.b << " " << r.c << " " << r.d << " " << r.e << " " << r.f; break;
		}
		Out(o.str());
	}
	for (const Win& w : wins) {
		std::ostringstream o;
		o << "W " << w.c << " " << w.a << " " << w.b << " " << w.B;
		Out(o.str());
	}
	for (const Forced& f : forced) {
		std::ostringstream o;
		o << "F " << f.c << " " << f.t << " " << (f.until < 0 ? tEnd : f.until) << " " << bound(*l_Cks[f.c])
		  << " " << f.t2 << " " << std::max(l_Cks[f.c]->ci_us, l_Cks[f.c]->ri_us);
		Out(o.str());
	}
	{
		std::ostringstream o;
		o << "Q pcount=" << pcount << " idle=" << nidle << " pend=" << npend << " hiccup=" << hiccup.load();
		Out(o.str());
	}

	// clean up: objects of this run (services first), the checker stays allocated (its slots stay connected)
	for (int pass = 0; pass < 2; pass++)
		for (int c = n - 1; c >= 0; c--) {
			CkInfo& ci = *l_Cks[c];
			if (!ci.exists || !ci.obj) continue;
			bool svc = ci.name.find('!') != std::string::npos;
			if ((pass == 0) != svc) continue;
			CkRemoveObject(ci.obj);
			ci.exists = false;
		}
	{
		std::unique_lock<std::mutex> lock(checker->m_Mutex);
		checker->m_IdleCheckables.clear();
		checker->m_PendingCheckables.clear();
	}
	l_OldCheckers.push_back(checker);
	static_pointer_cast<ConfigObject>(checker)->Unregister();
	ConfigItem::Ptr item = ConfigItem::GetByTypeAndName(checker->GetReflectionType(), cname);
	if (item) item->Unregister();
	{ std::unique_lock<std::mutex> lock(l_IndexMutex); l_Index.clear(); }
	l_Cks.clear();
	if (slotFd >= 0) { flock(slotFd, LOCK_UN); close(slotFd); }
}

// ------------------------------------------------------------------ timelines (family tl)
// A quiet scenario: 1-3 hosts that only run when forced or explicitly enabled, whose check command (synchronous or
// asynchronous) runs exactly until the script opens its gate.  Every script step is applied to the REAL objects while the real
// scheduler thread and the real pool run; after each step the harness waits until the system is STABLE - a condition read from
// the real state (idle/pending under m_Mutex, m_PendingChecks, force_next_check), not from any expectation - and prints one
// line with the number of executions started/finished, force_next_check and the set each checkable is in.  The model executes
// the same steps with the extracted step function and must print the same lines.
namespace {
struct TlState {
	bool active = false;
	CheckerComponent::Ptr checker;
	std::string cname;
	int n = 0, maxc = 1;
	long step = 0;
	int slotFd = -1;
	bool unstable = false;   // a step of this case did not settle: the case is lost anyway, later steps do not wait long again
} l_Tl;

std::string TlLine(bool timeout)
{
	std::vector<const Checkable *> idle, pend;
	int pcount;
	{
		std::unique_lock<std::mutex> lock(l_Tl.checker->m_Mutex);
		pcount = Checkable::GetPendingChecks();
		for (const CheckableScheduleInfo& csi : l_Tl.checker->m_IdleCheckables) idle.push_back(csi.Object.get());
		for (const CheckableScheduleInfo& csi : l_Tl.checker->m_PendingCheckables) pend.push_back(csi.Object.get());
	}
	std::ostringstream o;
	o << "tl " << l_Tl.step << (timeout ? " UNSTABLE" : "") << " pc=" << pcount;
	for (int c = 0; c < l_Tl.n; c++) {
		CkInfo& ci = *l_Cks[c];
		char w = '-';
		for (auto p : idle) if (p == ci.obj.get()) w = 'i';
		for (auto p : pend) if (p == ci.obj.get()) w = (w == 'i') ? 'B' : 'p';
		o << " c" << c << ":s=" << ci.nS.load() << ",d=" << ci.nD.load() << ",cl=" << ci.nC.load()
		  << ",f=" << (ci.obj->GetForceNextCheck() ? 1 : 0) << ",w=" << w;
	}
	return o.str();
}

// one sample of the stability condition; sig = what must not change while we watch
bool TlStableSample(std::string& sig)
{
	std::set<const Checkable *> idle, pend;
	int pcount;
	{
		std::unique_lock<std::mutex> lock(l_Tl.checker->m_Mutex);
		pcount = Checkable::GetPendingChecks();
		for (const CheckableScheduleInfo& csi : l_Tl.checker->m_IdleCheckables) idle.insert(csi.Object.get());
		for (const CheckableScheduleInfo& csi : l_Tl.checker->m_PendingCheckables) pend.insert(csi.Object.get());
	}
	bool ok = true;
	long nblocked = 0;
	std::ostringstream o;
	for (int c = 0; c < l_Tl.n; c++) {
		CkInfo& ci = *l_Cks[c];
		const Checkable *p = ci.obj.get();
		long S = ci.nS.load(), D = ci.nD.load();
		bool force = ci.obj->GetForceNextCheck();
		int bl = ci.blocked.load();
		nblocked += bl;
		bool inflight = S > D;
		bool free_slot = pcount < l_Tl.maxc;
		if (pend.count(p) && bl == 0) ok = false;                                  // a helper of c is under way
		if (idle.count(p) && !ci.paused && force && free_slot) ok = false;         // a forced check is owed and can start
		if (!ci.paused && ci.enabled && ci.inperiod && !inflight && free_slot) ok = false;   // a regular check is due soon
		if (ci.gateOpen.load() && inflight) ok = false;                             // an ungated execution is finishing
		o << S << "," << D << "," << ci.nC.load() << "," << force << "," << bl << "," << (idle.count(p) ? 'i' : (pend.count(p) ? 'p' : '-')) << ";";
	}
	if (pcount != nblocked + l_AsyncAlive.load()) ok = false;                      // some ExecuteCheckHelper is between count-up and count-down
	o << pcount;
	sig = o.str();
	return ok;
}

bool TlWaitStable()
{
	double t0 = Utility::GetTime();
	double window = 0.15, since = -1;
	std::string sig0;
	for (;;) {
		double t = Utility::GetTime();
		if (t - t0 > (l_Tl.unstable ? 1.0 : 12.0)) { l_Tl.unstable = true; return false; }
		std::string sig;
		bool ok = TlStableSample(sig);
		if (!ok) since = -1;
		else if (sig != sig0 || since < 0) since = t;
		else if (t - since >= window) return true;
		sig0 = sig;
		Utility::Sleep(0.01);
		double over = Utility::GetTime() - t - 0.01;
		if (over > 0.03) { since = -1; window = std::min(1.0, std::max(window, 5 * over)); }   // the machine stalls: watch longer
	}
}

void TlEmit()
{
	bool st = TlWaitStable();
	Out(TlLine(!st));
	l_Tl.step++;
}

void TlFinish(bool print)
{
	if (!l_Tl.active) return;
	l_Tl.active = false;
	// stop the scheduler thread first (nothing new is dispatched), then open every gate and let everything in flight finish
	static_pointer_cast<ConfigObject>(l_Tl.checker)->Deactivate(true);
	for (int c = 0; c < l_Tl.n; c++) l_Cks[c]->gateOpen.store(true);
	{ std::unique_lock<std::mutex> lock(l_GateMutex); l_GateCV.notify_all(); }
	DrainThreadPool();
	AsyncFlushAll();
	l_Running.store(false);
	long pcount = Checkable::GetPendingChecks();
	size_t npend;
	{
		std::unique_lock<std::mutex> lock(l_Tl.checker->m_Mutex);
		npend = l_Tl.checker->m_PendingCheckables.size();
	}
	if (print) {
		// the order of the records is the order in which their critical sections were entered (one mutex): happens-before
		for (const Rec& r : l_Recs) {
			std::ostringstream o;
			switch (r.k) {
				case 'S': o << "tlev S " << r.b; break;
				case 'E': o << "tlev E " << r.b; break;
				case 'X': o << "tlev X " << r.b << " " << r.c; break;
				case 'C': o << "tlev C " << r.b; break;
				case 'D': o << "tlev D " << r.b; break;
				default: continue;
			}
			Out(o.str());
		}
		std::ostringstream o;
		o << "tl end pcount=" << pcount << " pend=" << npend;
		for (int c = 0; c < l_Tl.n; c++) o << " c" << c << ":s=" << l_Cks[c]->nS.load() << ",d=" << l_Cks[c]->nD.load();
		Out(o.str());
	}
	for (int c = l_Tl.n - 1; c >= 0; c--) if (l_Cks[c]->obj) CkRemoveObject(l_Cks[c]->obj);
	{
		std::unique_lock<std::mutex> lock(l_Tl.checker->m_Mutex);
		l_Tl.checker->m_IdleCheckables.clear();
		l_Tl.checker->m_PendingCheckables.clear();
	}
	l_OldCheckers.push_back(l_Tl.checker);
	static_pointer_cast<ConfigObject>(l_Tl.checker)->Unregister();
	ConfigItem::Ptr item = ConfigItem::GetByTypeAndName(l_Tl.checker->GetReflectionType(), l_Tl.cname);
	if (item) item->Unregister();
	l_Tl.checker = nullptr;
	{ std::unique_lock<std::mutex> lock(l_IndexMutex); l_Index.clear(); }
	l_Cks.clear();
	l_Recs.clear();
}
} // namespace

// sch_tl_new n=<1..3> max=<m> iv=<ms> kinds=<s|a per checkable> gates=<o|c per checkable>
VOP(sch_tl_new)
{
	InitOnce();
	TlFinish(false);
	Utility::VerifSetTime(-1);
	long runNo = ++l_RunNo;
	l_Tl = TlState();
	l_Tl.n = a.num("n", 1);
	l_Tl.maxc = a.num("max", 2);
	long iv_us = a.num("iv", 150) * 1000;
	std::string kinds = a.str("kinds", "s"), gates = a.str("gates", "c");
	ScriptGlobal::Set("MaxConcurrentChecks", l_Tl.maxc);
	Configuration::Concurrency = 2;
	DrainThreadPool();
	l_Cks.clear();
	{ std::unique_lock<std::mutex> lock(l_IndexMutex); l_Index.clear(); }
	l_Recs.clear();
	l_T0 = Utility::GetTime();
	l_Tl.cname = "schtlchecker" + std::to_string(runNo);
	LoadConfig("object CheckerComponent \"" + l_Tl.cname + "\" { }\n");
	l_Tl.checker = ConfigObject::GetObject<CheckerComponent>(l_Tl.cname);
	if (!l_Tl.checker) throw std::runtime_error("sch_tl: no checker");
	std::ostringstream cfg;
	for (int c = 0; c < l_Tl.n; c++) {
		l_Cks.emplace_back(new CkInfo());
		CkInfo& ci = *l_Cks[c];
		ci.tl = true;
		ci.kind = (c < (int)kinds.size() && kinds[c] == 'a') ? 1 : 0;
		ci.gateOpen.store(c < (int)gates.size() && gates[c] == 'o');
		ci.ci_us = ci.ri_us = iv_us;
		ci.name = "schtl" + std::to_string(runNo) + "h" + std::to_string(c);
		cfg << "object Host \"" << ci.name << "\" {\n  check_command = \"schcmd\"\n  max_check_attempts = 1\n  enable_flapping = false\n"
		    << "  enable_active_checks = false\n  check_interval = " << (iv_us / 1e6) << "\n  retry_interval = " << (iv_us / 1e6) << "\n}\n";
	}
	l_Running.store(true);
	l_Tl.active = true;
	LoadConfig(cfg.str());
	for (int c = 0; c < l_Tl.n; c++) {
		CkInfo& ci = *l_Cks[c];
		Checkable::Ptr o = Host::GetByName(ci.name);
		if (!o) throw std::runtime_error("sch_tl: object not created: " + ci.name);
		{ std::unique_lock<std::mutex> lock(l_IndexMutex); l_Index[o.get()] = c; }
		ci.obj = o;
		ci.exists = true; ci.paused = true; ci.enabled = false; ci.inperiod = true;
	}
	for (int c = 0; c < l_Tl.n; c++) { l_Cks[c]->obj->SetAuthority(true); l_Cks[c]->paused = false; }
	TlEmit();
}

// sch_tl_do op=force|enable|disable|close|open|pause|resume|release|hold|resched c=<i>
VOP(sch_tl_do)
{
	if (!l_Tl.active) throw std::runtime_error("sch_tl_do without sch_tl_new");
	int c = a.num("c", 0);
	if (c < 0 || c >= l_Tl.n) throw std::runtime_error("sch_tl_do: no such checkable");
	CkInfo& k = *l_Cks[c];
	std::string op = a.str("op");
	if (op == "force") { tl_Requesting = true; k.obj->SetForceNextCheck(true); tl_Requesting = false; k.obj->SetNextCheck(Utility::GetTime()); }
	else if (op == "enable") { k.enabled = true; k.obj->SetEnableActiveChecks(true); }
	else if (op == "disable") { k.enabled = false; k.obj->SetEnableActiveChecks(false); }
	else if (op == "close") { k.inperiod = false; k.obj->SetCheckPeriodRaw("sch_never"); }
	else if (op == "open") { k.inperiod = true; k.obj->SetCheckPeriodRaw(""); }
	else if (op == "pause") { k.obj->SetAuthority(false); k.paused = true; }
	else if (op == "resume") { k.obj->SetAuthority(true); k.paused = false; }
	else if (op == "resched") { k.obj->SetNextCheck(Utility::GetTime()); }
	else if (op == "hold") { k.gateOpen.store(false); }
	else if (op == "release") {
		k.gateOpen.store(true);
		{ std::unique_lock<std::mutex> lock(l_GateMutex); l_GateCV.notify_all(); }
		bool have = false;
		AsyncJob j;
		{
			std::unique_lock<std::mutex> lock(l_AsyncMutex);
			auto it = l_AsyncHeld.find(c);
			if (it != l_AsyncHeld.end()) { j = it->second; l_AsyncHeld.erase(it); have = true; }
		}
		if (have) AsyncPush(0.0, j);
	}
	else throw std::runtime_error("sch_tl_do: unknown op " + op);
	TlEmit();
}

VOP(sch_tl_end)
{
	if (!l_Tl.active) throw std::runtime_error("sch_tl_end without sch_tl_new");
	TlFinish(true);
}

static struct SchTlCaseEnd { SchTlCaseEnd() { RegisterCaseEnd([]() { TlFinish(false); }); } } l_SchTlCaseEnd;
