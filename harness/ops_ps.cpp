// C14 persistence fixture: real Host/Service objects, real ConfigObject::ModifyAttribute / RestoreAttribute,
// real IcingaApplication::DumpModifiedAttributes + evaluation of the written file, real
// ConfigObject::DumpObjects / RestoreObjects onto freshly created objects, and system-call level observation
// of the three persisting code paths (vdrive re-executes itself under strace).
#include "vdrive.hpp"
#include "base/utility.hpp"
#include "base/configtype.hpp"
#include "base/serializer.hpp"
#include "base/json.hpp"
#include "base/array.hpp"
#include "base/dictionary.hpp"
#include "base/scriptframe.hpp"
#include "base/atomic-file.hpp"
#include "base/configuration.hpp"
#include "config/configitem.hpp"
#include "config/configcompiler.hpp"
#include "icinga/host.hpp"
#include "icinga/service.hpp"
#include "icinga/checkcommand.hpp"
#include "icinga/icingaapplication.hpp"
#include "remote/apilistener.hpp"
#include "remote/configobjectutility.hpp"
#include <fstream>
#include <cmath>
#include <cstring>
#include <sys/wait.h>
#include <unistd.h>
#include <thread>
#include <atomic>
#include <algorithm>

using namespace icinga;

// ------------------------------------------------------------------ canonical value syntax
// N | T | F | D<decimal> | S<hex> | A(v,v,...) | M(<hexkey>:v,...) | O<hextype>
static std::string NumStr(double x)
{
	if (x == 0) return "0";
	char buf[64];
	for (int d = 0; d <= 25; d++) {
		snprintf(buf, sizeof buf, "%.*f", d, x);
		if (strtod(buf, nullptr) == x) return buf;
	}
	snprintf(buf, sizeof buf, "%.17g", x);
	return buf;
}

// Compact forms for LARGE values (both directions, same rules in ocaml/ops_ps.ml and vlib/p_c14.py):
//   R<n>x<hex>  string of n bytes: <hex> repeated cyclically       (printed for strings > 64 bytes with a period <= 8)
//   G<n>(v)     array of n copies of v                               (printed for arrays > 16 elements, all equal)
//   K<n>(v)     dictionary k000000..k<n-1> -> v                      (printed for such dictionaries > 16 entries)
//   W<k>(v)     v inside k nested arrays, V<k>(v) v inside k nested dictionaries {"k": ..}   (input only)
static std::string CanonStr(const std::string& s)
{
	if (s.size() > 64) {
		for (size_t p = 1; p <= 8; p++) {
			bool ok = true;
			for (size_t i = p; i < s.size(); i++) if (s[i] != s[i - p]) { ok = false; break; }
			if (ok) return "R" + std::to_string(s.size()) + "x" + HexEnc(s.substr(0, p));
		}
	}
	return "S" + HexEnc(s);
}

static std::string Canon(const Value& v)
{
	if (v.GetType() == ValueEmpty) return "N";
	if (v.IsBoolean()) return v.ToBool() ? "T" : "F";
	if (v.IsNumber()) return "D" + NumStr(v);
	if (v.IsString()) return CanonStr(String(v).GetData());
	Object::Ptr o = v;
	Array::Ptr arr = dynamic_pointer_cast<Array>(o);
	if (arr) {
		ObjectLock olock(arr);
		std::vector<std::string> items;
		bool same = true;
		for (const Value& x : arr) { items.push_back(Canon(x)); if (items.back() != items.front()) same = false; }
		if (items.size() > 16 && same) return "G" + std::to_string(items.size()) + "(" + items.front() + ")";
		std::string r = "A(";
		for (size_t i = 0; i < items.size(); i++) { if (i) r += ","; r += items[i]; }
		return r + ")";
	}
	Dictionary::Ptr d = dynamic_pointer_cast<Dictionary>(o);
	if (d) {
		ObjectLock olock(d);
		std::vector<std::pair<std::string, std::string>> items;
		bool same = true;
		size_t idx = 0;
		char kb[16];
		for (const auto& kv : d) {
			items.emplace_back(kv.first.GetData(), Canon(kv.second));
			snprintf(kb, sizeof kb, "k%06zu", idx++);
			if (items.back().second != items.front().second || items.back().first != kb) same = false;
		}
		if (items.size() > 16 && same) return "K" + std::to_string(items.size()) + "(" + items.front().second + ")";
		std::string r = "M(";
		for (size_t i = 0; i < items.size(); i++) { if (i) r += ","; r += HexEnc(items[i].first) + ":" + items[i].second; }
		return r + ")";
	}
	return "O" + HexEnc(o->GetReflectionType()->GetName().GetData());
}

static Value ParseVal(const std::string& s, size_t& i)
{
	char c = s.at(i++);
	auto tok = [&]() { size_t j = i; while (j < s.size() && s[j] != ',' && s[j] != ')' && s[j] != ':') j++; std::string t = s.substr(i, j - i); i = j; return t; };
	auto cnt = [&]() { size_t j = i; while (j < s.size() && isdigit((unsigned char)s[j])) j++; size_t n = std::stoul(s.substr(i, j - i)); i = j; return n; };
	switch (c) {
	case 'N': return Empty;
	case 'T': return true;
	case 'F': return false;
	case 'D': return strtod(tok().c_str(), nullptr);
	case 'S': return String(HexDec(tok()));
	case 'R': {
		size_t n = cnt(); i++; // x
		std::string pat = HexDec(tok()), r;
		r.reserve(n);
		while (r.size() < n) r.append(pat, 0, std::min(pat.size(), n - r.size()));
		return String(r);
	}
	case 'A': {
		ArrayData items; i++; // (
		while (s.at(i) != ')') { items.push_back(ParseVal(s, i)); if (s.at(i) == ',') i++; }
		i++;
		return new Array(std::move(items));
	}
	case 'M': {
		Dictionary::Ptr d = new Dictionary(); i++;
		while (s.at(i) != ')') { std::string k = HexDec(tok()); i++; Value x = ParseVal(s, i); d->Set(k, x); if (s.at(i) == ',') i++; }
		i++;
		return d;
	}
	case 'G': case 'K': case 'W': case 'V': {
		size_t n = cnt(); i++; // (
		Value x = ParseVal(s, i);
		i++; // )
		if (c == 'G') { ArrayData items; for (size_t k = 0; k < n; k++) items.push_back(x.IsObject() ? x.Clone() : x); return new Array(std::move(items)); }
		if (c == 'K') { Dictionary::Ptr d = new Dictionary(); char kb[16]; for (size_t k = 0; k < n; k++) { snprintf(kb, sizeof kb, "k%06zu", k); d->Set(kb, x.IsObject() ? x.Clone() : x); } return d; }
		for (size_t k = 0; k < n; k++) {
			if (c == 'W') x = new Array({ x });
			else { Dictionary::Ptr d = new Dictionary(); d->Set("k", x); x = d; }
		}
		return x;
	}
	}
	throw std::runtime_error("bad value syntax");
}
static Value ParseVal(const std::string& s) { size_t i = 0; return ParseVal(s, i); }
// a string argument: hex, or the compact form R<n>x<hex>
static std::string StrArg(const std::string& s) { return (!s.empty() && s[0] == 'R') ? std::string(String(ParseVal(s)).GetData()) : HexDec(s); }

// ------------------------------------------------------------------ fixture
// A population of 1..n hosts ("ps<case>", "ps<case>x1", ...); l_H is object 0 (+ optional service "s" on it).
static bool l_Init = false;
static std::vector<Host::Ptr> l_Hs;
static Host::Ptr l_H;
static Service::Ptr l_S;
static bool l_WithSvc = false;
static bool l_Multi = false;               // print obj=<i> (population scripts)
static size_t l_N = 1;
static std::vector<Value> l_Vars0, l_Notes0; static std::vector<double> l_Ci0;
static std::vector<std::string> l_Slots;   // slot names set in this case, in first-set order

static void InitOnce()
{
	if (l_Init) return;
	l_Init = true;
	LoadConfig("object CheckCommand \"psdummy\" { command = [ \"/bin/true\" ] }\n");
}

static void RemoveObject(const ConfigObject::Ptr& obj)
{
	if (!obj) return;
	Type::Ptr type = obj->GetReflectionType();
	String name = obj->GetName();
	try { obj->Deactivate(true); } catch (...) {}
	obj->Unregister();
	ConfigItem::Ptr item = ConfigItem::GetByTypeAndName(type, name);
	if (item) item->Unregister();
}

static std::string HostName(size_t i = 0) { return "ps" + std::to_string(CaseId()) + (i ? "x" + std::to_string(i) : ""); }

static void RemoveAll()
{
	if (l_S) RemoveObject(l_S);
	for (const Host::Ptr& h : l_Hs) { if (!h) continue; for (const Service::Ptr& sv : h->GetServices()) RemoveObject(sv); RemoveObject(h); }
	l_S = nullptr; l_H = nullptr; l_Hs.clear();
}

static void SetPopulation(size_t n)
{
	l_N = n;
	l_Vars0.assign(n, Value(Empty)); l_Notes0.assign(n, Value(String(""))); l_Ci0.assign(n, 300);
}

static void Create()
{
	InitOnce();
	std::ostringstream c;
	for (size_t i = 0; i < l_N; i++)
		c << "object Host \"" << HostName(i) << "\" {\n  check_command = \"psdummy\"\n  enable_active_checks = false\n  max_check_attempts = 3\n  check_interval = " << NumStr(l_Ci0[i]) << "\n}\n";
	if (l_WithSvc)
		c << "object Service \"s\" {\n  host_name = \"" << HostName(0) << "\"\n  check_command = \"psdummy\"\n  enable_active_checks = false\n  max_check_attempts = 2\n}\n";
	LoadConfig(c.str());
	ApiListener::UpdateObjectAuthority();
	l_Hs.clear();
	for (size_t i = 0; i < l_N; i++) {
		Host::Ptr h = Host::GetByName(HostName(i));
		if (!h) throw std::runtime_error("host not created");
		// configuration values that cannot be spelled in config text without going through the writer under test
		h->SetVars(l_Vars0[i].IsEmpty() ? Dictionary::Ptr() : Dictionary::Ptr(l_Vars0[i].Clone()), true);
		h->SetNotes(l_Notes0[i], true);
		l_Hs.push_back(h);
	}
	l_H = l_Hs[0];
	if (l_WithSvc) l_S = Service::GetByNamePair(HostName(0), "s");
}

// ------------------------------------------------------------------ (ii) modify / restore
static std::string MState(const char *tag, bool ok, size_t i = 0)
{
	std::ostringstream o;
	const Host::Ptr& h = l_Hs.at(i);
	Dictionary::Ptr og = h->GetOriginalAttributes();
	o << tag;
	if (l_Multi) o << " obj=" << i;
	o << " ok=" << (ok ? 1 : 0) << " vars=" << Canon(h->GetVars()) << " ci=" << Canon(h->GetCheckInterval())
	  << " notes=" << Canon(h->GetNotes()) << " orig=" << (og ? Canon(og) : "N") << " ver=" << NumStr(h->GetVersion());
	return o.str();
}

// ps_mnew [n=<objects>] vars=.. notes=.. ci=..  [vars1=.. notes1=.. ci1=.. ...]
VOP(ps_mnew)
{
	l_WithSvc = a.num("svc", 0) != 0;
	l_Multi = a.has("n");
	l_Slots.clear();
	SetPopulation((size_t)a.num("n", 1));
	for (size_t i = 0; i < l_N; i++) {
		std::string sfx = i ? std::to_string(i) : "";
		l_Vars0[i] = a.has("vars" + sfx) ? ParseVal(a.str("vars" + sfx)) : Value(Empty);
		l_Notes0[i] = a.has("notes" + sfx) ? Value(String(HexDec(a.str("notes" + sfx)))) : Value(String(""));
		l_Ci0[i] = a.has("ci" + sfx) ? strtod(a.str("ci" + sfx).c_str(), nullptr) : 300;
	}
	Create();
	for (size_t i = 0; i < l_N; i++) Out(MState("mnew", true, i));
}

VOP(ps_mod)
{
	bool ok = true;
	size_t i = (size_t)a.num("obj", 0);
	try { l_Hs.at(i)->ModifyAttribute(HexDec(a.str("path")), ParseVal(a.str("val"))); } catch (const std::exception&) { ok = false; }
	Out(MState("mod", ok, i));
}

VOP(ps_res)
{
	bool ok = true;
	size_t i = (size_t)a.num("obj", 0);
	try { l_Hs.at(i)->RestoreAttribute(HexDec(a.str("path"))); } catch (const std::exception&) { ok = false; }
	Out(MState("res", ok, i));
}

// evaluation of modified-attributes.conf the way ConfigItem::ActivateItems does it
static bool ReplayModAttrs()
{
	try {
		if (Utility::PathExists(Configuration::ModAttrPath)) {
			std::unique_ptr<Expression> expression = ConfigCompiler::CompileFile(Configuration::ModAttrPath);
			if (expression) { ScriptFrame frame(true); expression->Evaluate(frame); }
		}
	} catch (const std::exception&) { return false; }
	return true;
}

// FNV-1a-64 of the body of every object's block of modified-attributes.conf as the real ConfigWriter wrote it (the lines
// after "if (obj) {" up to and including the closing "}"), keyed by object name; vmodel prints the digest of the text
// the Gallina writer generates for the same block
static std::map<std::string, std::string> ModAttrDigests()
{
	std::map<std::string, std::string> out;
	std::ifstream f(Configuration::ModAttrPath.GetData(), std::ios::binary);
	if (!f) return out;
	std::ostringstream all; all << f.rdbuf();
	std::string s = all.str(), name;
	int state = 0;               // 0 outside, 1 header seen, 2 in body, 3 version line seen
	unsigned long long h = 0;
	size_t p = 0;
	const std::string head = "var obj = get_object(\"Host\", \"";
	while (p < s.size()) {
		size_t e = s.find('\n', p);
		std::string line = s.substr(p, e == std::string::npos ? std::string::npos : e - p + 1);
		p += line.size();
		if (state == 0) {
			if (line.compare(0, head.size(), head) == 0) { name = line.substr(head.size(), line.rfind("\")") - head.size()); state = 1; }
		} else if (state == 1) {
			state = 2; h = 0xcbf29ce484222325ULL;
		} else {
			for (unsigned char c : line) { h ^= c; h *= 0x100000001b3ULL; }
			// the block ends with the line after "<TAB>obj.version = ..." (a bare "}" line also closes nested dictionaries)
			if (state == 3) { char b[32]; snprintf(b, sizeof b, "%016llx", h); out[name] = b; state = 0; }
			else if (line.compare(0, 15, "\tobj.version = ") == 0) state = 3;
		}
	}
	return out;
}
static std::string TxtOf(const std::map<std::string, std::string>& d, size_t i)
{
	auto it = d.find(HostName(i));
	return " txt=" + (it == d.end() ? std::string("-") : it->second);
}

// DumpModifiedAttributes, then "restart": fresh objects from the same configuration, the written file evaluated
VOP(ps_dma)
{
	bool ok = true;
	try {
		IcingaApplication::GetInstance()->DumpModifiedAttributes();
	} catch (const std::exception&) { ok = false; }
	if (!ok) { Out("dma ok=0"); return; }
	auto txt = ModAttrDigests();
	RemoveAll();
	Create();
	ok = ReplayModAttrs();
	for (size_t i = 0; i < l_N; i++) Out(MState("dma", ok, i) + TxtOf(txt, i));
}

// the whole stop/start cycle: DumpProgramState (state file + modified-attributes.conf), fresh objects from the same
// configuration, RestoreObjects, evaluation of modified-attributes.conf (daemoncommand.cpp:289, configitem.cpp:648)
VOP(ps_restart)
{
	try {
		ConfigObject::DumpObjects(Configuration::StatePath);
		IcingaApplication::GetInstance()->DumpModifiedAttributes();
	} catch (const std::exception&) { Out("rst ok=0 dump-throws"); return; }
	auto txt = ModAttrDigests();
	RemoveAll();
	Create();
	try { ConfigObject::RestoreObjects(Configuration::StatePath); } catch (const std::exception&) { Out("rst ok=0 restore-throws"); return; }
	bool ok = ReplayModAttrs();
	for (size_t i = 0; i < l_N; i++) Out(MState("rst", ok, i) + TxtOf(txt, i));
}

// ------------------------------------------------------------------ (i) state round trip
// ps_snew svc=0|1 [n=<hosts>]
VOP(ps_snew)
{
	l_WithSvc = a.num("svc", 0) != 0;
	l_Multi = false;
	SetPopulation((size_t)a.num("n", 1));
	Create();
	l_Slots.clear();
}

// a check result on EVERY host of the population, the output derived from the index (many objects in one state file)
VOP(ps_crall)
{
	double now = Utility::GetTime();
	size_t len = (size_t)a.num("outlen", 20);
	for (size_t i = 0; i < l_Hs.size(); i++) {
		CheckResult::Ptr cr = new CheckResult();
		cr->SetState((ServiceState)((i + a.num("state", 1)) % 4));
		cr->SetScheduleStart(now); cr->SetScheduleEnd(now); cr->SetExecutionStart(now); cr->SetExecutionEnd(now);
		std::string o = "out-" + std::to_string(i) + " ";
		while (o.size() < len) o += (char)('a' + i % 26);
		cr->SetOutput(o);
		cr->SetPerformanceData(new Array({ String("i=" + std::to_string(i)) }));
		l_Hs[i]->ProcessCheckResult(cr);
	}
	Out("crall n=" + std::to_string(l_Hs.size()));
}

static Checkable::Ptr On(const Args& a) { return a.str("on", "host") == "svc" ? Checkable::Ptr(l_S) : Checkable::Ptr(l_H); }
static void Slot(const std::string& n) { for (auto& s : l_Slots) if (s == n) return; l_Slots.push_back(n); }

VOP(ps_cr)
{
	Checkable::Ptr target = On(a);
	std::string on = a.str("on", "host");
	CheckResult::Ptr cr = new CheckResult();
	double now = Utility::GetTime();
	cr->SetState((ServiceState)a.num("state"));
	cr->SetScheduleStart(now); cr->SetScheduleEnd(now); cr->SetExecutionStart(now); cr->SetExecutionEnd(now);
	cr->SetActive(a.num("active", 1) != 0);
	cr->SetOutput(StrArg(a.str("out", "-")));
	if (a.has("cmd")) cr->SetCommand(ParseVal(a.str("cmd")));
	if (a.has("perf")) cr->SetPerformanceData(ParseVal(a.str("perf")));
	auto res = target->ProcessCheckResult(cr);
	Slot(on + ".last_check_result.command"); Slot(on + ".last_check_result.output"); Slot(on + ".last_check_result.performance_data");
	Out("cr res=" + std::to_string((int)res));
}

VOP(ps_ack)
{
	Checkable::Ptr target = On(a);
	target->AcknowledgeProblem(HexDec(a.str("author", "-")), HexDec(a.str("comment", "-")), (AcknowledgementType)a.num("type", 1),
		false, false, Utility::GetTime(), a.dbl("expiry", 0));
	Out("ack");
}

VOP(ps_exec)
{
	Checkable::Ptr target = On(a);
	Value v = ParseVal(a.str("val"));
	target->SetExecutions(v.IsEmpty() ? Dictionary::Ptr() : Dictionary::Ptr(v));
	Slot(a.str("on", "host") + ".executions");
	Out("exec");
}

static Value SlotGet(const std::string& name)
{
	size_t p = name.find('.');
	Checkable::Ptr c = name.substr(0, p) == "svc" ? Checkable::Ptr(l_S) : Checkable::Ptr(l_H);
	std::string rest = name.substr(p + 1);
	if (rest == "executions") return c->GetExecutions();
	CheckResult::Ptr cr = c->GetLastCheckResult();
	if (!cr) return Empty;
	if (rest == "last_check_result.command") return cr->GetCommand();
	if (rest == "last_check_result.output") return cr->GetOutput();
	return cr->GetPerformanceData();
}

// exact, key-sorted text of a serialised state (numbers with %.17g)
static void Exact(const Value& v, std::ostringstream& o)
{
	if (v.IsNumber()) { char b[64]; snprintf(b, sizeof b, "%.17g", (double)v); o << b; return; }
	if (v.IsObjectType<Array>()) { Array::Ptr arr = v; ObjectLock l(arr); o << "["; for (const Value& x : arr) { Exact(x, o); o << ","; } o << "]"; return; }
	if (v.IsObjectType<Dictionary>()) { Dictionary::Ptr d = v; ObjectLock l(d); o << "{"; for (const auto& kv : d) { o << HexEnc(kv.first.GetData()) << ":"; Exact(kv.second, o); o << ","; } o << "}"; return; }
	o << Canon(v);
}
static std::string ExactStr(const Value& v) { std::ostringstream o; Exact(v, o); return o.str(); }

static void Diff(const std::string& pfx, const Dictionary::Ptr& b, const Dictionary::Ptr& af, std::vector<std::string>& out)
{
	std::set<String> keys;
	{ ObjectLock l(b); for (const auto& kv : b) keys.insert(kv.first); }
	{ ObjectLock l(af); for (const auto& kv : af) keys.insert(kv.first); }
	for (const String& k : keys) {
		Value x = b->Get(k), y = af->Get(k);
		if (b->Contains(k) == af->Contains(k) && ExactStr(x) == ExactStr(y)) continue;
		if (k == "last_check_result" && x.IsObjectType<Dictionary>() && y.IsObjectType<Dictionary>())
			Diff(pfx + "last_check_result.", x, y, out);
		else
			out.push_back(pfx + k.GetData());
	}
}

VOP(ps_dumprestore)
{
	std::string file = ScratchDir() + "/data/icinga2.state";
	std::vector<Dictionary::Ptr> bh, fh, ah;
	for (const Host::Ptr& h : l_Hs) bh.push_back(Serialize(h, FAState));
	Dictionary::Ptr bs = l_S ? Dictionary::Ptr(Serialize(l_S, FAState)) : nullptr;
	ConfigObject::DumpObjects(file);
	RemoveAll();
	Create();
	for (const Host::Ptr& h : l_Hs) fh.push_back(Serialize(h, FAState));
	Dictionary::Ptr fs = l_S ? Dictionary::Ptr(Serialize(l_S, FAState)) : nullptr;
	bool threw = false;
	try { ConfigObject::RestoreObjects(file); } catch (const std::exception&) { threw = true; }
	for (const Host::Ptr& h : l_Hs) ah.push_back(Serialize(h, FAState));
	Dictionary::Ptr as = l_S ? Dictionary::Ptr(Serialize(l_S, FAState)) : nullptr;
	std::vector<std::string> diff;
	if (threw) diff.push_back("RESTORE-THROWS");
	// an object none of whose state came back (its record was not read) is reported as "<object>.*"
	auto one = [&diff](const std::string& pfx, const Dictionary::Ptr& b, const Dictionary::Ptr& f, const Dictionary::Ptr& af) {
		std::vector<std::string> d, lost;
		Diff(pfx, b, af, d);
		if (d.empty()) return;
		Diff(pfx, f, af, lost);
		if (lost.empty()) diff.push_back(pfx + "*"); else diff.insert(diff.end(), d.begin(), d.end());
	};
	for (size_t i = 0; i < l_Hs.size(); i++) one(i ? "h" + std::to_string(i) + "." : "host.", bh[i], fh[i], ah[i]);
	if (l_S) one("svc.", bs, fs, as);
	std::string d;
	for (auto& x : diff) { if (!d.empty()) d += ","; d += x; }
	Out(std::string("rt all=") + (diff.empty() ? "1" : "0") + " diff=" + (d.empty() ? "-" : d));
	for (auto& sl : l_Slots) Out("slot " + sl + " " + Canon(SlotGet(sl)));
}

// ------------------------------------------------------------------ (iii) the three persisting writes
static std::string FinalPath(const std::string& what, const std::string& scratch)
{
	if (what == "state") return scratch + "/data/icinga2.state";
	if (what == "modattr") return scratch + "/data/modified-attributes.conf";
	return scratch + "/data/api/packages/_api";   // prefix; the file is <stage>/conf.d/hosts/psrt.conf
}

// executed in the child: do the persisting write once; a write that throws (injected ENOSPC, EIO ...) is reported, the
// process goes on as the daemon does (the callers of DumpProgramState log the exception)
VOP(ps_persist)
{
	std::string what = a.str("what");
	bool threw = false;
	try {
		if (what == "state") ConfigObject::DumpObjects(Configuration::StatePath);
		else if (what == "modattr") IcingaApplication::GetInstance()->DumpModifiedAttributes();
		else {
			Array::Ptr errors = new Array();
			Dictionary::Ptr vars = new Dictionary(); vars->Set("k", String(a.str("tag", "v")));
			Dictionary::Ptr attrs = new Dictionary(); attrs->Set("check_command", "psdummy"); attrs->Set("vars", vars);
			String cfg = ConfigObjectUtility::CreateObjectConfig(Host::TypeInstance, "psrt", false, nullptr, attrs);
			if (!ConfigObjectUtility::CreateObject(Host::TypeInstance, "psrt", cfg, errors, nullptr))
				threw = true;
		}
	} catch (const std::exception&) { threw = true; }
	Out("persist " + what + (threw ? " threw" : ""));
}

// executed in the child: copy the final file as it is now
VOP(ps_keep)
{
	std::string fin = a.str("what") == "state" ? Configuration::StatePath.GetData() : Configuration::ModAttrPath.GetData();
	std::ifstream in(fin, std::ios::binary);
	if (in) { std::ofstream o(fin + "." + a.str("as"), std::ios::binary); o << in.rdbuf(); }
	Out("keep");
}

VOP(ps_mark) { (void)unlink("/nonexistent/verif-mark"); Out("mark"); }

static std::string ReadFile(const std::string& p, bool& exists)
{
	std::ifstream f(p, std::ios::binary);
	exists = (bool)f;
	std::ostringstream o; o << f.rdbuf();
	return o.str();
}

static int RunChild(const std::string& scratch, const std::string& script, const std::string& stracePrefix)
{
	char self[4096]; ssize_t n = readlink("/proc/self/exe", self, sizeof self - 1); self[n > 0 ? n : 0] = 0;
	std::string cmd = stracePrefix + " " + self + " " + scratch + " " + script + " " + script + ".out >/dev/null 2>&1";
	return system(cmd.c_str());
}

static std::string ObjCfgFile(const std::string& scratch)
{
	std::string found;
	Utility::GlobRecursive(scratch + "/data/api/packages/_api", "psrt.conf", [&found](const String& p) { found = p.GetData(); }, GlobFile);
	return found;
}

// fault = true: after the write under test the child keeps a copy of the final file ("<final>.after"), repeats the write
// undisturbed (the injection is one-shot) and keeps that too ("<final>.clean"): the reference for "complete new
// version" then comes from the very same process state (the state file contains scheduling offsets drawn at random)
static std::string ChildScript(const std::string& what, bool first, bool second, const std::string& dir, const std::string& name, bool fault = false)
{
	std::string p = dir + "/" + name;
	std::ofstream f(p);
	f << "now 2000000100\ncase 1\nps_mnew vars=M(61:D1) svc=1\nps_mod path=766172732e61 val=D2\nps_cr on=host state=2 out=6f6c64\n";
	if (first) f << "ps_persist what=" << what << " tag=old\n";
	// the new version is several stream buffers long: the write window has several write(2) calls
	f << "now 2000000200\nps_cr on=svc state=1 out=R20000x6e6577\nps_mod path=766172732e62 val=S6e6577\nps_mark\n";
	if (second) f << "ps_persist what=" << what << " tag=new\n";
	f << "ps_mark\n";
	if (fault && what != "objcfg") f << "ps_keep what=" << what << " as=after\nps_persist what=" << what << " tag=new\nps_keep what=" << what << " as=clean\n";
	f << "end\n";
	return p;
}

// ps_atomic what=state|modattr|objcfg : strace the second write, print the calls that touch the final path or its temp files
VOP(ps_atomic)
{
	std::string what = a.str("what");
	static long l_AtSeq = 0;
	std::string dir = ScratchDir() + "/at" + std::to_string(CaseId()) + "_" + std::to_string(++l_AtSeq);
	Utility::MkDirP(dir, 0700);
	std::string scratch = dir + "/s";
	bool objcfg = what == "objcfg";
	std::string script = ChildScript(what, !objcfg, true, dir, "trace.script");
	std::string tr = dir + "/strace.out";
	int rc = RunChild(scratch, script, "strace -f -y -s 0 -o " + tr + " -e trace=openat,open,creat,write,pwrite64,writev,fsync,fdatasync,rename,renameat,renameat2,close,unlink,unlinkat,chmod,fchmod,fchmodat,truncate,ftruncate,link,linkat");
	if (rc != 0) { Out("atomic child-rc=" + std::to_string(rc)); Out("sysend"); return; }
	std::string fin = objcfg ? ObjCfgFile(scratch) : FinalPath(what, scratch);
	if (fin.empty()) { Out("atomic no-final-file"); Out("sysend"); return; }
	std::ifstream f(tr);
	std::string line, last;
	int marks = 0;
	while (std::getline(f, line)) {
		if (line.find("verif-mark") != std::string::npos) { marks++; continue; }
		if (marks != 1) continue;
		if (line.find("resumed>") != std::string::npos) continue;
		if (line.find(fin) == std::string::npos) continue;
		size_t sp = line.find(' ');
		std::string call = line.substr(sp + 1, line.find('(') - sp - 1);
		while (!call.empty() && call[0] == ' ') call.erase(0, 1);
		bool failed = line.find(" = -1 ") != std::string::npos;
		bool temp = line.find(fin + ".tmp.") != std::string::npos;
		// does the call name the final path itself (not only a temp file of it)
		bool final_ = false;
		for (size_t p = line.find(fin); p != std::string::npos; p = line.find(fin, p + 1)) {
			char nx = p + fin.size() < line.size() ? line[p + fin.size()] : ' ';
			if (nx == '"' || nx == '>') final_ = true;
		}
		std::string ev;
		if (call == "rename" || call == "renameat" || call == "renameat2") ev = (temp && final_) ? "rename" : (final_ ? "rename-final-other" : "rename-temp-other");
		else if (final_ && !temp) {
			if (call == "openat" || call == "open" || call == "creat") {
				if (line.find("O_TRUNC") != std::string::npos || line.find("O_CREAT") != std::string::npos || call == "creat") ev = "trunc-final";
				else if (line.find("O_WRONLY") != std::string::npos || line.find("O_RDWR") != std::string::npos) ev = "openw-final";
				else continue;
			} else if (call == "write" || call == "pwrite64" || call == "writev") ev = "write-final";
			else if (call == "unlink" || call == "unlinkat") ev = "unlink-final";
			else if (call == "truncate" || call == "ftruncate") ev = "trunc-final";
			else if (call == "link" || call == "linkat") ev = "link-final";
			else continue;   // close/fsync/chmod of the final path do not change its content
		} else if (temp) {
			if (call == "openat" || call == "open") ev = "open-temp";
			else if (call == "chmod" || call == "fchmod" || call == "fchmodat") ev = "chmod-temp";
			else if (call == "write" || call == "pwrite64" || call == "writev") ev = "write";
			else if (call == "fsync" || call == "fdatasync") ev = "fsync";
			else if (call == "close") ev = "close";
			else if (call == "unlink" || call == "unlinkat") ev = "unlink-temp";
			else ev = "other-temp-" + call;
		} else continue;
		if (failed) continue;
		if (ev == "write" && last == "write") continue;     // the number of write calls is a buffering detail
		last = ev;
		Out("sys " + ev);
	}
	if (marks < 2) Out("atomic incomplete-child");
	Out("sysend");
}

// reference contents of the old and the new version (deterministic: virtual clock, same script), once per process
struct PsRef { bool ready = false; bool oldExists = false; std::string oldC, newC; };
static PsRef& Ref(const std::string& what)
{
	static std::map<std::string, PsRef> refs;
	PsRef& r = refs[what];
	if (r.ready) return r;
	std::string dir = ScratchDir() + "/ref_" + what;
	Utility::MkDirP(dir, 0700);
	bool objcfg = what == "objcfg", e;
	if (RunChild(dir + "/new", ChildScript(what, !objcfg, true, dir, "new.script"), "") != 0) throw std::runtime_error("reference run failed");
	std::string finNew = objcfg ? ObjCfgFile(dir + "/new") : FinalPath(what, dir + "/new");
	r.newC = ReadFile(finNew, e);
	if (!e) throw std::runtime_error("reference run wrote nothing");
	if (!objcfg) {
		if (RunChild(dir + "/old", ChildScript(what, true, false, dir, "old.script"), "") != 0) throw std::runtime_error("reference run failed");
		r.oldC = ReadFile(FinalPath(what, dir + "/old"), r.oldExists);
	}
	r.ready = true;
	return r;
}

static void PlaceOld(const std::string& what, const std::string& scratch)
{
	PsRef& r = Ref(what);
	if (!r.oldExists) return;
	Utility::MkDirP(scratch + "/data", 0700);
	std::ofstream f(FinalPath(what, scratch), std::ios::binary);
	f << r.oldC;
}

// number of <call>s the main thread issues before the first mark / between the marks (strace counts per thread)
static std::pair<long, long> CallCounts(const std::string& what, const std::string& call)
{
	static std::map<std::string, std::pair<long, long>> cache;
	auto it = cache.find(what + "/" + call);
	if (it != cache.end()) return it->second;
	std::string dir = ScratchDir() + "/cnt_" + what + "_" + call;
	Utility::MkDirP(dir, 0700);
	PlaceOld(what, dir + "/s");
	std::string script = ChildScript(what, false, true, dir, "dry.script");
	std::string out = dir + "/strace.out";
	RunChild(dir + "/s", script, "strace -f -o " + out + " -e trace=unlink," + call);
	std::string mainPid;
	{ std::ifstream f(out); std::string line; while (std::getline(f, line)) if (line.find("verif-mark") != std::string::npos) { mainPid = line.substr(0, line.find(' ')); break; } }
	long base = 0, total = 0; int marks = 0;
	std::ifstream f(out); std::string line;
	while (std::getline(f, line)) {
		if (line.substr(0, line.find(' ')) != mainPid) continue;
		if (line.find("verif-mark") != std::string::npos) { marks++; continue; }
		if (line.find("resumed>") != std::string::npos) continue;
		if (line.find(" " + call + "(") == std::string::npos) continue;
		if (marks == 0) base++; else if (marks == 1) total++;
	}
	return cache[what + "/" + call] = std::make_pair(base, total);
}

// SIGKILL or an injected error at the k-th <call> of the second write, the old version being on disk; afterwards the
// final file must be byte-identical to the old or the new version and loadable
static void Injected(const Args& a, const char *tag, const std::string& inject, bool fault = false)
{
	std::string what = a.str("what"), call = a.str("call");
	bool objcfg = what == "objcfg";
	PsRef& r = Ref(what);
	auto cnt = CallCounts(what, call);
	long n = a.num("n");
	if (n > cnt.second) { Out(std::string(tag) + " beyond"); return; }
	static long l_KillSeq = 0;
	std::string dir = ScratchDir() + "/k" + std::to_string(CaseId()) + "_" + what + "_" + call + std::to_string(n) + "_" + std::to_string(++l_KillSeq);
	Utility::MkDirP(dir, 0700);
	PlaceOld(what, dir + "/s");
	std::string script = ChildScript(what, false, true, dir, "kill.script", fault);
	int rc = RunChild(dir + "/s", script, "strace -f -o /dev/null -e trace=" + call + " -e inject=" + call + ":" + inject + ":when=" + std::to_string(cnt.first + n));
	bool exists = false;
	std::string fin = objcfg ? ObjCfgFile(dir + "/s") : FinalPath(what, dir + "/s");
	std::string newC = r.newC;
	if (fault && !objcfg) {
		// the file as the faulted write left it, and the same process's undisturbed write as the reference
		bool e2 = false;
		newC = ReadFile(fin + ".clean", e2);
		if (!e2) { Out(std::string(tag) + " ok=0 loadable=0 killed=" + (rc != 0 ? "1" : "0") + " finished=0 which=no-reference"); return; }
		fin = fin + ".after";
	}
	std::string got = fin.empty() ? std::string() : ReadFile(fin, exists);
	std::string which = !exists ? "absent" : (got == newC ? "new" : (r.oldExists && got == r.oldC ? "old" : "other"));
	bool ok = which == "new" || which == "old" || (which == "absent" && !r.oldExists);
	bool loadable = true;
	if (exists) {
		try {
			if (what == "state") ConfigObject::RestoreObjects(fin);
			else { std::unique_ptr<Expression> ex = ConfigCompiler::CompileFile(fin); }
		} catch (const std::exception&) { loadable = false; }
	}
	// did the child come to its end (second mark) - a fault must not take the process down
	bool finished = false;
	{ std::ifstream f(script + ".out"); std::string line; int marks = 0; while (std::getline(f, line)) if (line == "mark") marks++; finished = marks >= 2; }
	Out(std::string(tag) + " ok=" + (ok ? "1" : "0") + " loadable=" + (loadable ? "1" : "0") + " killed=" + (rc != 0 ? "1" : "0") +
		" finished=" + (finished ? "1" : "0") + " which=" + which);
}

// ps_kill what=... call=<syscall> n=<k>
VOP(ps_kill) { Injected(a, "kill", "signal=KILL"); }

// ps_fault what=... call=<syscall> n=<k> err=<ERRNO> : the k-th <call> of the write window fails with <ERRNO> (disk full,
// I/O error, quota ...); the process goes on; the file must be the complete old or the complete new version
VOP(ps_fault) { Injected(a, "fault", "error=" + a.str("err", "ENOSPC"), true); }

// ------------------------------------------------------------------ (iv) the final dump at shutdown next to a periodic dump
// IcingaApplication::DumpProgramState() is called by the retention timer's callback (a pool thread) and by OnShutdown()
// (main thread; it stops the timer without waiting for a running callback).  Directed two-thread schedules WITHOUT any
// hook in the code under test: a dump is held inside its serialisation by an ObjectLock on a host it must serialise
// (SerializeObject locks every object; the lock is recursive, so the thread that owns it passes).
//   ps_dumpstate                       one complete DumpProgramState ("the previous periodic dump")
//   ps_shutdown sched=parked val=<v> state=<k>       (needs >= 2 hosts; the lock of the LAST host is owned by a holder thread)
//        periodic dump (thread Y) held at the last host at the latest, its temp file created;  change: notes of host 0 := v,
//        a check result with state k on every host but the last;  the shutdown dump (thread Z): clean-up, own temp file, held
//        too;  both released;  [observation by Z when its dump has returned].  An implementation that makes the second
//        caller wait (no temp file of Z within 1.5 s) or return at once is simply released.
//   ps_shutdown sched=late val=<v> state=<k>
//        change;  the shutdown dump (thread X, owns the lock of host 0) held at the last host with its temp file created;  a
//        periodic dump (thread Y) begins: clean-up of <file>.tmp.*, own temp file;  both released;  [observation by X when its
//        dump has returned or thrown, while Y is still held on X's lock].
// Observation = the two files as they are when the shutdown dump has returned (what the next start finds if the process
// exits now): did the dump throw; are the files byte-identical to those before (stale).  Unless it threw: fresh
// objects from the same configuration, RestoreObjects + evaluation of modified-attributes.conf FROM THOSE FILES, compared.
VOP(ps_dumpstate)
{
	bool threw = false;
	try { IcingaApplication::GetInstance()->DumpProgramState(); } catch (const std::exception&) { threw = true; }
	Out(std::string("dumpstate") + (threw ? " threw" : ""));
}

static std::vector<std::string> PsTempFiles(const std::string& fin)
{
	std::vector<std::string> r;
	try { Utility::Glob(fin + ".tmp.*", [&r](const String& p) { r.push_back(p.GetData()); }, GlobFile); } catch (...) {}
	return r;
}

template<typename F> static bool PsWaitFor(F cond, int ms = 5000)
{
	for (int i = 0; i < ms * 2; i++) { if (cond()) return true; usleep(500); }
	return false;
}

VOP(ps_shutdown)
{
	std::string sched = a.str("sched", "parked");
	IcingaApplication::Ptr app = IcingaApplication::GetInstance();
	std::string sp = Configuration::StatePath.GetData(), mp = Configuration::ModAttrPath.GetData();
	bool e1 = false, e2 = false;
	std::string oldS = ReadFile(sp, e1), oldM = ReadFile(mp, e2);
	std::string snapS, snapM;
	bool snapSe = false, snapMe = false, threw = false, pto = false;
	std::vector<Dictionary::Ptr> bh;
	std::string modLine;
	Dictionary::Ptr parkBefore = Serialize(l_Hs.back(), FAState);
	auto change = [&](bool all) {
		bool mok = true;
		try { l_Hs.at(0)->ModifyAttribute("notes", ParseVal(a.str("val", "S78"))); } catch (const std::exception&) { mok = false; }
		modLine = MState("mod", mok, 0);
		double now = Utility::GetTime();
		for (size_t i = 0; i + (all ? 0 : 1) < l_Hs.size(); i++) {
			CheckResult::Ptr cr = new CheckResult();
			cr->SetState((ServiceState)((i + a.num("state", 2)) % 4));
			cr->SetScheduleStart(now); cr->SetScheduleEnd(now); cr->SetExecutionStart(now); cr->SetExecutionEnd(now);
			cr->SetOutput("shutdown-" + std::to_string(i) + "-" + a.str("val", "S78"));
			l_Hs[i]->ProcessCheckResult(cr);
		}
		// (the held host is not changed here and cannot be read while its lock is taken: its snapshot was made before)
		for (size_t i = 0; i < l_Hs.size(); i++) bh.push_back((!all && i + 1 == l_Hs.size()) ? parkBefore : Dictionary::Ptr(Serialize(l_Hs[i], FAState)));
	};
	auto observe = [&]() { snapS = ReadFile(sp, snapSe); snapM = ReadFile(mp, snapMe); };
	// the object a dump is held at: the LAST host, its lock owned by a holder thread (never by a thread that calls
	// DumpProgramState: an implementation that serialises its callers must not dead-lock the schedule)
	Host::Ptr park = l_Hs.back();
	std::atomic<bool> held{false}, release{false};
	std::thread holder;
	auto hold = [&]() {
		holder = std::thread([&]() { ObjectLock l(park); held = true; while (!release.load()) usleep(200); });
		PsWaitFor([&]() { return held.load(); });
	};
	auto otherTemp = [&](const std::vector<std::string>& known) {
		for (auto& t : PsTempFiles(sp)) if (std::find(known.begin(), known.end(), t) == known.end()) return true;
		return false;
	};
	if (sched == "parked") {
		hold();
		std::atomic<bool> ydone{false}, zdone{false};
		std::thread y([&]() { try { app->DumpProgramState(); } catch (const std::exception&) {} ydone = true; });      // the periodic dump
		std::vector<std::string> yt;
		if (!PsWaitFor([&]() { yt = PsTempFiles(sp); return !yt.empty() || ydone.load(); })) pto = true;
		usleep(30000);                                   // it is inside its serialisation now, held at the last host at the latest
		change(false);                                   // not the held host (its lock is taken)
		std::thread z([&]() {                            // OnShutdown's dump
			try { app->DumpProgramState(); } catch (const std::exception&) { threw = true; }
			observe();
			zdone = true;
		});
		// its clean-up and its own temp file (or: it returned at once / it waits for the other dump - then there is none)
		PsWaitFor([&]() { return otherTemp(yt) || zdone.load(); }, 1500);
		usleep(30000);
		release = true;
		z.join(); y.join();
	} else if (sched == "late") {
		change(true);
		hold();
		std::atomic<bool> xdone{false}, ydone{false};
		std::thread x([&]() {
			ObjectLock lockB(l_Hs.at(0));                  // keeps the other dump inside its serialisation until X has observed
			try { app->DumpProgramState(); } catch (const std::exception&) { threw = true; }
			observe();
			xdone = true;
		});
		std::vector<std::string> xt;
		if (!PsWaitFor([&]() { xt = PsTempFiles(sp); return !xt.empty() || xdone.load(); })) pto = true;
		usleep(30000);
		std::thread y([&]() { try { app->DumpProgramState(); } catch (const std::exception&) {} ydone = true; });
		// (a DumpProgramState that serialises its callers keeps Y in front of its clean-up: then there is no such file - go on)
		PsWaitFor([&]() { return otherTemp(xt) || ydone.load(); }, 1500);
		usleep(30000);
		release = true;
		x.join(); y.join();
	} else {
		change(true);
		try { app->DumpProgramState(); } catch (const std::exception&) { threw = true; }
		observe();
	}
	release = true;
	if (holder.joinable()) holder.join();
	bool stale = (snapSe == e1 && snapS == oldS) || (snapMe == e2 && snapM == oldM);
	Out(modLine);
	Out(std::string("shut threw=") + (threw ? "1" : "0") + " stale=" + (stale ? "1" : "0") + (pto ? " pto=1" : ""));
	if (sched == "late") return;
	// the disk as it was when the shutdown dump returned
	{ std::ofstream f(sp, std::ios::binary | std::ios::trunc); f << snapS; }
	{ std::ofstream f(mp, std::ios::binary | std::ios::trunc); f << snapM; }
	auto txt = ModAttrDigests();
	RemoveAll();
	Create();
	std::vector<Dictionary::Ptr> fh, ah;
	for (const Host::Ptr& h : l_Hs) fh.push_back(Serialize(h, FAState));
	bool rthrew = false;
	try { ConfigObject::RestoreObjects(sp); } catch (const std::exception&) { rthrew = true; }
	bool ok = !rthrew && ReplayModAttrs();
	for (size_t i = 0; i < l_N; i++) Out(MState("rst", ok, i) + TxtOf(txt, i));
	for (const Host::Ptr& h : l_Hs) ah.push_back(Serialize(h, FAState));
	std::vector<std::string> diff;
	for (size_t i = 0; i < l_Hs.size() && i < bh.size(); i++) {
		std::vector<std::string> d;
		Diff("h" + std::to_string(i) + ".", bh[i], ah[i], d);
		diff.insert(diff.end(), d.begin(), d.end());
	}
	std::string d;
	for (auto& x : diff) { if (!d.empty()) d += ","; d += x; }
	Out(std::string("st all=") + (diff.empty() ? "1" : "0") + " diff=" + (d.empty() ? "-" : d));
}

static struct PsCaseEnd {
	PsCaseEnd() {
		RegisterCaseEnd([]() {
			RemoveAll();
			l_Slots.clear();
			ConfigObject::Ptr rt = Host::GetByName("psrt");
			if (rt) RemoveObject(rt);
		});
	}
} l_PsCaseEnd;
