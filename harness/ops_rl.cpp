// C12 replay log: the REAL ApiListener (no PKI, no sockets) on a scratch api/log directory, real
// Zone/Endpoint objects from config text, real JsonRpcConnection objects over no stream on a
// harness-owned io_context (messages are observed in the connection's outgoing queue).
#include "vdrive.hpp"
#include "base/utility.hpp"
#include "base/configtype.hpp"
#include "base/stdiostream.hpp"
#include "base/json.hpp"
#include "base/convert.hpp"
#include "base/configuration.hpp"
#include "remote/apilistener.hpp"
#include "remote/apifunction.hpp"
#include "remote/endpoint.hpp"
#include "remote/zone.hpp"
#include "remote/jsonrpcconnection.hpp"
#include <boost/asio/io_context.hpp>
#include <fstream>
#include <algorithm>
#include <sys/stat.h>
#include <unistd.h>

using namespace icinga;

namespace {

const int NEP = 6; // model ids 1..6: m2 p1 a1 a2 b1 c1
Endpoint::Ptr l_Ep[NEP + 1];
JsonRpcConnection::Ptr l_Cl[NEP + 1];
ApiListener::Ptr l_L;
boost::asio::io_context *l_Io = nullptr;
bool l_Init = false;
long l_Probe = 0, l_Fwd = 0;

ConfigObject::Ptr SecObjOf(const std::string& k)
{
	if (k == "-" || k.empty()) return nullptr;
	if (k[0] == 'z') return Zone::GetByName("rl-" + k);          // zp zm za zb zc zg : the zone itself
	return ConfigObject::GetObject("CheckCommand", "rl-" + k);    // op om oa ob oc og
}

std::string LogDir() { return std::string(ApiListener::GetApiDir().CStr()) + "log/"; }

void InitOnce()
{
	if (l_Init) return;
	l_Init = true;
	l_Io = new boost::asio::io_context();
	LoadConfig(
		"object Endpoint \"rl-l\" {}\nobject Endpoint \"rl-m2\" {}\nobject Endpoint \"rl-p1\" {}\n"
		"object Endpoint \"rl-ax\" {}\nobject Endpoint \"rl-ay\" {}\nobject Endpoint \"rl-b1\" {}\nobject Endpoint \"rl-c1\" {}\n"
		"object Zone \"rl-zp\" { endpoints = [ \"rl-p1\" ] }\n"
		"object Zone \"rl-zm\" { endpoints = [ \"rl-l\", \"rl-m2\" ]; parent = \"rl-zp\" }\n"
		"object Zone \"rl-za\" { endpoints = [ \"rl-ax\", \"rl-ay\" ]; parent = \"rl-zm\" }\n"
		"object Zone \"rl-zb\" { endpoints = [ \"rl-b1\" ]; parent = \"rl-zm\" }\n"
		"object Zone \"rl-zc\" { endpoints = [ \"rl-c1\" ]; parent = \"rl-za\" }\n"
		"object Zone \"rl-zg\" { global = true }\n"
		"object CheckCommand \"rl-op\" { command = [ \"/bin/true\" ]; zone = \"rl-zp\" }\n"
		"object CheckCommand \"rl-om\" { command = [ \"/bin/true\" ]; zone = \"rl-zm\" }\n"
		"object CheckCommand \"rl-oa\" { command = [ \"/bin/true\" ]; zone = \"rl-za\" }\n"
		"object CheckCommand \"rl-ob\" { command = [ \"/bin/true\" ]; zone = \"rl-zb\" }\n"
		"object CheckCommand \"rl-oc\" { command = [ \"/bin/true\" ]; zone = \"rl-zc\" }\n"
		"object CheckCommand \"rl-og\" { command = [ \"/bin/true\" ]; zone = \"rl-zg\" }\n");
	l_Ep[1] = Endpoint::GetByName("rl-m2");
	l_Ep[2] = Endpoint::GetByName("rl-p1");
	// Zone::GetEndpoints() is a pointer-ordered std::set: the model's a1 is the one iterated first
	Endpoint::Ptr ax = Endpoint::GetByName("rl-ax"), ay = Endpoint::GetByName("rl-ay");
	if (std::less<Endpoint*>()(ay.get(), ax.get())) std::swap(ax, ay);
	l_Ep[3] = ax; l_Ep[4] = ay;
	l_Ep[5] = Endpoint::GetByName("rl-b1");
	l_Ep[6] = Endpoint::GetByName("rl-c1");
	for (int i = 1; i <= NEP; i++) if (!l_Ep[i]) throw std::runtime_error("endpoint missing");
	ApiFunction::Register("vf::probe", new ApiFunction([](const MessageOrigin::Ptr&, const Dictionary::Ptr&) -> Value { l_Probe++; return Empty; }));
	// the handler of a cluster event that is relayed on (what e.g. event::CheckResult's handler ends in: RelayMessage(origin, secobj, message, true));
	// the origin is the one JsonRpcConnection::MessageHandler built
	ApiFunction::Register("vf::fwd", new ApiFunction([](const MessageOrigin::Ptr& origin, const Dictionary::Ptr& params) -> Value {
		l_Fwd++;
		Dictionary::Ptr ev = new Dictionary({ { "id", params->Get("id") } });
		Dictionary::Ptr message = new Dictionary({ { "jsonrpc", "2.0" }, { "method", "vf::ev" }, { "params", ev } });
		String sec = params->Get("sec");
		l_L->SyncRelayMessage(origin, SecObjOf(sec.GetData()), message, true);
		return Empty;
	}));
}

void NewListener()
{
	l_L = new ApiListener();
	l_L->SetIdentity("rl-l");
	l_L->m_LocalEndpoint = Endpoint::GetByName("rl-l");
	ApiListener::m_Instance = l_L;
	std::unique_lock<std::mutex> lock(l_L->m_LogLock);
	l_L->OpenLogFile();   // what Start() does
}

void Poll() { l_Io->poll(); l_Io->restart(); }

void DropClient(int i)
{
	if (!l_Cl[i]) return;
	l_Ep[i]->RemoveClient(l_Cl[i]);
	l_Cl[i]->m_ShuttingDown.store(true);
	l_Cl[i] = nullptr;
}

long FindNum(const std::string& s, const std::string& key)
{
	auto p = s.find(key);
	if (p == std::string::npos) return -1;
	p += key.size();
	if (p >= s.size() || !isdigit((unsigned char)s[p])) return -1;
	long v = 0;
	int n = 0;
	while (p < s.size() && isdigit((unsigned char)s[p]) && n < 15) { v = v * 10 + (s[p] - '0'); p++; n++; }
	return v;
}

// raw messages queued on a connection; clears the queue
std::vector<std::string> CollectQueue(int i)
{
	Poll();
	std::vector<std::string> r;
	if (!l_Cl[i]) return r;
	for (const String& m : l_Cl[i]->m_OutgoingMessagesQueue) r.push_back(m.GetData());
	l_Cl[i]->m_OutgoingMessagesQueue.clear();
	return r;
}

bool IsSetLogPosition(const std::string& s)
{
	return s.find("\"log::SetLogPosition\"") != std::string::npos && s.find("\"ts\"") == std::string::npos;
}

// canonical rendering
std::string Render(const std::vector<std::string>& q)
{
	std::string r;
	for (const std::string& s : q) {
		if (!r.empty()) r += ",";
		if (IsSetLogPosition(s)) {
			r += "P" + std::to_string(FindNum(s, "\"log_position\":"));
		} else {
			unsigned long sum = 0;
			for (unsigned char c : s) sum = (sum + c) & 0xffff;
			r += "M" + std::to_string(s.size()) + ":" + std::to_string(sum) + ":" + std::to_string(FindNum(s, "\"id\":")) + ":" + std::to_string(FindNum(s, "\"ts\":"));
		}
	}
	return r.empty() ? "-" : r;
}

std::string DumpQueue(int i)
{
	if (!l_Cl[i]) { Poll(); return "-"; }
	return Render(CollectQueue(i));
}

void FlushLog()
{
	if (!l_L || !l_L->m_LogFile) return;
	StdioStream::Ptr s = dynamic_pointer_cast<StdioStream>(l_L->m_LogFile);
	if (s && s->m_InnerStream) s->m_InnerStream->flush();
}

std::string FileList()
{
	FlushLog();
	std::vector<std::pair<long, long>> fs;
	long cur = -1;
	Utility::Glob(LogDir() + "*", [&](const String& f) {
		struct stat sb;
		if (stat(f.CStr(), &sb) != 0) return;
		String name = Utility::BaseName(f);
		if (name == "current") { cur = sb.st_size; return; }
		try { fs.emplace_back(Convert::ToLong(name), (long)sb.st_size); } catch (...) {}
	}, GlobFile);
	std::sort(fs.begin(), fs.end());
	std::string r = "files=";
	bool first = true;
	for (auto& p : fs) { if (!first) r += ","; first = false; r += std::to_string(p.first) + ":" + std::to_string(p.second); }
	if (first) r += "-";
	r += " cur=" + std::to_string(cur);
	return r;
}

std::string EpState()
{
	std::string r = "eps=";
	for (int i = 1; i <= NEP; i++) {
		if (i > 1) r += ",";
		r += std::to_string((long)l_Ep[i]->GetLocalLogPosition()) + "/" + std::to_string((long)l_Ep[i]->GetRemoteLogPosition()) + "/" +
			(l_Ep[i]->GetConnected() ? "1" : "0") + (l_Ep[i]->GetSyncing() ? "1" : "0");
	}
	return r;
}

ConfigObject::Ptr SecObj(const std::string& k) { return SecObjOf(k); }

std::string PathOf(const std::string& f) { return LogDir() + (f == "cur" ? "current" : f); }

std::string ReadAll(const std::string& p)
{
	std::ifstream in(p, std::ios::binary);
	return std::string((std::istreambuf_iterator<char>(in)), std::istreambuf_iterator<char>());
}

void WriteAll(const std::string& p, const std::string& d)
{
	std::ofstream out(p, std::ios::binary | std::ios::trunc);
	out.write(d.data(), d.size());
}

} // namespace

// rl_init dur=<m2>,<p1>,<a1>,<a2>,<b1>,<c1>
VOP(rl_init)
{
	InitOnce();
	for (int i = 1; i <= NEP; i++) DropClient(i);
	if (l_L) { std::unique_lock<std::mutex> lock(l_L->m_LogLock); l_L->CloseLogFile(); }
	Utility::RemoveDirRecursive(ApiListener::GetApiDir() + "log");
	std::istringstream ds(a.str("dur", "86400,86400,86400,86400,86400,86400"));
	std::string tok;
	for (int i = 1; i <= NEP; i++) {
		std::getline(ds, tok, ',');
		l_Ep[i]->SetLogDuration(std::stod(tok));
		l_Ep[i]->SetLocalLogPosition(0);
		l_Ep[i]->SetRemoteLogPosition(0);
		l_Ep[i]->SetSyncing(false);
	}
	NewListener();
}

// rl_relay sec=<key|-> id=N [pad=R<n>x<hh>] : SyncRelayMessage of a locally generated event
VOP(rl_relay)
{
	for (int i = 1; i <= NEP; i++) if (l_Cl[i]) { Poll(); l_Cl[i]->m_OutgoingMessagesQueue.clear(); }
	Dictionary::Ptr params = new Dictionary({ { "id", (double)a.num("id") } });
	// pad=R<n>x<hh>: a large payload (think: plugin output) - a member "pad" of n bytes hh
	std::string pad = a.str("pad", "-");
	if (pad != "-") {
		auto xp = pad.find('x');
		if (pad.size() < 4 || pad[0] != 'R' || xp == std::string::npos) throw std::runtime_error("bad pad");
		size_t n = std::stoul(pad.substr(1, xp - 1));
		char c = (char)std::stoul(pad.substr(xp + 1), nullptr, 16);
		params->Set("pad", String(std::string(n, c)));
	}
	Dictionary::Ptr message = new Dictionary({ { "jsonrpc", "2.0" }, { "method", "vf::ev" }, { "params", params } });
	size_t before = l_L->m_LogMessageCount;
	std::string conn, pos0, pos1;
	for (int k = 1; k <= NEP; k++) {
		conn += l_Ep[k]->GetConnected() ? "1" : "0";
		pos0 += (k > 1 ? "," : "") + std::to_string((long)l_Ep[k]->GetLocalLogPosition());
	}
	l_L->SyncRelayMessage(nullptr, SecObj(a.str("sec", "-")), message, true);
	Poll();
	std::string live;
	for (int i = 1; i <= NEP; i++) {
		if (!l_Cl[i]) continue;
		std::string q = DumpQueue(i);
		if (q != "-") { if (!live.empty()) live += ";"; live += std::to_string(i) + "=" + q; }
	}
	for (int k = 1; k <= NEP; k++)
		pos1 += (k > 1 ? "," : "") + std::to_string((long)l_Ep[k]->GetLocalLogPosition());
	// GetConnected() / GetLocalLogPosition() of every endpoint before and after (C12_position_only_moves_for_connected)
	Out("rl_relay logged=" + std::to_string(l_L->m_LogMessageCount != before ? 1 : 0) + " live=" + (live.empty() ? "-" : live) +
		" conn=" + conn + " pos0=" + pos0 + " pos=" + pos1);
}

// rl_conn e=ID [mirror=1] : the endpoint connects; flags as NewClientHandler/SyncClient set them; ReplayLog.
// mirror=1: the peer runs the same code in the same situation (it also kept a log for us during the outage): what it
// emits while replaying is what OUR ReplayLog emits now; its log::SetLogPosition messages (really emitted, byte for byte)
// reach our MessageHandler before our own ReplayLog starts (the peer finished its config sync first).
VOP(rl_conn)
{
	int i = a.num("e");
	DropClient(i);
	l_Cl[i] = new JsonRpcConnection(l_Ep[i]->GetName(), true, nullptr, RoleServer, *l_Io);
	l_Ep[i]->AddClient(l_Cl[i]);
	{ ObjectLock olock(l_Ep[i]); l_Ep[i]->SetSyncing(true); }
	std::string mirror;
	if (a.num("mirror", 0)) {
		l_L->ReplayLog(l_Cl[i]);
		std::vector<std::string> q = CollectQueue(i);
		mirror = " mirror=" + Render(q);
		for (const std::string& m : q)
			if (IsSetLogPosition(m))
				l_Cl[i]->MessageHandler(JsonDecode(m));
		{ ObjectLock olock(l_Ep[i]); l_Ep[i]->SetSyncing(true); }
	}
	l_L->ReplayLog(l_Cl[i]);
	Out("rl_conn e=" + std::to_string(i) + mirror + " out=" + DumpQueue(i));
}

VOP(rl_disc)
{
	DropClient(a.num("e"));
}

VOP(rl_rotate)
{
	std::unique_lock<std::mutex> lock(l_L->m_LogLock);
	l_L->CloseLogFile();
	l_L->RotateLogFile();
	l_L->OpenLogFile();
}

// rl_restart clean=0|1 : clean = what ApiListener::Stop does to the log; then a new ApiListener on the same directory
VOP(rl_restart)
{
	for (int i = 1; i <= NEP; i++) DropClient(i);
	{
		std::unique_lock<std::mutex> lock(l_L->m_LogLock);
		l_L->CloseLogFile();
		if (a.num("clean", 0)) l_L->RotateLogFile();
	}
	for (int i = 1; i <= NEP; i++) l_Ep[i]->SetSyncing(false);
	NewListener();
}

// rl_ack e=ID p=N : log::SetLogPosition arrives from the (connected) peer
VOP(rl_ack)
{
	int i = a.num("e");
	if (!l_Cl[i]) return;
	Dictionary::Ptr params = new Dictionary({ { "log_position", (double)a.num("p") } });
	Dictionary::Ptr message = new Dictionary({ { "jsonrpc", "2.0" }, { "method", "log::SetLogPosition" }, { "params", params } });
	l_Cl[i]->MessageHandler(message);
}

// rl_recv e=ID ts=N : a cluster message with that timestamp arrives from the (connected) peer
VOP(rl_recv)
{
	int i = a.num("e");
	if (!l_Cl[i]) return;
	Dictionary::Ptr message = new Dictionary({ { "jsonrpc", "2.0" }, { "method", "vf::probe" }, { "params", new Dictionary() }, { "ts", (double)a.num("ts") } });
	long before = l_Probe;
	l_Cl[i]->MessageHandler(message);
	Out("rl_recv e=" + std::to_string(i) + " accepted=" + std::to_string(l_Probe - before));
}

// rl_from e=ID ts=N sec=<key|-> id=N [oz=<zone key>] : a cluster event with timestamp ts (and, from the HA peer of our own
// zone, an originZone member) arrives from the (connected) peer; its handler relays an event about <sec> on.
// Printed: what MessageHandler/SyncRelayMessage did, and GetConnected()/GetLocalLogPosition() of every endpoint before and after.
VOP(rl_from)
{
	int i = a.num("e");
	if (!l_Cl[i]) return;
	for (int k = 1; k <= NEP; k++) if (l_Cl[k]) { Poll(); l_Cl[k]->m_OutgoingMessagesQueue.clear(); }
	std::string conn, pos0, pos1;
	for (int k = 1; k <= NEP; k++) {
		conn += l_Ep[k]->GetConnected() ? "1" : "0";
		pos0 += (k > 1 ? "," : "") + std::to_string((long)l_Ep[k]->GetLocalLogPosition());
	}
	Dictionary::Ptr params = new Dictionary({ { "id", (double)a.num("id") }, { "sec", String(a.str("sec", "-")) } });
	Dictionary::Ptr message = new Dictionary({ { "jsonrpc", "2.0" }, { "method", "vf::fwd" }, { "params", params }, { "ts", (double)a.num("ts") } });
	std::string oz = a.str("oz", "-");
	if (oz != "-") message->Set("originZone", String("rl-" + oz));
	size_t before = l_L->m_LogMessageCount;
	long fwd = l_Fwd;
	l_Cl[i]->MessageHandler(message);
	Poll();
	std::string live;
	for (int k = 1; k <= NEP; k++) {
		if (!l_Cl[k]) continue;
		std::string q = DumpQueue(k);
		if (q != "-") { if (!live.empty()) live += ";"; live += std::to_string(k) + "=" + q; }
	}
	for (int k = 1; k <= NEP; k++)
		pos1 += (k > 1 ? "," : "") + std::to_string((long)l_Ep[k]->GetLocalLogPosition());
	Out("rl_from e=" + std::to_string(i) + " accepted=" + std::to_string(l_Fwd - fwd) + " logged=" + std::to_string(l_L->m_LogMessageCount != before ? 1 : 0) +
		" live=" + (live.empty() ? "-" : live) + " conn=" + conn + " pos0=" + pos0 + " pos=" + pos1);
}

// rl_timer : ApiTimerHandler (clean-up + log position emission)
VOP(rl_timer)
{
	for (int i = 1; i <= NEP; i++) if (l_Cl[i]) { Poll(); l_Cl[i]->m_OutgoingMessagesQueue.clear(); }
	l_L->ApiTimerHandler();
	std::string acks;
	for (int i = 1; i <= NEP; i++) {
		if (!l_Cl[i]) continue;
		std::string q = DumpQueue(i);
		if (q != "-") { if (!acks.empty()) acks += ";"; acks += std::to_string(i) + "=" + q; }
	}
	Out("rl_timer acks=" + (acks.empty() ? "-" : acks));
}

// rl_trunc f=<name|cur> k=N ; rl_corrupt f=<name|cur> k=N b=V  (the log file is closed around the damage)
static void Damage(const Args& a, bool trunc)
{
	std::unique_lock<std::mutex> lock(l_L->m_LogLock);
	l_L->CloseLogFile();
	std::string p = PathOf(a.str("f"));
	struct stat sb;
	if (stat(p.c_str(), &sb) == 0) {
		std::string d = ReadAll(p);
		size_t k = a.num("k");
		if (trunc) { if (k < d.size()) d.resize(k); }
		else if (k < d.size()) d[k] = (char)a.num("b");
		WriteAll(p, d);
	}
	l_L->OpenLogFile();
}
VOP(rl_trunc) { Damage(a, true); }
VOP(rl_corrupt) { Damage(a, false); if (a.num("lax", 0)) Out("rl_corrupt lax"); }

VOP(rl_ls)
{
	Out("rl_ls " + FileList() + " " + EpState() + " lmt=" + std::to_string((long)l_L->GetLogMessageTimestamp()));
}

static struct RlCaseEnd {
	RlCaseEnd() {
		RegisterCaseEnd([]() {
			if (!l_Init) return;
			for (int i = 1; i <= NEP; i++) DropClient(i);
		});
	}
} l_RlCaseEnd;
