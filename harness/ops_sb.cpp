// C19 (sandbox): run expressions in sandboxed frames the three ways the product creates them
// (FilterUtility::GetFilterTargets, EventQueue::ProcessEvent / EventsFilter::Push, ConsoleHandler::ExecuteScriptHelper)
// against live Host/Service/ApiUser objects, global namespaces and shared containers, with deep snapshots of the
// protected state before and after.  Observed: API-visible results only (returned value / error text that the API
// hands back, delivery of the event), never log output.
#include "vdrive.hpp"
#include "base/utility.hpp"
#include "base/configtype.hpp"
#include "base/scriptglobal.hpp"
#include "base/namespace.hpp"
#include "base/function.hpp"
#include "base/json.hpp"
#include "base/serializer.hpp"
#include "base/tlsutility.hpp"
#include "base/objectlock.hpp"
#include "base/exception.hpp"
#include "base/convert.hpp"
#include "config/configitem.hpp"
#include "config/applyrule.hpp"
#include "config/configcompiler.hpp"
#include "icinga/host.hpp"
#include "icinga/service.hpp"
#include "remote/apiuser.hpp"
#include "remote/apilistener.hpp"
#include "remote/filterutility.hpp"
#include "remote/eventqueue.hpp"
#include "remote/consolehandler.hpp"
#include "base/application.hpp"
#include "base/logger.hpp"
#include "base/scriptframe.hpp"
#include "base/dependencygraph.hpp"
#include "icinga/icingaapplication.hpp"
#include <boost/beast/http.hpp>
#include <fstream>
#include <set>

using namespace icinga;

// the marker: a harness-owned function registered side-effect-free; "the marker sub-expression was evaluated" is
// read from this flag, never from any text
static bool l_SbMarkHit = false;
static Value SbMarkFn(const std::vector<Value>&) { l_SbMarkHit = true; return Empty; }
static const char *SB_PASSWORD = "sbSECRETpw";
static const char *SB_SALT = "sbSALTval";
static const char *SB_SALT_FIELD = "sbSALTfld";     // ApiListener.ticket_salt of the registered (never started) listener "sbapi"
static bool l_SbInit = false;

// the live shared containers the purity probes hand to every whitelisted function: unsorted, with duplicates, nested,
// empty, length 1, arrays of dictionaries / of arrays - as globals and as attributes of a config object
static const char *SB_GLOBALS_SCRIPT =
	"globals.SbArr = [ 3, 1, 2 ]\n"
	"globals.SbDict = { a = 1, b = \"two\" }\n"
	"globals.SbArrU = [ \"oncall\", \"manager\", \"cto\" ]\n"
	"globals.SbDup = [ 2, 1, 2, 1 ]\n"
	"globals.SbNest = { list = [ 3, 1, 2 ], d = { z = 12, a = [ 9, 8 ] } }\n"
	"globals.SbDicts = [ { k = 2 }, { k = 1 } ]\n"
	"globals.SbAoa = [ [ 5, 4 ], [ 2, 1, 3 ] ]\n"
	"globals.SbNum = 12\n";
static const char *SB_HOSTVARS =
	"{ arr = [ 1, 2 ], dict = { k = \"v\" }, os = \"linux\", boot_order = [ \"web\", \"db\", \"app\" ], dups = [ 3, 1, 3, 2, 1 ], "
	"nested = { inner = { list = [ 9, 7, 8 ] }, z = 1 }, dicts = [ { k = 2 }, { k = 1 } ], aoa = [ [ 2, 1 ], [ 0 ], [ 6, 5, 4 ] ], "
	"empty_arr = [], one = [ 5 ], empty_dict = {}, strs = [ \"b\", \"a\", \"b\" ], num = 12 }";
static const char *SB_HOSTGROUPS = "[ \"sbg_linux\", \"sbg_dmz\", \"sbg_berlin\" ]";

static void SbInitOnce()
{
	if (l_SbInit) return;
	l_SbInit = true;
	std::ostringstream c;
	c << "const TicketSalt = \"" << SB_SALT << "\"\n"
	  << SB_GLOBALS_SCRIPT
	  << "namespace SbNs { x = 1 }\n"
	  << "object CheckCommand \"sbcmd\" { command = [ \"/bin/true\" ] }\n"
	  << "object HostGroup \"sbg_linux\" { }\nobject HostGroup \"sbg_dmz\" { }\nobject HostGroup \"sbg_berlin\" { }\n"
	  << "template Host \"sbtmpl\" { check_command = \"sbcmd\" }\n"
	  << "object Host \"sbh\" { import \"sbtmpl\"\n  enable_active_checks = false\n  address = \"127.0.0.1\"\n"
	  << "  groups = " << SB_HOSTGROUPS << "\n  vars = " << SB_HOSTVARS << " }\n"
	  << "object Service \"sbs\" { host_name = \"sbh\"\n  check_command = \"sbcmd\"\n  enable_active_checks = false }\n"
	  << "object ApiUser \"sbu\" { password = \"" << SB_PASSWORD << "\"\n  permissions = [ \"*\" ] }\n"
	  // a user whose permission carries a FILTER: FilteredAddTarget then evaluates the permission filter before the user's
	  << "object ApiUser \"sbu2\" { password = \"" << SB_PASSWORD << "\"\n  permissions = [ { permission = \"objects/query/Host\", filter = {{ host.name == \"sbh\" }} } ] }\n";
	LoadConfig(c.str());
	ScriptGlobal::Set("sbmark", new Function("sbmark", SbMarkFn, {}, true));
	// an ApiListener object that scripts can find (get_object(ApiListener, "sbapi")): registered, never configured or started
	{
		ApiListener::Ptr l = new ApiListener();
		l->SetName("sbapi");
		l->SetTicketSalt(SB_SALT_FIELD);
		l->Register();
	}
	// containers that HOLD the objects with hidden fields (a dictionary literal cannot be built inside a sandbox): what serialisers
	// and stringifiers are handed, nested at several depths; and containers of references to the hidden fields themselves
	try {
		std::unique_ptr<Expression> expr = ConfigCompiler::CompileText("<sb-secret-containers>",
			"var u = get_object(ApiUser, \"sbu\")\nvar l = get_object(ApiListener, \"sbapi\")\n"
			"globals.SbSecD = { u = u, l = l }\n"
			"globals.SbSecA = [ [ u ], { u = u }, [ [ l ] ] ]\n"
			"globals.SbSecNest = { a = { b = [ u, l ], c = { d = { u = u } } } }\n"
			"globals.SbSecRefs = { r = &u.password, a = [ &l.ticket_salt, &u.password_hash ] }\n");
		ScriptFrame frame(true);
		expr->Evaluate(frame);
	} catch (const std::exception& ex) {
		Out(std::string("# sb-secret-containers FAILED: ") + ex.what());
	}
	std::ofstream f(ScratchDir() + "/data/sbfile.txt");
	f << "protected file\n";
}

// after a probe that CHANGED protected state (already a violation): put the shared containers back, so that the probes that
// follow in the same process again meet unsorted / complete containers (unsandboxed, harness-owned frame)
static void SbRestoreFixture()
{
	try {
		std::ostringstream c;
		c << SB_GLOBALS_SCRIPT << "var h = get_object(Host, \"sbh\")\nh.vars = " << SB_HOSTVARS << "\nh.groups = " << SB_HOSTGROUPS << "\n"
		  << "h.display_name = \"sbh\"\nglobals.SbNs.x = 1\n";
		std::unique_ptr<Expression> expr = ConfigCompiler::CompileText("<sb-restore>", c.str());
		ScriptFrame frame(true);
		expr->Evaluate(frame);
	} catch (const std::exception&) { }
}

// ------------------------------------------------------------------ deep snapshot
// container ATTRIBUTES are part of the snapshot, not only the contents: the frozen flag of every Array / Dictionary / Namespace
// (a frozen live container makes every later in-place modification by the system throw).  l_SbFrozenSink collects the frozen
// containers a snapshot met, so that the harness can undo a freeze a probe caused (already a violation) before the next probe.
static std::set<Object *> *l_SbFrozenSink = nullptr;
static void NoteFrozen(Object *o, bool frozen) { if (frozen && l_SbFrozenSink) l_SbFrozenSink->insert(o); }

static void Dump(const Value& v, std::ostream& o, int depth, std::set<const Object *>& seen)
{
	if (!v.IsObject()) { o << JsonEncode(v); return; }
	Object::Ptr obj = v;
	if (!obj) { o << "null"; return; }
	if (depth > 10) { o << "<deep>"; return; }
	if (Function::Ptr fn = dynamic_pointer_cast<Function>(obj)) { o << "fn:" << fn->GetName() << ":" << fn->IsSideEffectFree(); return; }
	if (Type::Ptr ty = dynamic_pointer_cast<Type>(obj)) { o << "type:" << ty->GetName(); return; }
	if (ConfigObject::Ptr co = dynamic_pointer_cast<ConfigObject>(obj)) { o << "obj:" << co->GetReflectionType()->GetName() << ":" << co->GetName(); return; }
	if (seen.count(obj.get())) { o << "<seen>"; return; }
	seen.insert(obj.get());
	if (Namespace::Ptr ns = dynamic_pointer_cast<Namespace>(obj)) {
		ObjectLock olock(ns);
		NoteFrozen(ns.get(), ns->m_Frozen.load());
		o << "ns" << (ns->m_Frozen.load() ? "#frozen" : "") << "{";
		for (const Namespace::Pair& kv : ns) {
			o << kv.first << (kv.second.Const ? "!" : "") << "=";
			Dump(kv.second.Val, o, depth + 1, seen);
			o << ";";
		}
		o << "}";
	} else if (Dictionary::Ptr d = dynamic_pointer_cast<Dictionary>(obj)) {
		ObjectLock olock(d);
		NoteFrozen(d.get(), d->m_Frozen);
		o << (d->m_Frozen ? "#frozen" : "") << "{";
		for (const Dictionary::Pair& kv : d) { o << kv.first << "="; Dump(kv.second, o, depth + 1, seen); o << ";"; }
		o << "}";
	} else if (Array::Ptr a = dynamic_pointer_cast<Array>(obj)) {
		ObjectLock olock(a);
		NoteFrozen(a.get(), a->m_Frozen);
		o << (a->m_Frozen ? "#frozen" : "") << "[";
		for (const Value& x : a) { Dump(x, o, depth + 1, seen); o << ","; }
		o << "]";
	} else {
		Type::Ptr t = obj->GetReflectionType();
		o << "o:" << (t ? t->GetName() : String("?")) << "{";
		if (t) for (int i = 0; i < t->GetFieldCount(); i++) { o << t->GetFieldInfo(i).Name << "="; Dump(obj->GetField(i), o, depth + 1, seen); o << ";"; }
		o << "}";
	}
	seen.erase(obj.get());
}

static void ScanDir(const std::string& dir, std::ostream& o)
{
	std::vector<String> files;
	Utility::GlobRecursive(dir, "*", [&files](const String& p) { files.push_back(p); }, GlobFile | GlobDirectory);
	std::sort(files.begin(), files.end());
	for (const String& p : files) {
		o << p.SubStr(dir.size());
		std::ifstream f(p.CStr(), std::ios::binary);
		if (f) {
			std::ostringstream b; b << f.rdbuf();
			if (!Utility::PathExists(p + "/.")) o << ":" << b.str().size() << ":" << SHA1(b.str());
		}
		o << "\n";
	}
}

typedef std::map<std::string, std::string> SbSnap;

static SbSnap Snapshot(const std::string& session)
{
	SbSnap s;
	{
		std::ostringstream o; std::set<const Object *> seen;
		Dump(ScriptGlobal::GetGlobals(), o, 0, seen);
		s["globals"] = o.str();
	}
	{
		for (const Type::Ptr& type : Type::GetAllTypes()) {
			auto *ct = dynamic_cast<ConfigType *>(type.get());
			if (!ct) continue;
			for (const ConfigObject::Ptr& obj : ct->GetObjects()) {
				std::ostringstream o; std::set<const Object *> seen;
				Type::Ptr t = obj->GetReflectionType();
				for (int i = 0; i < t->GetFieldCount(); i++) { o << t->GetFieldInfo(i).Name << "="; Dump(obj->GetField(i), o, 1, seen); o << ";"; }
				o << "active=" << obj->IsActive() << ";paused=" << obj->IsPaused();
				s["object " + std::string(type->GetName()) + "!" + std::string(obj->GetName())] = o.str();
			}
		}
	}
	{
		std::ostringstream o;
		std::unique_lock<std::mutex> lock(ConfigItem::m_Mutex);
		for (auto& tkv : ConfigItem::m_Items) for (auto& ikv : tkv.second) o << tkv.first->GetName() << "!" << ikv.first << ";";
		o << "unnamed=" << ConfigItem::m_UnnamedItems.size() << ";templates=";
		for (auto& tkv : ConfigItem::m_DefaultTemplates) o << tkv.first->GetName() << ":" << tkv.second.size() << ";";
		s["config-items"] = o.str();
	}
	{
		std::ostringstream o;
		std::map<std::string, size_t> cnt;
		for (auto& kv : ApplyRule::m_Rules) {
			size_t n = 0;
			for (auto& r : kv.second.Regular) n += r.second.size();
			n += 1000 * kv.second.Targeted.size();
			cnt[kv.first->GetName()] = n;
		}
		for (auto& kv : cnt) o << kv.first << ":" << kv.second << ";";
		s["apply-rules"] = o.str();
	}
	{
		std::ostringstream o;
		for (const Type::Ptr& type : Type::GetAllTypes()) {
			Dictionary::Ptr p = dynamic_pointer_cast<Dictionary>(type->GetPrototype());
			if (!p) continue;
			ObjectLock olock(p);
			NoteFrozen(p.get(), p->m_Frozen);
			o << type->GetName() << (p->m_Frozen ? "#frozen" : "") << ":";
			for (const Dictionary::Pair& kv : p) { std::set<const Object *> seen; o << kv.first << "="; Dump(kv.second, o, 1, seen); o << ","; }
			o << ";";
		}
		s["prototypes"] = o.str();
	}
	{
		std::ostringstream o;
		ScanDir(ScratchDir(), o);
		s["files"] = o.str();
	}
	{
		// PROCESS-GLOBAL singletons and registries that no value snapshot sees (identity of the instance, not its fields)
		std::ostringstream o;
		o << "app=" << (const void *)Application::m_Instance.get() << ";icingaapp=" << (const void *)IcingaApplication::GetInstance().get()
		  << ";apilistener=" << (const void *)ApiListener::m_Instance.get()
		  << ";shutting_down=" << Application::m_ShuttingDown << ";restart=" << Application::m_RequestRestart
		  << ";reopen_logs=" << Application::m_RequestReopenLogs << ";script_debugger=" << Application::m_ScriptDebuggerEnabled
		  << ";loggers=" << Logger::GetLoggers().size() << ";console_log=" << Logger::IsConsoleLogEnabled()
		  << ";console_severity=" << (int)Logger::GetConsoleLogSeverity() << ";timestamp=" << Logger::IsTimestampEnabled()
		  << ";types=" << Type::GetAllTypes().size() << ";event_queues=" << EventQueueRegistry::GetInstance()->GetItems().size()
		  << ";frame_stack=" << (ScriptFrame::m_ScriptFrames.get() ? ScriptFrame::m_ScriptFrames.get()->size() : 0);
		{
			std::unique_lock<std::mutex> lock(DependencyGraph::m_Mutex);
			o << ";dependency_graph=" << DependencyGraph::m_Dependencies.size();
		}
		for (const Type::Ptr& type : Type::GetAllTypes()) {
			auto *ct = dynamic_cast<ConfigType *>(type.get());
			if (ct) o << ";n_" << type->GetName() << "=" << ct->GetObjectCount();
		}
		s["singletons"] = o.str();
	}
	if (!session.empty()) {
		// what the session keeps between requests, read through the (unsandboxed) console API itself
		namespace http = boost::beast::http;
		http::request<http::string_body> rq; http::response<http::string_body> rs;
		ConsoleHandler::ExecuteScriptHelper(rq, rs, nullptr, "Json.encode(locals)", session, false);
		Dictionary::Ptr body = JsonDecode(rs.body());
		Array::Ptr results = body->Get("results");
		Dictionary::Ptr r0 = results->Get(0);
		s["session"] = std::string(JsonEncode(r0->Get("result")));
	}
	return s;
}

static std::string DiffSnap(const SbSnap& a, const SbSnap& b)
{
	std::string r;
	for (auto& kv : a) {
		auto it = b.find(kv.first);
		if (it == b.end()) r += (r.empty() ? "" : ",") + ("-" + kv.first);
		else if (it->second != kv.second) r += (r.empty() ? "" : ",") + ("~" + kv.first);
	}
	for (auto& kv : b) if (!a.count(kv.first)) r += (r.empty() ? "" : ",") + ("+" + kv.first);
	for (char& c : r) if (c == ' ') c = '_';
	return r;
}

static bool HasSecret(const std::string& s)
{
	return s.find(SB_PASSWORD) != std::string::npos || s.find(SB_SALT) != std::string::npos || s.find(SB_SALT_FIELD) != std::string::npos;
}

// ------------------------------------------------------------------ live enumeration
struct SbFn { std::string name, path, args; bool safe; };

static void WalkNs(const Namespace::Ptr& ns, const std::string& prefix, std::map<std::string, SbFn>& out, std::set<const Object *>& seen, int depth)
{
	if (depth > 6 || seen.count(ns.get())) return;
	seen.insert(ns.get());
	std::vector<std::pair<String, Value>> items;
	{ ObjectLock olock(ns); for (const Namespace::Pair& kv : ns) items.emplace_back(kv.first, kv.second.Val); }
	for (auto& kv : items) {
		if (!kv.second.IsObject()) continue;
		Object::Ptr o = kv.second;
		std::string p = prefix.empty() ? std::string(kv.first) : prefix + "." + std::string(kv.first);
		if (Function::Ptr fn = dynamic_pointer_cast<Function>(o)) {
			std::string nm = fn->GetName();
			if (nm == "sbmark") continue;
			if (!out.count(nm)) {
				std::string args;
				Array::Ptr an = fn->GetArguments();
				if (an) { ObjectLock l(an); for (const Value& x : an) { if (!args.empty()) args += ","; args += std::string(String(x)); } }
				out[nm] = SbFn{nm, p, args, fn->IsSideEffectFree()};
			}
		} else if (Namespace::Ptr sub = dynamic_pointer_cast<Namespace>(o)) {
			WalkNs(sub, p, out, seen, depth + 1);
		}
	}
}

static std::map<std::string, SbFn> LiveFunctions(bool printTypes);

// sb_fn name=<hex>: the live side_effect_free flag of one function (compared with the source facts by the model)
VOP(sb_fn)
{
	SbInitOnce();
	static std::map<std::string, SbFn> fns = LiveFunctions(false);
	std::string nm = HexDec(a.str("name", "-"));
	auto it = fns.find(nm);
	Out("fn name=" + nm + " safe=" + (it == fns.end() ? std::string("?") : std::to_string(it->second.safe)));
}

// sb_enum: every function reachable from the global namespace and every prototype method of every type
VOP(sb_enum)
{
	SbInitOnce();
	for (auto& kv : LiveFunctions(true))
		Out("# fn name=" + kv.second.name + " safe=" + std::to_string(kv.second.safe) + " i_path=" + HexEnc(kv.second.path) + " i_args=" + HexEnc(kv.second.args));
}

static std::map<std::string, SbFn> LiveFunctions(bool printTypes)
{
	std::map<std::string, SbFn> fns;
	std::set<const Object *> seen;
	WalkNs(ScriptGlobal::GetGlobals(), "", fns, seen, 0);
	for (const Type::Ptr& type : Type::GetAllTypes()) {
		Dictionary::Ptr p = dynamic_pointer_cast<Dictionary>(type->GetPrototype());
		if (p) {
			ObjectLock olock(p);
			for (const Dictionary::Pair& kv : p) {
				Function::Ptr fn = dynamic_pointer_cast<Function>(Object::Ptr(kv.second));
				if (!fn) continue;
				std::string nm = fn->GetName();
				std::string args;
				Array::Ptr an = fn->GetArguments();
				if (an) { ObjectLock l(an); for (const Value& x : an) { if (!args.empty()) args += ","; args += std::string(String(x)); } }
				if (!fns.count(nm)) fns[nm] = SbFn{nm, "@" + std::string(type->GetName()) + "." + std::string(kv.first), args, fn->IsSideEffectFree()};
			}
		}
		bool hasObj = false;
		if (auto *ct = dynamic_cast<ConfigType *>(type.get())) hasObj = !ct->GetObjects().empty();
		std::string first;
		if (hasObj) first = dynamic_cast<ConfigType *>(type.get())->GetObjects()[0]->GetName();
		if (!printTypes) continue;
		Out("# type name=" + std::string(type->GetName()) + " abstract=" + std::to_string(type->IsAbstract()) + " object=" + HexEnc(first));
		for (int i = 0; i < type->GetFieldCount(); i++) {
			Field f = type->GetFieldInfo(i);
			if (f.Attributes & FANoUserView) Out("# hidden type=" + std::string(type->GetName()) + " field=" + f.Name + " live=" + std::to_string(hasObj));
		}
	}
	return fns;
}

// ------------------------------------------------------------------ probes
struct SbResult { std::string res; std::string text; std::string msg; bool truthy = false; };

// informational only (i_compiles=, never compared): does the probe text get past the parser
static bool SbCompiles(const std::string& code)
{
	try {
		std::unique_ptr<Expression> expr = ConfigCompiler::CompileText("<sb-syntax>", code);
		return true;
	} catch (const std::exception&) {
		return false;
	}
}

static SbResult RunFilter(const std::string& code, bool withPermissionFilter = false)
{
	SbResult r;
	QueryDescription qd;
	qd.Types.insert("Host");
	qd.Permission = "objects/query/Host";
	Dictionary::Ptr query = new Dictionary({ { "type", "Host" }, { "filter", String(code) } });
	ApiUser::Ptr user = ApiUser::GetByName(withPermissionFilter ? "sbu2" : "sbu");
	try {
		std::vector<Value> objs = FilterUtility::GetFilterTargets(qd, query, user);
		r.res = "ok";
		r.truthy = !objs.empty();
	} catch (const std::exception& ex) {
		r.res = "err";
		r.text = ex.what();
		r.msg = r.text;
	}
	return r;
}

static Dictionary::Ptr SbEvent()
{
	return new Dictionary({ { "type", "CheckResult" }, { "host", "sbh" }, { "timestamp", 2000000000.0 } });
}

static SbResult RunEvent(const std::string& code, bool inbox)
{
	SbResult r;
	std::unique_ptr<Expression> expr;
	try {
		expr = ConfigCompiler::CompileText("<sb>", code);
	} catch (const std::exception& ex) {
		r.res = "compile-err";
		return r;
	}
	if (inbox) {
		Expression::Ptr e(expr.release());
		std::map<Expression::Ptr, std::set<EventsInbox::Ptr>> m;
		m[e] = std::set<EventsInbox::Ptr>();
		EventsFilter f(std::move(m));
		f.Push(SbEvent());
		r.res = "ok";
		return r;
	}
	EventQueue::Ptr q = new EventQueue("sbq");
	q->SetFilter(std::move(expr));
	q->SetTypes({ "CheckResult" });
	int client = 0;
	q->AddClient(&client);
	q->ProcessEvent(SbEvent());
	r.res = "ok";
	r.truthy = !q->m_Events[&client].empty();
	q->RemoveClient(&client);
	return r;
}

static SbResult RunConsole(const std::string& code, const std::string& session)
{
	namespace http = boost::beast::http;
	SbResult r;
	http::request<http::string_body> rq;
	http::response<http::string_body> rs;
	ConsoleHandler::ExecuteScriptHelper(rq, rs, nullptr, code, session, true);
	Dictionary::Ptr body = JsonDecode(rs.body());
	Array::Ptr results = body->Get("results");
	Dictionary::Ptr r0 = results->Get(0);
	double codeNum = r0->Get("code");
	r.text = rs.body();
	if (codeNum == 200) {
		r.res = "ok";
		r.truthy = Convert::ToBool(r0->Get("result"));
	} else {
		r.res = (r0->Contains("incomplete_expression") && r0->Get("incomplete_expression").ToBool()) ? "compile-err" : "err";
		r.msg = std::string(String(r0->Get("status")));
	}
	return r;
}

// sb_probe mode=filter|event|inbox|console marker=0|1 leak=0|1 code=<hex> <model description...>
VOP(sb_probe)
{
	SbInitOnce();
	std::string mode = a.str("mode", "console");
	std::string code = HexDec(a.str("code", "-"));
	bool marker = a.num("marker", 0) != 0;
	bool leak = a.num("leak", 0) != 0;
	std::string session = "sbsession" + std::to_string(CaseId());
	// outer=1: the entry point is called while a NON-sandboxed ScriptFrame lies on the thread's frame stack (config / unsandboxed
	// console code that causes the event); outer=2: from inside a native function run through Function::Invoke (what the built-in
	// check functions do when they call ProcessCheckResult): ScriptFrame::InitializeFrame copies Sandboxed from the stack top
	int outer = a.num("outer", 0);
	std::set<Object *> frozenBefore, frozenAfter;
	l_SbFrozenSink = &frozenBefore;
	SbSnap before = Snapshot(mode == "console" ? session : "");
	l_SbFrozenSink = nullptr;
	Application::Ptr appBefore = Application::m_Instance;
	ApiListener::Ptr listenerBefore = ApiListener::m_Instance;
	SbResult r;
	l_SbMarkHit = false;
	auto run = [&]() {
		if (mode == "filter") r = RunFilter(code);
		else if (mode == "filterperm") r = RunFilter(code, true);
		else if (mode == "event") r = RunEvent(code, false);
		else if (mode == "inbox") r = RunEvent(code, true);
		else r = RunConsole(code, session);
	};
	if (outer == 1) {
		ScriptFrame outerFrame(true);
		run();
	} else if (outer == 2) {
		Function::Ptr f = new Function("sbouter", [&run](const std::vector<Value>&) -> Value { run(); return Empty; }, {});
		f->Invoke();
	} else {
		run();
	}
	l_SbFrozenSink = &frozenAfter;
	SbSnap after = Snapshot(mode == "console" ? session : "");
	l_SbFrozenSink = nullptr;
	std::string diff = DiffSnap(before, after);
	if (!diff.empty() && a.num("restore", 0) != 0) {
		// undo what value assignments cannot: process-global instances and freeze flags set by the probe
		if (Application::m_Instance != appBefore) Application::m_Instance = appBefore;
		if (ApiListener::m_Instance != listenerBefore) ApiListener::m_Instance = listenerBefore;
		for (Object *o : frozenAfter) {
			if (frozenBefore.count(o)) continue;
			if (auto *arr = dynamic_cast<Array *>(o)) arr->m_Frozen = false;
			else if (auto *d = dynamic_cast<Dictionary *>(o)) d->m_Frozen = false;
		}
		SbRestoreFixture();
	}
	bool hidden = HasSecret(r.text) || (leak && r.res == "ok" && r.truthy);
	std::string verdict = "-";
	if (marker)
		verdict = l_SbMarkHit ? "allowed" : ((mode == "event" || mode == "inbox") ? "nomark" : (r.res == "ok" ? "ok" : "stopped"));
	std::ostringstream o;
	o << "sb_probe id=" << a.str("id", "0") << " mode=" << mode << " verdict=" << verdict << " changed=" << (diff.empty() ? 0 : 1)
	  << " hidden=" << (hidden ? 1 : 0) << " i_res=" << r.res << " i_truthy=" << r.truthy;
	if (!diff.empty()) o << " i_diff=" << diff;
	o << " i_compiles=" << SbCompiles(code);
	if (!r.msg.empty() && a.num("msg", 0) != 0) o << " i_msg=" << HexEnc(r.msg.substr(0, 160));
	Out(o.str());
}
