// C16 - apply rules and the name fast path: real config compile + commit of generated inventories
// and apply rules (plain and wrapped as "(F) && true"), real FilterUtility::GetFilterTargets.
// Observed: the set of objects existing after the load (names + attributes as reflection shows them),
// which index ApplyRule::AddRule put each rule under, the objects an API filter query returns.
#include "vdrive.hpp"
#include "base/utility.hpp"
#include "base/configtype.hpp"
#include "base/scriptglobal.hpp"
#include "base/workqueue.hpp"
#include "base/convert.hpp"
#include "base/array.hpp"
#include "base/dictionary.hpp"
#include "base/exception.hpp"
#include "config/configitem.hpp"
#include "config/configcompiler.hpp"
#include "config/applyrule.hpp"
#include "config/activationcontext.hpp"
#include "icinga/host.hpp"
#include "icinga/service.hpp"
#include "icinga/notification.hpp"
#include "icinga/dependency.hpp"
#include "icinga/scheduleddowntime.hpp"
#include "remote/filterutility.hpp"
#include <algorithm>
#include <set>

using namespace icinga;

// ---------------------------------------------------------------- expression syntax of the scripts
// E := s(<hex>) | n(<int>) | t | f | null | arr(E,..) | dict(<hex>=E,..) | var(id) | this | dot(E,id) | ix(E,E)
//    | eq(E,E) | ne(E,E) | and(E,E) | or(E,E) | not(E) | in(E,E) | call(id,E,E)
struct ArParser {
	std::string s; size_t p = 0;
	explicit ArParser(const std::string& str) : s(str) {}
	bool done() const { return p >= s.size(); }
	char peek() const { return p < s.size() ? s[p] : '\0'; }
	void expect(char c) { if (peek() != c) throw std::runtime_error("ar syntax: expected '" + std::string(1, c) + "' at " + std::to_string(p) + " in " + s); p++; }
	std::string word() { size_t b = p; while (p < s.size() && (isalnum((unsigned char)s[p]) || s[p] == '_' || s[p] == '-')) p++; return s.substr(b, p - b); }
	static std::string Quote(const std::string& raw) {
		std::string r = "\"";
		for (unsigned char c : raw) {
			if (c == '"' || c == '\\') { r += '\\'; r += (char)c; }
			else if (c == '\n') r += "\\n";
			else if (c == '\t') r += "\\t";
			else r += (char)c;
		}
		return r + "\"";
	}
	// -> Icinga DSL text
	std::string expr() {
		std::string w = word();
		if (w == "t") return "true";
		if (w == "f") return "false";
		if (w == "null") return "null";
		if (w == "this") return "this";
		expect('(');
		std::string r;
		if (w == "s") { r = Quote(HexDec(word())); }
		else if (w == "n") { r = word(); }
		else if (w == "var") { r = word(); }
		else if (w == "arr") {
			r = "[ ";
			bool first = true;
			while (peek() != ')') { if (!first) { expect(','); r += ", "; } first = false; r += expr(); }
			r += " ]";
		} else if (w == "dict") {
			r = "{ ";
			bool first = true;
			while (peek() != ')') { if (!first) { expect(','); r += "; "; } first = false; std::string k = Quote(HexDec(word())); expect('='); r += k + " = " + expr(); }
			r += " }";
		} else if (w == "dot") { std::string a = expr(); expect(','); std::string id = word(); r = a + "." + id; }
		else if (w == "ix") { std::string a = expr(); expect(','); std::string b = expr(); r = a + "[" + b + "]"; }
		else if (w == "not") { r = "!(" + expr() + ")"; }
		else if (w == "call") { std::string f = word(); expect(','); std::string a = expr(); expect(','); std::string b = expr(); r = f + "(" + a + ", " + b + ")"; }
		else {
			const char *op = w == "eq" ? "==" : w == "ne" ? "!=" : w == "and" ? "&&" : w == "or" ? "||" : w == "in" ? "in" : nullptr;
			if (!op) throw std::runtime_error("ar syntax: unknown node '" + w + "' in " + s);
			std::string a = expr(); expect(','); std::string b = expr();
			r = "(" + a + " " + op + " " + b + ")";
		}
		expect(')');
		return r;
	}
	// -> real Value (literal forms only)
	Value value() {
		std::string w = word();
		if (w == "t") return true;
		if (w == "f") return false;
		if (w == "null") return Empty;
		expect('(');
		Value r;
		if (w == "s") r = String(HexDec(word()));
		else if (w == "n") r = (double)std::stol(word());
		else if (w == "arr") {
			Array::Ptr a = new Array();
			bool first = true;
			while (peek() != ')') { if (!first) expect(','); first = false; a->Add(value()); }
			r = a;
		} else if (w == "dict") {
			Dictionary::Ptr d = new Dictionary();
			bool first = true;
			while (peek() != ')') { if (!first) expect(','); first = false; String k = HexDec(word()); expect('='); d->Set(k, value()); }
			r = d;
		} else throw std::runtime_error("ar syntax: not a literal: " + s);
		expect(')');
		return r;
	}
};

static std::string ArDsl(const std::string& e) { ArParser p(e); std::string r = p.expr(); if (!p.done()) throw std::runtime_error("ar syntax: trailing input in " + e); return r; }

// canonical printing of a Value
static std::string ArShow(const Value& v)
{
	if (v.IsString()) return "s(" + HexEnc(v.Get<String>()) + ")";
	if (v.IsEmpty()) return "null";
	if (v.IsBoolean()) return v.ToBool() ? "t" : "f";
	if (v.IsNumber()) return "n(" + std::to_string((long long)v.Get<double>()) + ")";
	if (v.IsObjectType<Array>()) {
		Array::Ptr a = v; std::string r = "arr("; bool first = true;
		ObjectLock olock(a);
		for (const Value& x : a) { if (!first) r += ","; first = false; r += ArShow(x); }
		return r + ")";
	}
	if (v.IsObjectType<Dictionary>()) {
		Dictionary::Ptr d = v; std::string r = "dict("; bool first = true;
		ObjectLock olock(d);
		for (auto& kv : d) { if (!first) r += ","; first = false; r += HexEnc(kv.first) + "=" + ArShow(kv.second); }
		return r + ")";
	}
	return "obj";
}

// ---------------------------------------------------------------- per-case state
struct ArRuleLine { std::string name; std::string text[2]; };   // DSL text, plain and wrapped
static std::vector<std::string> l_Globals;
static std::vector<std::string> l_Inventory;        // DSL text of hosts/services, one entry per object
static std::vector<ArRuleLine> l_Rules;
static std::set<std::string> l_InvServices;         // full names of the inventory's own services
static std::set<std::string> l_Groups;

static const char *ArTypes[] = { "Dependency", "ScheduledDowntime", "Notification", "Service", "Host", "HostGroup",
	"User", "NotificationCommand", "CheckCommand" };

static void ArReset()
{
	for (auto tn : ArTypes) {
		auto ctype = dynamic_cast<ConfigType *>(Type::GetByName(tn).get());
		if (!ctype) continue;
		for (const ConfigObject::Ptr& o : ctype->GetObjects())
			o->Unregister();
	}
	{
		std::unique_lock<std::mutex> lock(ConfigItem::m_Mutex);
		// forget the items of the previous load (templates of the ITL stay)
		for (auto& perType : ConfigItem::m_Items) {
			for (auto it = perType.second.begin(); it != perType.second.end(); ) {
				if (!it->second->IsAbstract()) it = perType.second.erase(it); else ++it;
			}
		}
		ConfigItem::m_UnnamedItems.clear();
		ConfigItem::m_IgnoredItems.clear();
	}
	ApplyRule::m_Rules.clear();
}

static bool l_ArTouched = false;   // only clean up after cases that used this module (other modules own their objects)

static void ArCaseEnd()
{
	if (!l_ArTouched) return;
	l_ArTouched = false;
	ArReset();
	for (auto& g : l_Globals) ScriptGlobal::GetGlobals()->Remove(g);
	l_Globals.clear(); l_Inventory.clear(); l_Rules.clear(); l_InvServices.clear(); l_Groups.clear();
}
static struct ArInit { ArInit() { RegisterCaseEnd(ArCaseEnd); } } l_ArInit;

// compile + commit WITHOUT activation: the objects exist (are registered), nothing runs
static bool ArLoad(const std::string& text, int threads = 0)
{
	try {
		ActivationScope scope;
		std::unique_ptr<Expression> expr = ConfigCompiler::CompileText("<ar>", text);
		ScriptFrame frame(true);
		expr->Evaluate(frame);
		WorkQueue upq(25000, threads > 0 ? threads : Configuration::Concurrency);
		upq.SetName("vdrive-ar");
		std::vector<ConfigItem::Ptr> newItems;
		bool ok = ConfigItem::CommitItems(scope.GetContext(), upq, newItems, true);
		if (!ok && getenv("VERIF_AR_DEBUG")) {
			for (auto& ep : upq.GetExceptions()) {
				try { boost::rethrow_exception(ep); } catch (const std::exception& ex) { std::cerr << "ar commit: " << DiagnosticInformation(ex, false) << "\n"; }
			}
		}
		return ok;
	} catch (const std::exception& ex) {
		if (getenv("VERIF_AR_DEBUG")) std::cerr << "ar load: " << DiagnosticInformation(ex, false) << "\n" << text << "\n";
		return false;
	}
}

VOP(ar_glob)
{
	l_ArTouched = true;
	ArParser p(a.str("v"));
	ScriptGlobal::Set(a.str("n"), p.value());
	l_Globals.push_back(a.str("n"));
}

VOP(ar_host)
{
	l_ArTouched = true;
	std::ostringstream o;
	o << "object Host " << ArParser::Quote(HexDec(a.str("n"))) << " {\n  check_command = \"arcc\"\n";
	if (a.has("vars")) o << "  vars = " << ArDsl(a.str("vars")) << "\n";
	if (a.has("dn")) o << "  display_name = " << ArParser::Quote(HexDec(a.str("dn"))) << "\n";
	if (a.has("groups")) {
		o << "  groups = " << ArDsl(a.str("groups")) << "\n";
		ArParser p(a.str("groups"));
		Array::Ptr g = p.value();
		ObjectLock olock(g);
		for (const Value& x : g) l_Groups.insert(String(x));
	}
	o << "}\n";
	l_Inventory.push_back(o.str());
}

VOP(ar_svc)
{
	l_ArTouched = true;
	std::ostringstream o;
	std::string h = HexDec(a.str("h")), n = HexDec(a.str("n"));
	o << "object Service " << ArParser::Quote(n) << " {\n  host_name = " << ArParser::Quote(h) << "\n  check_command = \"arcc\"\n";
	if (a.has("vars")) o << "  vars = " << ArDsl(a.str("vars")) << "\n";
	o << "}\n";
	l_Inventory.push_back(o.str());
	l_InvServices.insert(h + "!" + n);
}

static const char *ArKindName(long k) { return k == 0 ? "Service" : k == 1 ? "Notification" : k == 2 ? "Dependency" : "ScheduledDowntime"; }

// ar_rule kind= to=host|svc name=<id> a=<E> [a2=<E>] [i=<E>] [i2=<E>] [fk=<id> [fv=<id>] ft=<E>] [use=id:E,id:E] [body=E;E] [parent=<hex>]
VOP(ar_rule)
{
	l_ArTouched = true;
	long kind = a.num("kind");
	std::string name = a.str("name");
	ArRuleLine rl; rl.name = name;
	// use (...) closes over locals of the defining scope: define them right before the rule
	std::string pre, use;
	if (a.has("use")) {
		ArParser p(a.str("use"));
		bool first = true;
		while (!p.done()) {
			if (!first) p.expect(',');
			first = false;
			std::string id = p.word(); p.expect(':');
			size_t b = p.p; p.value();
			pre += "var " + id + " = " + ArDsl(a.str("use").substr(b, p.p - b)) + "\n";
			use += (use.empty() ? "" : ", ") + id;
		}
	}
	std::vector<std::string> body;
	if (a.has("body")) {
		ArParser p(a.str("body"));
		while (!p.done()) { if (!body.empty()) p.expect(';'); body.push_back(p.expr()); }
	}
	for (int w = 0; w < 2; w++) {
		std::ostringstream o;
		o << pre << "apply " << ArKindName(kind) << " \"" << name << "\" ";
		if (a.has("ft")) {
			o << "for (" << a.str("fk");
			if (a.has("fv")) o << " => " << a.str("fv");
			o << " in " << ArDsl(a.str("ft")) << ") ";
		}
		if (kind != 0) o << "to " << (a.str("to") == "svc" ? "Service" : "Host") << " ";
		if (!use.empty()) o << "use (" << use << ") ";
		o << "{\n";
		if (kind == 0) o << "  check_command = \"arcc\"\n";
		if (kind == 1) o << "  command = \"arnc\"\n  users = [ \"aru\" ]\n";
		if (kind == 2) o << "  parent_host_name = " << ArParser::Quote(HexDec(a.str("parent"))) << "\n";
		if (kind == 3) o << "  author = \"a\"\n  comment = \"c\"\n  ranges = { }\n";
		for (size_t i = 0; i < body.size(); i++) o << "  vars.b" << i << " = " << body[i] << "\n";
		// wrapped: every assign/ignore "where" F becomes (F) && true; with several assigns the parser builds the
		// || itself, so wrapping each one still defeats the recogniser (no operand is an == any more)
		for (const char *k : { "a", "a2" }) if (a.has(k)) o << "  assign where " << (w ? "(" + ArDsl(a.str(k)) + ") && true" : ArDsl(a.str(k))) << "\n";
		for (const char *k : { "i", "i2" }) if (a.has(k)) o << "  ignore where " << ArDsl(a.str(k)) << "\n";
		o << "}\n";
		rl.text[w] = o.str();
	}
	l_Rules.push_back(rl);
}

static std::string ArIndexOf(const ArRuleLine& rl)
{
	// which index did ApplyRule::AddRule put the rule under
	std::set<std::string> hs, ss;
	bool regular = false;
	for (auto& st : ApplyRule::m_Rules) {
		for (auto& tt : st.second.Regular)
			for (auto& r : tt.second) if (r->GetName() == rl.name) regular = true;
		for (auto& ph : st.second.Targeted) {
			for (auto& r : ph.second.ForHost) if (r->GetName() == rl.name) hs.insert(HexEnc(ph.first));
			for (auto& ps : ph.second.ForServices)
				for (auto& r : ps.second) if (r->GetName() == rl.name) ss.insert(HexEnc(ph.first) + "!" + HexEnc(ps.first));
		}
	}
	std::string r;
	if (regular) r = "R";
	else if (!hs.empty()) { r = "H:"; for (auto& h : hs) r += h + ","; }
	else if (!ss.empty()) { r = "S:"; for (auto& s : ss) r += s + ","; }
	else r = "none";
	return r;
}

static std::string ArField(const ConfigObject::Ptr& o, const char *f)
{
	Value v = o->GetFieldByName(f, false, DebugInfo());
	return v.IsEmpty() ? std::string() : String(v).GetData();
}

static std::vector<std::string> ArSnapshot(const char *tag)
{
	std::vector<std::string> lines;
	for (long kind = 0; kind < 4; kind++) {
		auto ctype = dynamic_cast<ConfigType *>(Type::GetByName(ArKindName(kind)).get());
		for (const ConfigObject::Ptr& o : ctype->GetObjects()) {
			if (kind == 0 && l_InvServices.count(o->GetName())) continue;
			std::string host, svc, parent;
			if (kind == 2) {
				host = ArField(o, "child_host_name");
				svc = ArField(o, "child_service_name");
				parent = ArField(o, "parent_host_name");
			} else {
				host = ArField(o, "host_name");
				if (kind != 0) svc = ArField(o, "service_name");
			}
			std::string b;
			Dictionary::Ptr vars = o->GetFieldByName("vars", false, DebugInfo());
			if (vars) {
				for (int i = 0; vars->Contains("b" + std::to_string(i)); i++) {
					if (i) b += ";";
					b += ArShow(vars->Get("b" + std::to_string(i)));
				}
			}
			lines.push_back(std::string(tag) + "-obj k=" + std::to_string(kind) + " n=" + HexEnc(o->GetName()) + " h=" + HexEnc(host)
				+ " s=" + HexEnc(svc) + " p=" + HexEnc(parent) + " b=" + (b.empty() ? "-" : b));
		}
	}
	std::sort(lines.begin(), lines.end());
	return lines;
}

static std::string ArPreamble()
{
	std::string t = "object CheckCommand \"arcc\" { command = [ \"/bin/true\" ] }\n"
		"object NotificationCommand \"arnc\" { command = [ \"/bin/true\" ] }\n"
		"object User \"aru\" { }\n";
	for (auto& g : l_Groups) t += "object HostGroup " + ArParser::Quote(g) + " { }\n";
	return t;
}

VOP(ar_load)
{
	l_ArTouched = true;
	for (int w = 0; w < 2; w++) {
		const char *tag = w ? "w" : "p";
		ArReset();
		std::string text = ArPreamble();
		for (auto& i : l_Inventory) text += i;
		for (auto& r : l_Rules) text += r.text[w];
		bool ok = ArLoad(text);
		for (size_t i = 0; i < l_Rules.size(); i++)
			Out(std::string(tag) + "-rule " + std::to_string(i) + " idx=" + ArIndexOf(l_Rules[i]));
		if (!ok) { Out(std::string(tag) + "-load fail"); continue; }
		auto lines = ArSnapshot(tag);
		Out(std::string(tag) + "-load ok n=" + std::to_string(lines.size()));
		for (auto& l : lines) Out(l);
	}
}

// ar_order: the same configuration loaded again with the apply rules in EVERY file order (config items are
// committed, and apply rules evaluated, in file order), alternating the number of worker threads of the commit
// queue (1 / 4) and the file order of the inventory objects; as written (w=0) and wrapped (w=1).  Each load is
// compared with the load in script order, default concurrency (what ar_load printed): "same", or the differing
// set in full.
VOP(ar_order)
{
	l_ArTouched = true;
	size_t n = l_Rules.size();
	std::vector<std::vector<size_t>> perms;
	std::vector<size_t> id(n);
	for (size_t i = 0; i < n; i++) id[i] = i;
	if (n <= 4) {
		std::vector<size_t> p = id;
		do { perms.push_back(p); } while (std::next_permutation(p.begin(), p.end()));
	} else {
		perms.push_back(id);
		std::vector<size_t> p = id; std::reverse(p.begin(), p.end()); perms.push_back(p);
		for (size_t r = 1; r < n; r++) { p = id; std::rotate(p.begin(), p.begin() + r, p.end()); perms.push_back(p); }
	}
	for (int w = 0; w < 2; w++) {
		std::string base;
		for (size_t j = 0; j <= perms.size(); j++) {
			// j == 0: the reference load (script order, default threads); then permutation j-1
			const std::vector<size_t>& p = perms[j ? j - 1 : 0];
			int threads = !j ? 0 : (j % 2 ? 1 : 4);
			bool rev = j && (j % 4 >= 2);
			ArReset();
			std::string text = ArPreamble();
			if (rev) for (auto it = l_Inventory.rbegin(); it != l_Inventory.rend(); ++it) text += *it;
			else for (auto& i : l_Inventory) text += i;
			for (size_t i : p) text += l_Rules[i].text[w];
			bool ok = ArLoad(text, threads);
			std::vector<std::string> lines;
			if (ok) lines = ArSnapshot("o");
			std::string sig = ok ? "ok" : "fail";
			for (auto& l : lines) sig += "\n" + l;
			if (!j) { base = sig; continue; }
			std::string ps;
			for (size_t i : p) ps += (ps.empty() ? "" : "-") + std::to_string(i);
			std::string head = "o-load w=" + std::to_string(w) + " perm=" + (ps.empty() ? "-" : ps) + " thr=" + std::to_string(threads) + " rev=" + (rev ? "1" : "0");
			if (sig == base) { Out(head + " same"); continue; }
			if (!ok) { Out(head + " differs fail"); continue; }
			Out(head + " differs ok n=" + std::to_string(lines.size()));
			for (auto& l : lines) Out(l);
		}
	}
}

// ar_api to=host|svc f=<E> [fv=id:E,id:E]     (against the objects of the last load)
VOP(ar_api)
{
	l_ArTouched = true;
	bool svc = a.str("to") == "svc";
	std::string res[2];
	bool fast = false;
	for (int w = 0; w < 2; w++) {
		QueryDescription qd;
		qd.Types.insert(svc ? "Service" : "Host");
		qd.Permission = "";
		Dictionary::Ptr query = new Dictionary();
		query->Set("type", svc ? "Service" : "Host");
		std::string f = ArDsl(a.str("f"));
		query->Set("filter", String(w ? "(" + f + ") && true" : f));
		if (a.has("fv")) {
			Dictionary::Ptr fv = new Dictionary();
			ArParser p(a.str("fv"));
			bool first = true;
			while (!p.done()) { if (!first) p.expect(','); first = false; String id = p.word(); p.expect(':'); fv->Set(id, p.value()); }
			query->Set("filter_vars", fv);
		}
		if (!w) {
			// would the recogniser take the name fast path for this query (public entry points, same arguments)
			try {
				std::unique_ptr<Expression> uf = ConfigCompiler::CompileText("<ar api>", f);
				auto dict = dynamic_cast<DictExpression *>(uf.get());
				if (dict && dict->GetExpressions().size() == 1u) {
					Dictionary::Ptr fvars = query->Get("filter_vars");
					std::vector<const String *> hs;
					std::vector<std::pair<const String *, const String *>> ss;
					// GetFilterTargets evaluates instead when a filter variable is named like what EvaluateFilter sets
					bool shadowed = fvars && (fvars->Contains("obj") || fvars->Contains("host") || fvars->Contains("service"));
					Type::Ptr tt = Type::GetByName(svc ? "Service" : "Host");
					for (int fid = 0; fvars && fid < tt->GetFieldCount() && !shadowed; fid++) {
						Field field = tt->GetFieldInfo(fid);
						if (field.Attributes & FANavigation)
							shadowed = fvars->Contains(field.NavigationName ? field.NavigationName : field.Name);
					}
					fast = !shadowed && (svc ? ApplyRule::GetTargetServices(dict->GetExpressions().at(0).get(), ss, fvars)
					                         : ApplyRule::GetTargetHosts(dict->GetExpressions().at(0).get(), hs, fvars));
				}
			} catch (const std::exception&) { }
		}
		try {
			std::vector<Value> objs = FilterUtility::GetFilterTargets(qd, query, nullptr);
			std::set<std::string> names;
			for (const Value& v : objs) {
				ConfigObject::Ptr o = v;
				Service::Ptr s = dynamic_pointer_cast<Service>(o);
				if (s) names.insert(HexEnc(s->GetHost()->GetName()) + "!" + HexEnc(s->GetShortName()));
				else names.insert(HexEnc(o->GetName()));
			}
			res[w] = "ok:";
			for (auto& n : names) res[w] += n + ",";
		} catch (const std::exception& ex) {
			if (getenv("VERIF_AR_DEBUG")) std::cerr << "ar api: " << DiagnosticInformation(ex, false) << "\n";
			res[w] = "err";
		}
	}
	Out(std::string("api fast=") + (fast ? "1" : "0") + " plain=" + res[0] + " wrapped=" + res[1]);
}
