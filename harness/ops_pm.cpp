// C18 - API authorisation.  Real ApiUser objects (permission lists compiled by ConfigCompiler, filters are
// real DSL lambdas), real Host/Service inventories loaded from config text, real
// FilterUtility::HasPermission / CheckPermission / GetFilterTargets with the QueryDescriptions the handlers
// build, and the real HTTP handlers driven through HttpHandler::ProcessRequest inside a coroutine.
// Observations: returned object sets (type + name), exception classes, HTTP status, names in the JSON body,
// attribute values read back through getters.  No log text.
#include "vdrive.hpp"
#include "base/utility.hpp"
#include "base/configtype.hpp"
#include "base/exception.hpp"
#include "base/json.hpp"
#include "base/io-engine.hpp"
#include "base/tlsstream.hpp"
#include "base/scriptglobal.hpp"
#include "base/namespace.hpp"
#include "config/configitem.hpp"
#include "config/expression.hpp"
#include "config/configcompiler.hpp"
#include "icinga/host.hpp"
#include "icinga/service.hpp"
#include "icinga/checkable.hpp"
#include "icinga/checkcommand.hpp"
#include "remote/apiuser.hpp"
#include "remote/filterutility.hpp"
#include "remote/httphandler.hpp"
#include "remote/httpserverconnection.hpp"
#include "remote/apiaction.hpp"
#include "remote/url.hpp"
#include <boost/asio/spawn.hpp>
#include <boost/asio/ip/tcp.hpp>
#include <boost/beast/http.hpp>
#include <algorithm>
#include <thread>
#include <mutex>
#include <condition_variable>
#include <chrono>
#include "base/function.hpp"
#include "remote/configobjectslock.hpp"

using namespace icinga;

namespace {

struct PmObjSpec { bool svc; std::string host, name, vars, cc, cp, ec, ce; };
std::vector<PmObjSpec> l_Specs;
std::vector<ConfigObject::Ptr> l_Objs;     // in creation order
ApiUser::Ptr l_User;
std::string l_UserPerms;
bool l_Init = false;
bool l_Sig = false;           // pm_user sig=1: every permission filter is rendered as `pm_sig(obj) && (<filter>)`
// directed schedules (pm_race): the request's thread is parked inside the permission filter's evaluation of ONE object
std::mutex l_ParkM;
std::condition_variable l_ParkCV;
Object *l_ParkTarget = nullptr;
bool l_Parked = false, l_Go = false;

// pm_sig(o): always true.  When armed for o, signals "the permission filter is being evaluated for o" and waits for the main thread.
Value PmSig(const std::vector<Value>& args)
{
	if (args.empty() || !args[0].IsObject()) return true;
	Object::Ptr o = args[0];
	std::unique_lock<std::mutex> lock(l_ParkM);
	if (l_ParkTarget && o.get() == l_ParkTarget && !l_Parked) {
		l_Parked = true;
		l_ParkCV.notify_all();
		l_ParkCV.wait_for(lock, std::chrono::seconds(30), [] { return l_Go; });
	}
	return true;
}
// global constants declared by pm_glob in this case: name, whether it existed before, previous value
struct PmSavedGlobal { String name; bool existed; Value old; };
std::vector<PmSavedGlobal> l_SavedGlobals;

std::vector<std::string> Split(const std::string& s, char sep)
{
	std::vector<std::string> r;
	if (s.empty() || s == "-") return r;
	size_t i = 0;
	for (;;) {
		size_t j = s.find(sep, i);
		if (j == std::string::npos) { r.push_back(s.substr(i)); break; }
		r.push_back(s.substr(i, j - i));
		i = j + 1;
	}
	return r;
}

std::string Quote(const std::string& s)
{
	std::string r = "\"";
	for (char c : s) {
		if (c == '\\' || c == '"') r += '\\';
		r += c;
	}
	return r + "\"";
}

// filter in reverse polish notation -> DSL text.  Atoms: t f  n<sc>:<hex> N<sc>:<hex> (reversed operands)
// v<sc>:<hexkey>:<hexval>  c<sc>:<hexvar> C<sc>:<hexvar>   operators: and or not
std::string ScopeName(char c)
{
	switch (c) {
		case 'h': return "host"; case 's': return "service"; case 'o': return "obj";
		// the joined objects EvaluateFilter binds from the target's navigation fields
		case 'k': return "check_command"; case 'p': return "check_period"; case 'e': return "event_command"; case 'z': return "command_endpoint";
	}
	throw std::runtime_error("bad scope");
}

std::string FilterText(const std::string& rpn)
{
	std::vector<std::string> st;
	for (const std::string& tk : Split(rpn, ',')) {
		if (tk == "t") st.push_back("true");
		else if (tk == "f") st.push_back("false");
		else if (tk == "and" || tk == "or") {
			if (st.size() < 2) throw std::runtime_error("rpn underflow");
			std::string b = st.back(); st.pop_back();
			std::string a = st.back(); st.pop_back();
			st.push_back("(" + a + (tk == "and" ? " && " : " || ") + b + ")");
		} else if (tk == "not") {
			if (st.empty()) throw std::runtime_error("rpn underflow");
			std::string a = st.back(); st.pop_back();
			st.push_back("(!" + a + ")");
		} else {
			auto p = Split(tk, ':');
			char k = tk.at(0);
			std::string sc = ScopeName(tk.at(1));
			if (k == 'n') st.push_back("(" + sc + ".name == " + Quote(HexDec(p.at(1))) + ")");
			else if (k == 'N') st.push_back("(" + Quote(HexDec(p.at(1))) + " == " + sc + ".name)");
			else if (k == 'v') st.push_back("(" + sc + ".vars." + HexDec(p.at(1)) + " == " + Quote(HexDec(p.at(2))) + ")");
			else if (k == 'c') st.push_back("(" + sc + ".name == " + HexDec(p.at(1)) + ")");
			else if (k == 'C') st.push_back("(" + HexDec(p.at(1)) + " == " + sc + ".name)");
			// atoms with a free name (global constant / filter variable) and function calls
			else if (k == 'w') st.push_back("(" + sc + ".vars." + HexDec(p.at(1)) + " == " + HexDec(p.at(2)) + ")");
			else if (k == 'i') st.push_back("(" + sc + ".name in " + HexDec(p.at(1)) + ")");
			else if (k == 'm') st.push_back("match(" + Quote(HexDec(p.at(1))) + ", " + sc + ".name)");
			else if (k == 'M') st.push_back("match(" + HexDec(p.at(1)) + ", " + sc + ".name)");
			else if (k == 'l') st.push_back("(len(" + sc + ".name) == " + p.at(1) + ")");
			// demonstration only (notes/C18.md, observation get_object; never generated, not in the model):
			// Gh:<hextype>:<hexname>:<hexkey>:<hexval>  =  get_object("<type>", "<name>").vars.<key> == "<val>"
			else if (k == 'G') st.push_back("(get_object(" + Quote(HexDec(p.at(1))) + ", " + Quote(HexDec(p.at(2))) + ").vars." + HexDec(p.at(3)) + " == " + Quote(HexDec(p.at(4))) + ")");
			else if (k == 'r') st.push_back("regex(" + Quote("^" + HexDec(p.at(1)) + "$") + ", " + sc + ".name)");
			else throw std::runtime_error("bad atom " + tk);
		}
	}
	if (st.size() != 1) throw std::runtime_error("bad rpn");
	return st[0];
}

void InitOnce()
{
	if (l_Init) return;
	l_Init = true;
	// side-effect free, so that it may also be called when the permission lambda runs sandboxed (filter phase)
	ScriptGlobal::Set("pm_sig", new Function("pm_sig", PmSig, { "o" }, true));
	// objects the inventories refer to through navigation fields (check_command, check_period, event_command,
	// command_endpoint); a checkable with command_endpoint needs a zone that is the endpoint zone's parent
	LoadConfig("object CheckCommand \"pmdummy\" { command = [ \"/bin/true\" ] }\n"
		"object CheckCommand \"pmdummy2\" { command = [ \"/bin/true\" ] }\n"
		"object EventCommand \"pm-ev1\" { command = [ \"/bin/true\" ] }\n"
		"object EventCommand \"pm-ev2\" { command = [ \"/bin/true\" ] }\n"
		"object TimePeriod \"pm-tp1\" { update = (tp, b, e) => { return [] } }\n"
		"object TimePeriod \"pm-tp2\" { update = (tp, b, e) => { return [] } }\n"
		"object Endpoint \"pm-m\" { }\nobject Zone \"pm-master\" { endpoints = [ \"pm-m\" ] }\n"
		"object Endpoint \"pm-sat-a\" { }\nobject Zone \"pm-za\" { endpoints = [ \"pm-sat-a\" ]; parent = \"pm-master\" }\n"
		"object Endpoint \"pm-sat-b\" { }\nobject Zone \"pm-zb\" { endpoints = [ \"pm-sat-b\" ]; parent = \"pm-master\" }\n");
	// objects of DIFFERENT types that share a name (names are unique within a type only): CheckCommand, EventCommand,
	// TimePeriod, Endpoint and Zone called pmx / pmy / pmz - the inventories add Hosts of these names
	for (const char *n : { "pmx", "pmy", "pmz" }) {
		std::string q = Quote(n);
		LoadConfig("object CheckCommand " + q + " { command = [ \"/bin/true\" ] }\n"
			"object EventCommand " + q + " { command = [ \"/bin/true\" ] }\n"
			"object TimePeriod " + q + " { update = (tp, b, e) => { return [] } }\n"
			"object Endpoint " + q + " { }\nobject Zone " + q + " { endpoints = [ " + q + " ]; parent = \"pm-master\" }\n");
	}
}

void RemoveObject(const ConfigObject::Ptr& obj)
{
	if (!obj) return;
	Type::Ptr type = obj->GetReflectionType();
	String name = obj->GetName();
	try { obj->Deactivate(true); } catch (...) {}
	obj->Unregister();
	ConfigItem::Ptr item = ConfigItem::GetByTypeAndName(type, name);
	if (item) item->Unregister();
}

std::string VarsText(const std::string& vars)
{
	if (vars == "-" || vars.empty()) return "";   // no vars attribute at all (vars stays null)
	std::string r = "  vars = {\n";
	for (const std::string& kv : Split(vars, ',')) {
		auto p = Split(kv, ':');
		r += "    " + Quote(HexDec(p.at(0))) + " = " + Quote(HexDec(p.at(1))) + "\n";
	}
	return r + "  }\n";
}

// counts the calls that consult objects; delegates to the real provider (as a non-ConfigObjectTargetProvider
// it also disables the fast path, exactly as for the handlers that install their own provider)
class PmCountingProvider final : public TargetProvider
{
public:
	DECLARE_PTR_TYPEDEFS(PmCountingProvider);
	mutable int Calls = 0;
	ConfigObjectTargetProvider::Ptr Inner = new ConfigObjectTargetProvider();
	void FindTargets(const String& type, const std::function<void (const Value&)>& addTarget) const override { Calls++; Inner->FindTargets(type, addTarget); }
	Value GetTargetByName(const String& type, const String& name) const override { Calls++; return Inner->GetTargetByName(type, name); }
	bool IsValidType(const String& type) const override { return Inner->IsValidType(type); }
	String GetPluralName(const String& type) const override { return Inner->GetPluralName(type); }
};

std::string ObjKey(const ConfigObject::Ptr& o)
{
	return std::string(o->GetReflectionType()->GetName().GetData()) + ":" + HexEnc(o->GetName().GetData());
}

std::string JoinSorted(std::vector<std::string> v)
{
	std::sort(v.begin(), v.end());
	std::string r;
	for (auto& s : v) { if (!r.empty()) r += ","; r += s; }
	return r.empty() ? "-" : r;
}

Array::Ptr HexArray(const std::string& s)
{
	ArrayData d;
	for (auto& x : Split(s, ',')) d.push_back(String(HexDec(x)));
	return new Array(std::move(d));
}

// the query dictionary as HttpUtility::FetchRequestParameters would hand it to a handler (JSON body form)
Dictionary::Ptr BuildQuery(const Args& a)
{
	Dictionary::Ptr q = new Dictionary();
	if (a.has("host")) q->Set("host", String(HexDec(a.str("host"))));
	if (a.has("service")) q->Set("service", String(HexDec(a.str("service"))));
	if (a.has("hosts")) q->Set("hosts", HexArray(a.str("hosts")));
	if (a.has("services")) q->Set("services", HexArray(a.str("services")));
	if (a.has("type")) q->Set("type", String(a.str("type")));
	if (a.has("filter")) q->Set("filter", String(FilterText(a.str("filter"))));
	if (a.has("fv")) {
		Dictionary::Ptr fv = new Dictionary();
		for (auto& kv : Split(a.str("fv"), ',')) {
			auto p = Split(kv, ':');
			const std::string& v = p.at(1);
			if (!v.empty() && v[0] == '@') {
				ArrayData d;
				for (auto& x : Split(v.substr(1), '+')) d.push_back(String(HexDec(x)));
				fv->Set(String(HexDec(p.at(0))), new Array(std::move(d)));
			} else
				fv->Set(String(HexDec(p.at(0))), String(HexDec(v)));
		}
		q->Set("filter_vars", fv);
	}
	return q;
}

std::string ExClass(const std::exception& ex)
{
	if (dynamic_cast<const ScriptError *>(&ex)) return "script";
	if (dynamic_cast<const std::invalid_argument *>(&ex)) return "arg";
	return "other";
}

} // namespace

// pm_match pat=<hex> text=<hex>  -> Utility::Match
VOP(pm_match)
{
	bool r = Utility::Match(String(HexDec(a.str("pat"))), String(HexDec(a.str("text"))));
	Out(std::string("pm_match r=") + (r ? "1" : "0"));
}

// navigation references: cc= check_command (default pmdummy), cp= check_period, ec= event_command, ce= command_endpoint
static std::string PmNavText(const PmObjSpec& s)
{
	std::string r = "  check_command = " + Quote(s.cc.empty() ? "pmdummy" : s.cc) + "\n";
	if (!s.cp.empty()) r += "  check_period = " + Quote(s.cp) + "\n";
	if (!s.ec.empty()) r += "  event_command = " + Quote(s.ec) + "\n";
	if (!s.ce.empty()) r += "  command_endpoint = " + Quote(s.ce) + "\n  zone = \"pm-master\"\n";
	return r;
}

VOP(pm_host)
{
	l_Specs.push_back({false, "", HexDec(a.str("name")), a.str("vars", "-"),
		HexDec(a.str("cc", "-")), HexDec(a.str("cp", "-")), HexDec(a.str("ec", "-")), HexDec(a.str("ce", "-"))});
}

VOP(pm_svc)
{
	l_Specs.push_back({true, HexDec(a.str("host")), HexDec(a.str("name")), a.str("vars", "-"),
		HexDec(a.str("cc", "-")), HexDec(a.str("cp", "-")), HexDec(a.str("ec", "-")), HexDec(a.str("ce", "-"))});
}

// pm_glob name=<hex> s=<hex> | a=<hex,hex,..>   a global constant (string / array of strings) for the rest of the case
VOP(pm_glob)
{
	String name = HexDec(a.str("name"));
	Value v;
	if (a.has("a")) v = HexArray(a.str("a")); else v = String(HexDec(a.str("s")));
	Value old;
	bool existed = ScriptGlobal::GetGlobals()->Get(name, &old);
	l_SavedGlobals.push_back({name, existed, old});
	ScriptGlobal::Set(name, v);
}

// pm_user perms=<entry>;<entry>..   entry = <hexperm> | <hexperm>@<rpn filter>
VOP(pm_user)
{
	l_UserPerms = a.str("perms", "-");
	l_Sig = a.num("sig", 0) != 0;
}

VOP(pm_load)
{
	InitOnce();
	// one activation context per object: a batch is committed in parallel, which would make the registration order
	// (= the order FindTargets enumerates) differ from run to run; the script order is the inventory order
	for (auto& s : l_Specs) {
		std::ostringstream oc;
		if (!s.svc) {
			oc << "object Host " << Quote(s.name) << " {\n" << PmNavText(s) << "  enable_active_checks = false\n" << VarsText(s.vars) << "}\n";
		} else {
			oc << "object Service " << Quote(s.name) << " {\n  host_name = " << Quote(s.host) << "\n" << PmNavText(s) << "  enable_active_checks = false\n"
			   << VarsText(s.vars) << "}\n";
		}
		LoadConfig(oc.str());
	}
	std::ostringstream c;
	c << "object ApiUser \"pmuser\" {\n  password = \"pw\"\n";
	if (l_UserPerms != "none") {
		c << "  permissions = [\n";
		for (auto& e : Split(l_UserPerms, ';')) {
			auto at = e.find('@');
			if (at == std::string::npos)
				c << "    " << Quote(HexDec(e)) << ",\n";
			else if (at + 1 == e.size())
				c << "    { permission = " << Quote(HexDec(e.substr(0, at))) << " },\n";
			else
				c << "    { permission = " << Quote(HexDec(e.substr(0, at))) << ", filter = {{ " << (l_Sig ? "pm_sig(obj) && (" : "(") << FilterText(e.substr(at + 1)) << ") }} },\n";
		}
		c << "  ]\n";
	}
	c << "}\n";
	LoadConfig(c.str());
	for (auto& s : l_Specs) {
		ConfigObject::Ptr o;
		if (!s.svc) o = Host::GetByName(s.name); else o = Service::GetByNamePair(s.host, s.name);
		if (!o) throw std::runtime_error("object not created: " + s.name);
		l_Objs.push_back(o);
	}
	l_User = ApiUser::GetByName("pmuser");
	if (!l_User) throw std::runtime_error("user not created");
	Out("pm_load n=" + std::to_string(l_Objs.size()));
}

// pm_perm perm=<hex>  -> HasPermission (with and without filter out-parameter) and CheckPermission
VOP(pm_perm)
{
	String perm = HexDec(a.str("perm"));
	std::unique_ptr<Expression> pf;
	bool has = FilterUtility::HasPermission(l_User, perm, &pf);
	bool has2 = FilterUtility::HasPermission(l_User, perm);
	std::string chk = "ok";
	try { FilterUtility::CheckPermission(l_User, perm); } catch (const std::exception& ex) { chk = ExClass(ex); }
	// which objects the combined permission filter admits (what every access path must agree with)
	std::vector<std::string> adm;
	std::string err;
	for (auto& o : l_Objs) {
		Namespace::Ptr ns = new Namespace();
		ScriptFrame frame(false, ns);
		try {
			if (has && FilterUtility::EvaluateFilter(frame, pf.get(), o)) adm.push_back(ObjKey(o));
		} catch (const std::exception& ex) { adm.push_back(ObjKey(o) + "!E"); }
	}
	Out(std::string("pm_perm has=") + (has ? "1" : "0") + " has2=" + (has2 ? "1" : "0") + " check=" + chk +
		" filtered=" + (pf ? "1" : "0") + " admits=" + JoinSorted(adm));
}

// pm_q types=Host,Service perm=<hex> [host= service= hosts= services= type= filter= fv=] prov=0|1
VOP(pm_q)
{
	QueryDescription qd;
	for (auto& t : Split(a.str("types"), ',')) qd.Types.insert(String(t));
	qd.Permission = HexDec(a.str("perm"));
	PmCountingProvider::Ptr cp;
	if (a.num("prov", 0)) { cp = new PmCountingProvider(); qd.Provider = cp; }
	Dictionary::Ptr q = BuildQuery(a);
	bool has = FilterUtility::HasPermission(l_User, qd.Permission);
	std::ostringstream o;
	o << "pm_q has=" << (has ? 1 : 0);
	std::vector<Value> res;
	std::string err;
	try {
		res = FilterUtility::GetFilterTargets(qd, q, l_User);
	} catch (const std::exception& ex) {
		err = ExClass(ex);
	}
	o << " cons=" << (cp ? (cp->Calls > 0 ? "1" : "0") : "-");
	if (!err.empty()) {
		o << " res=err:" << err;
	} else {
		std::vector<std::string> ks;
		for (const Value& v : res) { ConfigObject::Ptr co = v; ks.push_back(ObjKey(co)); }
		o << " res=ok objs=" << JoinSorted(ks);
	}
	Out(o.str());
}


namespace {

boost::asio::io_context l_Io;
Shared<boost::asio::ssl::context>::Ptr l_Ssl;
Shared<AsioTlsStream>::Ptr l_Stream;
HttpServerConnection::Ptr l_Server;
std::unique_ptr<boost::asio::ip::tcp::acceptor> l_Acceptor;
std::unique_ptr<boost::asio::ip::tcp::socket> l_Peer;

// a real (connected, never used) stream and server connection object for the handlers' reference parameters
void HttpInit()
{
	if (l_Server) return;
	namespace ip = boost::asio::ip;
	l_Ssl = Shared<boost::asio::ssl::context>::Make(boost::asio::ssl::context::tlsv12);
	l_Acceptor.reset(new ip::tcp::acceptor(l_Io, ip::tcp::endpoint(ip::address_v4::loopback(), 0)));
	l_Stream = Shared<AsioTlsStream>::Make(l_Io, *l_Ssl);
	l_Stream->lowest_layer().connect(l_Acceptor->local_endpoint());
	l_Peer.reset(new ip::tcp::socket(l_Io));
	l_Acceptor->accept(*l_Peer);
	l_Server = new HttpServerConnection("pm", false, l_Stream, l_Io);
}

std::string UrlEnc(const std::string& s)
{
	static const char *d = "0123456789ABCDEF";
	std::string r;
	for (unsigned char c : s) {
		if (isalnum(c)) r += (char)c; else { r += '%'; r += d[c >> 4]; r += d[c & 15]; }
	}
	return r;
}

} // namespace

// pm_http kind=query|modify|delete|action ptype=hosts|services [name=<hex>] [act=<action>] [joins=1|2] + query parameters
// Drives HttpHandler::ProcessRequest (URL routing + the registered handlers) inside a coroutine.
VOP(pm_http)
{
	namespace http = boost::beast::http;
	HttpInit();
	std::string kind = a.str("kind", "query");
	Dictionary::Ptr body = BuildQuery(a);
	std::string target;
	http::verb verb;
	const double marker = 2100000000.0 + CaseId() % 1000;
	String notes = "pm-" + std::to_string(CaseId()) + "-" + std::to_string(rand());
	if (kind == "action") {
		target = "/v1/actions/" + a.str("act", "reschedule-check");
		verb = http::verb::post;
		body->Set("next_check", marker);
		for (auto& o : l_Objs) static_pointer_cast<Checkable>(o)->SetNextCheck(1.0, true);
	} else {
		target = "/v1/objects/" + a.str("ptype", "hosts");
		if (a.has("name")) target += "/" + UrlEnc(HexDec(a.str("name")));
		if (kind == "query") {
			verb = http::verb::get;
			ArrayData js;
			if (a.num("joins", 0) == 1) { js.push_back(String("host.name")); js.push_back(String("check_command")); }
			if (a.num("joins", 0) == 2) body->Set("all_joins", true);
			for (auto& pfx : Split(a.str("jsel", "-"), ',')) js.push_back(String(pfx));     // bare prefixes, request order
			if (!js.empty()) body->Set("joins", new Array(std::move(js)));
		} else if (kind == "modify") {
			verb = http::verb::post;
			body->Set("attrs", new Dictionary({ { "notes", notes } }));
		} else {
			verb = http::verb::delete_;
		}
	}
	http::request<http::string_body> request;
	request.method(verb);
	request.target(target);
	request.version(11);
	request.set(http::field::accept, "application/json");
	request.body() = JsonEncode(body).GetData();
	http::response<http::string_body> response;
	ApiUser::Ptr user = l_User;
	bool done = false;
	std::string failure;
	IoEngine::SpawnCoroutine(l_Io, [&](boost::asio::yield_context yc) {
		try {
			HttpHandler::ProcessRequest(*l_Stream, user, request, response, yc, *l_Server);
			done = true;
		} catch (const std::exception& ex) {
			failure = ex.what();
		}
	});
	l_Io.restart();
	l_Io.run();
	if (!done) throw std::runtime_error("handler did not complete: " + failure);

	int code = response.result_int();
	std::ostringstream o;
	o << "pm_http code=";
	if (code == 404) { o << "404"; }
	else if (code == 200 || code == 500) o << "ok"; else o << code;
	Dictionary::Ptr rb;
	try { rb = JsonDecode(response.body()); } catch (const std::exception&) {}
	std::vector<std::string> objs, joins, changed;
	std::string tname = a.str("ptype", "hosts") == "services" ? "Service" : "Host";
	Array::Ptr results = rb ? Array::Ptr(rb->Get("results")) : Array::Ptr();
	if (kind == "action") {
		for (auto& ob : l_Objs)
			if (static_pointer_cast<Checkable>(ob)->GetNextCheck() == marker) objs.push_back(ObjKey(ob));
		if (code != 404 && objs.empty() && results && results->GetLength() > 0) o << " results-without-effect";
	} else if (results) {
		ObjectLock olock(results);
		for (const Dictionary::Ptr& r : results) {
			objs.push_back(tname + ":" + HexEnc(String(r->Get("name")).GetData()));
			Dictionary::Ptr js = r->Get("joins");
			if (js) {
				// every serialised joined object: <prefix>><type of that navigation field>:<name>
				static const std::map<std::string, std::string> jt = { { "host", "Host" }, { "check_command", "CheckCommand" },
					{ "check_period", "TimePeriod" }, { "event_command", "EventCommand" }, { "command_endpoint", "Endpoint" } };
				ObjectLock jlock(js);
				for (const Dictionary::Pair& kv : js) {
					Dictionary::Ptr jo = kv.second;
					std::string pfx = kv.first.GetData();
					auto it = jt.find(pfx);
					String nm = jo->Contains("name") ? jo->Get("name") : jo->Get("__name");
					joins.push_back(pfx + ">" + (it == jt.end() ? std::string("?") : it->second) + ":" + HexEnc(nm.GetData()));
				}
			}
		}
	}
	if (kind == "modify") {
		for (auto& ob : l_Objs)
			if (static_pointer_cast<Checkable>(ob)->GetNotes() == notes) changed.push_back(ObjKey(ob));
	}
	if (code != 404) {
		o << " objs=" << JoinSorted(objs);
		if (kind == "modify") o << " changed=" << JoinSorted(changed);
		if (kind == "query" && (a.num("joins", 0) || a.has("jsel"))) o << " joins=" << JoinSorted(joins);
	} else if (!objs.empty() || !changed.empty()) {
		o << " objs=" << JoinSorted(objs);      // a 404 that nevertheless acted on objects
	}
	Out(o.str());
}

// ---------------------------------------------------------------------------------------------------------------
// round 5 (f): the attribute dimension of the read path.
namespace {

// runs one request through HttpHandler::ProcessRequest in a coroutine on the harness io_context (as pm_http does)
void PmRunHttp(boost::beast::http::verb verb, const std::string& target, const Dictionary::Ptr& body,
	boost::beast::http::response<boost::beast::http::string_body>& response)
{
	namespace http = boost::beast::http;
	HttpInit();
	http::request<http::string_body> request;
	request.method(verb);
	request.target(target);
	request.version(11);
	request.set(http::field::accept, "application/json");
	request.body() = JsonEncode(body).GetData();
	ApiUser::Ptr user = l_User;
	bool done = false;
	std::string failure;
	IoEngine::SpawnCoroutine(l_Io, [&](boost::asio::yield_context yc) {
		try {
			HttpHandler::ProcessRequest(*l_Stream, user, request, response, yc, *l_Server);
			done = true;
		} catch (const std::exception& ex) {
			failure = ex.what();
		}
	});
	l_Io.restart();
	l_Io.run();
	if (!done) throw std::runtime_error("handler did not complete: " + failure);
}

uint32_t PmFnv(const std::string& s)
{
	uint32_t h = 2166136261u;
	for (unsigned char c : s) { h ^= c; h *= 16777619u; }
	return h;
}

// a set of names: the names themselves when there are at most 6, else #<count>:<fnv-1a of the sorted, comma-joined names>
std::string PmDigest(std::vector<std::string> v)
{
	std::sort(v.begin(), v.end());
	v.erase(std::unique(v.begin(), v.end()), v.end());
	if (v.empty()) return "-";
	std::string j;
	for (auto& x : v) { if (!j.empty()) j += ","; j += x; }
	if (v.size() <= 6) { std::replace(j.begin(), j.end(), ',', '+'); return j; }
	char buf[64];
	snprintf(buf, sizeof(buf), "#%zu:%08x", v.size(), PmFnv(j));
	return buf;
}

bool PmFieldHidden(const Field& f)
{
	return (f.Attributes & FANoUserView) || ((f.Attributes & FANavigation) && !(f.Attributes & (FAConfig | FAState)));
}

bool PmIsConfigTypeName(const String& n)
{
	Type::Ptr t = Type::GetByName(n);
	return t && ConfigObject::TypeInstance->IsAssignableFrom(t);
}

// every place inside a serialised value where a whole config object shows up: a dictionary with "type" naming a config
// type and "__name" (what Serialize() makes of a ConfigObject)
void PmFindEmbedded(const Value& v, const std::string& path, std::vector<std::string>& out)
{
	if (v.IsObjectType<Dictionary>()) {
		Dictionary::Ptr d = v;
		if (d->Contains("type") && d->Contains("__name") && d->Get("type").IsString() && PmIsConfigTypeName(d->Get("type"))) {
			out.push_back(path + ">" + std::string(String(d->Get("type")).GetData()) + ":" + HexEnc(String(d->Get("__name")).GetData()));
			return;
		}
		ObjectLock olock(d);
		for (const Dictionary::Pair& kv : d) PmFindEmbedded(kv.second, path, out);
	} else if (v.IsObjectType<Array>()) {
		Array::Ptr a = v;
		ObjectLock olock(a);
		for (const Value& x : a) PmFindEmbedded(x, path, out);
	}
}

int PmCountHidden(const Type::Ptr& type, const Dictionary::Ptr& attrs)
{
	int n = 0;
	ObjectLock olock(attrs);
	for (const Dictionary::Pair& kv : attrs) {
		int fid = type->GetFieldId(kv.first);
		if (fid >= 0 && PmFieldHidden(type->GetFieldInfo(fid))) n++;
	}
	return n;
}

} // namespace

// pm_fields type=<TypeName>: the live reflection data of a type, as the facts generator reads it from the .ti files
VOP(pm_fields)
{
	Type::Ptr type = Type::GetByName(a.str("type"));
	if (!type) { Out("pm_fields n=-"); return; }
	// field ids are an artefact of the class compiler (it sorts fields by type): the rows are compared as a SET
	std::vector<std::string> rowv, navv, objv;
	int n = type->GetFieldCount();
	for (int fid = 0; fid < n; fid++) {
		Field f = type->GetFieldInfo(fid);
		bool nav = f.Attributes & FANavigation;
		bool ov = PmIsConfigTypeName(f.TypeName);
		rowv.push_back(std::string(f.Name) + "/" + (nav && f.NavigationName ? f.NavigationName : "-") + "/" +
			((f.Attributes & FAConfig) ? "1" : "0") + ((f.Attributes & FAState) ? "1" : "0") + (nav ? "1" : "0") +
			((f.Attributes & FANoUserView) ? "1" : "0") + (ov ? "1" : "0"));
		if (nav) navv.push_back(f.Name);
		if (ov) objv.push_back(f.Name);
	}
	std::sort(rowv.begin(), rowv.end());
	std::string rows;
	for (auto& r : rowv) rows += r + ";";
	if (getenv("PM_FIELDS_DUMP")) fprintf(stderr, "%s\n", rows.c_str());
	char buf[32];
	snprintf(buf, sizeof(buf), "%08x", PmFnv(rows));
	Out("pm_fields n=" + std::to_string(n) + " d=" + buf + " nav=" + JoinSorted(navv) + " obj=" + JoinSorted(objv));
}

// pm_aq ptype=hosts|services [name=<hex>] [attrs=<hex,..>] [aj=<hex,..>] [alljoins=1] [meta=<hex,..>] + query parameters
// GET /v1/objects/<type> through the real handler; observed: status, result names, the KEYS of every attrs dictionary, the
// joined objects, every config object embedded anywhere in a serialised value, number of hidden fields among the keys
VOP(pm_aq)
{
	namespace http = boost::beast::http;
	Dictionary::Ptr body = BuildQuery(a);
	std::string target = "/v1/objects/" + a.str("ptype", "hosts");
	if (a.has("name")) target += "/" + UrlEnc(HexDec(a.str("name")));
	if (a.has("attrs")) body->Set("attrs", HexArray(a.str("attrs")));
	if (a.has("aj")) body->Set("joins", HexArray(a.str("aj")));
	if (a.num("alljoins", 0)) body->Set("all_joins", true);
	if (a.has("meta")) body->Set("meta", HexArray(a.str("meta")));
	http::response<http::string_body> response;
	PmRunHttp(http::verb::get, target, body, response);
	int code = response.result_int();
	if (code != 200) { Out("pm_aq code=" + std::to_string(code)); return; }
	Dictionary::Ptr rb;
	try { rb = JsonDecode(response.body()); } catch (const std::exception&) {}
	Array::Ptr results = rb ? Array::Ptr(rb->Get("results")) : Array::Ptr();
	if (!results) { Out("pm_aq code=ok unparsable"); return; }
	std::string tname = a.str("ptype", "hosts") == "services" ? "Service" : "Host";
	Type::Ptr ptype = Type::GetByName(tname);
	static const std::map<std::string, std::string> jt = { { "host", "Host" }, { "check_command", "CheckCommand" },
		{ "check_period", "TimePeriod" }, { "event_command", "EventCommand" }, { "command_endpoint", "Endpoint" } };
	std::vector<std::string> objs, joins, embeds;
	std::string akeys = "-";
	bool avary = false, first = true;
	std::map<std::string, std::string> jkeys;
	bool jvary = false;
	int hidden = 0;
	ObjectLock olock(results);
	for (const Dictionary::Ptr& r : results) {
		String oname = r->Get("name");
		objs.push_back(tname + ":" + HexEnc(oname.GetData()));
		Dictionary::Ptr attrs = r->Get("attrs");
		std::vector<std::string> ks;
		if (attrs) {
			ObjectLock alock(attrs);
			for (const Dictionary::Pair& kv : attrs) {
				ks.push_back(kv.first.GetData());
				PmFindEmbedded(kv.second, kv.first.GetData(), embeds);
			}
			hidden += PmCountHidden(ptype, attrs);
		}
		std::string d = PmDigest(ks);
		if (first) akeys = d; else if (d != akeys) avary = true;
		first = false;
		Dictionary::Ptr js = r->Get("joins");
		if (js) {
			ConfigObject::Ptr pobj = ConfigObject::GetObject(tname, oname);
			ObjectLock jlock(js);
			for (const Dictionary::Pair& kv : js) {
				Dictionary::Ptr jo = kv.second;
				std::string pfx = kv.first.GetData();
				// the joined object as the result object's navigation field delivers it (a join restricted to some fields need not contain a name)
				Object::Ptr jobj;
				if (pobj) {
					for (int fid = 0; fid < ptype->GetFieldCount(); fid++) {
						Field f = ptype->GetFieldInfo(fid);
						if ((f.Attributes & FANavigation) && f.NavigationName && pfx == f.NavigationName) { jobj = pobj->NavigateField(fid); break; }
					}
				}
				String nm;
				if (jo && jo->Contains("__name")) nm = jo->Get("__name");
				else if (jobj) nm = static_pointer_cast<ConfigObject>(jobj)->GetName();
				auto it = jt.find(pfx);
				joins.push_back(pfx + ">" + (it == jt.end() ? std::string("?") : it->second) + ":" + HexEnc(nm.GetData()));
				std::vector<std::string> jks;
				if (jo) {
					ObjectLock jolock(jo);
					for (const Dictionary::Pair& jkv : jo) {
						jks.push_back(jkv.first.GetData());
						PmFindEmbedded(jkv.second, pfx + "." + jkv.first.GetData(), embeds);
					}
					if (jobj) hidden += PmCountHidden(jobj->GetReflectionType(), jo);
				}
				std::string jd = PmDigest(jks);
				auto jit = jkeys.find(pfx);
				if (jit == jkeys.end()) jkeys[pfx] = jd; else if (jit->second != jd) jvary = true;
			}
		}
	}
	std::string jk;
	for (auto& kv : jkeys) { if (!jk.empty()) jk += "/"; jk += kv.first + "=" + kv.second; }
	Out("pm_aq code=ok objs=" + JoinSorted(objs) + " akeys=" + akeys + (avary ? "!vary" : "") + " joins=" + JoinSorted(joins) +
		" jkeys=" + (jk.empty() ? "-" : jk) + (jvary ? "!vary" : "") + " embed=" + JoinSorted(embeds) + " hidden=" + std::to_string(hidden));
}

// ---------------------------------------------------------------------------------------------------------------
// round 5 (e): check-then-act.  pm_race kind=modify|action|query|delete ptype=hosts|services target=<hex name>
//   nvars=<vars> [ncp= nec= nce=] lock=0|1 + query parameters (as pm_http; `name=` puts the name into the URL)
// Directed schedule, no hook in /repo: (1) the request runs on its own thread; its permission filter (rendered with pm_sig,
// see pm_user sig=1) parks the thread while it evaluates the TARGET object, i.e. after the handler resolved it and before the
// verdict is used; (2) with lock=1 the harness - "another writer" - takes ObjectNameLock(type, target); (3) it deletes the
// target and creates a NEW object of the same name with other attributes; (4) it lets the request continue - the request
// finishes its authorisation and then has to wait for the name lock - and releases the lock.  Observed: status, names in `results`, and which OBJECT was acted on - the one that had the name at
// authorisation time (old) or the one that has it now (new): notes (modify), next_check (action), vars.pmid in the
// serialised attributes (query), still registered (delete).
VOP(pm_race)
{
	namespace http = boost::beast::http;
	HttpInit();
	std::string kind = a.str("kind", "modify");
	std::string tname = a.str("ptype", "hosts") == "services" ? "Service" : "Host";
	String target = HexDec(a.str("target"));
	ConfigObject::Ptr oldObj = ConfigObject::GetObject(tname, target);
	size_t idx = 0;
	while (idx < l_Objs.size() && l_Objs[idx] != oldObj) idx++;
	if (!oldObj || idx == l_Objs.size()) throw std::runtime_error("pm_race: no such target");
	Dictionary::Ptr body = BuildQuery(a);
	std::string url;
	http::verb verb;
	const double marker = 2100000000.0 + CaseId() % 1000;
	String notes = "pm-race-" + std::to_string(CaseId()) + "-" + std::to_string(rand());
	if (kind == "action") {
		url = "/v1/actions/reschedule-check";
		verb = http::verb::post;
		body->Set("next_check", marker);
		for (auto& o : l_Objs) static_pointer_cast<Checkable>(o)->SetNextCheck(1.0, true);
	} else {
		url = "/v1/objects/" + a.str("ptype", "hosts");
		if (a.has("name")) url += "/" + UrlEnc(HexDec(a.str("name")));
		if (kind == "query") { verb = http::verb::get; body->Set("attrs", new Array({ String("vars"), String("__name") })); }
		else if (kind == "modify") { verb = http::verb::post; body->Set("attrs", new Dictionary({ { "notes", notes } })); }
		else verb = http::verb::delete_;
	}
	// the object that will carry the name afterwards
	PmObjSpec ns = l_Specs.at(idx);
	ns.vars = a.str("nvars", "-");
	ns.cp = HexDec(a.str("ncp", "-")); ns.ec = HexDec(a.str("nec", "-")); ns.ce = HexDec(a.str("nce", "-"));
	std::ostringstream oc;
	if (!ns.svc) oc << "object Host " << Quote(ns.name) << " {\n" << PmNavText(ns) << "  enable_active_checks = false\n" << VarsText(ns.vars) << "}\n";
	else oc << "object Service " << Quote(ns.name) << " {\n  host_name = " << Quote(ns.host) << "\n" << PmNavText(ns) << "  enable_active_checks = false\n" << VarsText(ns.vars) << "}\n";

	{
		std::unique_lock<std::mutex> lock(l_ParkM);
		l_ParkTarget = oldObj.get(); l_Parked = false; l_Go = false;
	}
	std::unique_ptr<ObjectNameLock> nameLock;
	bool useLock = a.num("lock", 1) != 0 && (kind == "modify" || kind == "delete");

	http::response<http::string_body> response;
	std::string failure;
	bool finished = false;
	std::thread worker([&]() {
		try { PmRunHttp(verb, url, body, response); } catch (const std::exception& ex) { failure = ex.what(); }
		std::unique_lock<std::mutex> lock(l_ParkM);
		finished = true;
		l_ParkCV.notify_all();
	});
	bool parked;
	{
		std::unique_lock<std::mutex> lock(l_ParkM);
		l_ParkCV.wait_for(lock, std::chrono::seconds(60), [&] { return l_Parked || finished; });
		parked = l_Parked;
	}
	// the other writer: takes the name lock (the request is parked in its authorisation phase and has not reached its own
	// ObjectNameLock yet; a request that never evaluates the target's permission filter has finished by now: no lock, or
	// it would wait for us forever), deletes the object, creates another one under its name
	useLock = useLock && parked;
	if (useLock) nameLock.reset(new ObjectNameLock(Type::GetByName(tname), target));
	RemoveObject(oldObj);
	LoadConfig(oc.str());
	ConfigObject::Ptr newObj = ConfigObject::GetObject(tname, target);
	if (!newObj || newObj == oldObj) { failure = "swap failed"; }
	else { l_Objs[idx] = newObj; l_Specs[idx] = ns; }
	{
		std::unique_lock<std::mutex> lock(l_ParkM);
		l_Go = true; l_ParkTarget = nullptr;
		l_ParkCV.notify_all();
	}
	if (useLock) {
		std::this_thread::sleep_for(std::chrono::milliseconds(3));   // let the request reach the lock (not needed for the outcome)
		nameLock.reset();
	}
	worker.join();
	if (!failure.empty()) throw std::runtime_error("pm_race: " + failure);

	int code = response.result_int();
	std::ostringstream o;
	o << "pm_race parked=" << (parked ? 1 : 0) << " code=";
	if (code == 404) o << "404"; else if (code == 200 || code == 500) o << "ok"; else o << code;
	Dictionary::Ptr rb;
	try { rb = JsonDecode(response.body()); } catch (const std::exception&) {}
	Array::Ptr results = rb ? Array::Ptr(rb->Get("results")) : Array::Ptr();
	std::vector<std::string> objs, acted;
	bool actedOld = false, actedNew = false;
	if (kind == "action") {
		for (auto& ob : l_Objs)
			if (static_pointer_cast<Checkable>(ob)->GetNextCheck() == marker) objs.push_back(ObjKey(ob));
		actedOld = static_pointer_cast<Checkable>(oldObj)->GetNextCheck() == marker;
		actedNew = newObj && static_pointer_cast<Checkable>(newObj)->GetNextCheck() == marker;
		if (actedOld) objs.push_back(ObjKey(oldObj));
	} else if (results) {
		ObjectLock olock(results);
		for (const Dictionary::Ptr& r : results) {
			objs.push_back(tname + ":" + HexEnc(String(r->Get("name")).GetData()));
			if (kind == "query" && String(r->Get("name")) == target) {
				// whose attributes were serialised: compare vars with the two objects'
				Dictionary::Ptr at = r->Get("attrs");
				String sv = at ? JsonEncode(at->Get("vars")) : String("?");
				String ov = JsonEncode(static_pointer_cast<CustomVarObject>(oldObj)->GetVars());
				String nv = newObj ? JsonEncode(static_pointer_cast<CustomVarObject>(newObj)->GetVars()) : String("?");
				if (sv == ov) actedOld = true;
				if (sv == nv && sv != ov) actedNew = true;
			}
		}
	}
	if (kind == "modify") {
		actedOld = static_pointer_cast<Checkable>(oldObj)->GetNotes() == notes;
		actedNew = newObj && static_pointer_cast<Checkable>(newObj)->GetNotes() == notes;
	}
	if (kind == "delete") {
		// objects of the fixture are not API-created: DeleteObject refuses them; what matters is that the new object is untouched
		actedNew = newObj && (ConfigObject::GetObject(tname, target) != newObj || !newObj->IsActive());
	}
	std::sort(objs.begin(), objs.end());
	objs.erase(std::unique(objs.begin(), objs.end()), objs.end());
	if (code != 404 || !objs.empty()) o << " objs=" << JoinSorted(objs);
	o << " acted=" << (actedOld ? "old" : "") << (actedOld && actedNew ? "+" : "") << (actedNew ? "new" : "") << (!actedOld && !actedNew ? "-" : "");
	Out(o.str());
}

// ---------------------------------------------------------------------------------------------------------------
// round 6: WHO is the user, and WHICH permission list.
//  (1) pm_auser / pm_uset / pm_urestore / pm_udel change ApiUser objects in the running process (creation through config text,
//      ConfigObject::ModifyAttribute("permissions", ..) / RestoreAttribute as POST /v1/objects/apiusers/<name> does - via=http goes
//      through the real ModifyObjectHandler - , removal from the registry); the user "pmuser" of pm_load is one of them.
//  (2) pm_copen / pm_creq / pm_cclose: ONE real HttpServerConnection (its own io_context, run by a server thread) over a TLS
//      session on a socketpair; the harness is the HTTP client (plain OpenSSL, hand-written HTTP/1.1) and sends several
//      requests with different Authorization headers over the same connection.  Observed: status, names in `results`,
//      whether the server ended the connection.  No log text.
#include "base/base64.hpp"
#include <openssl/ssl.h>
#include <openssl/x509.h>
#include <openssl/evp.h>
#include <sys/socket.h>
#include <sys/time.h>
#include <signal.h>
#include <cerrno>
#include <unistd.h>

namespace {

std::vector<ApiUser::Ptr> l_AUsers;          // every additional ApiUser created in this case (registered or not)
ApiUser::Ptr l_Root;                         // pmroot, permissions ["*"]: the administrator who changes other users over HTTP

std::string PermsText(const std::string& perms, bool sig)
{
	std::ostringstream c;
	c << "[\n";
	for (auto& e : Split(perms, ';')) {
		auto at = e.find('@');
		if (at == std::string::npos)
			c << "    " << Quote(HexDec(e)) << ",\n";
		else if (at + 1 == e.size())
			c << "    { permission = " << Quote(HexDec(e.substr(0, at))) << " },\n";
		else
			c << "    { permission = " << Quote(HexDec(e.substr(0, at))) << ", filter = {{ " << (sig ? "pm_sig(obj) && (" : "(") << FilterText(e.substr(at + 1)) << ") }} },\n";
	}
	c << "  ]";
	return c.str();
}

void PmEnsureRoot()
{
	if (l_Root) return;
	LoadConfig("object ApiUser \"pmroot\" {\n  password = \"pmroot-pw\"\n  permissions = [ \"*\" ]\n}\n");
	l_Root = ApiUser::GetByName("pmroot");
}

struct PmConn {
	int fd = -1;
	SSL_CTX *ctx = nullptr;
	SSL *ssl = nullptr;
	bool clientOpen = false;
	std::unique_ptr<boost::asio::io_context> io;
	Shared<AsioTlsStream>::Ptr stream;
	std::thread server;
	std::string serverFailure;
	std::mutex m;
	std::condition_variable cv;
	bool constructed = false;      // the HttpServerConnection exists (its constructor resolved the certificate's user) or the handshake failed
};
std::map<int, std::unique_ptr<PmConn>> l_Conns;

boost::asio::ssl::context& PmServerCtx()
{
	static std::unique_ptr<boost::asio::ssl::context> ctx;
	if (!ctx) {
		ctx.reset(new boost::asio::ssl::context(boost::asio::ssl::context::tls_server));
		EVP_PKEY *pkey = EVP_EC_gen("P-256");
		X509 *x = X509_new();
		ASN1_INTEGER_set(X509_get_serialNumber(x), 1);
		X509_gmtime_adj(X509_getm_notBefore(x), -3600);
		X509_gmtime_adj(X509_getm_notAfter(x), 365 * 24 * 3600L);
		X509_set_pubkey(x, pkey);
		X509_NAME *name = X509_get_subject_name(x);
		X509_NAME_add_entry_by_txt(name, "CN", MBSTRING_ASC, (const unsigned char *)"vdrive-c18", -1, -1, 0);
		X509_set_issuer_name(x, name);
		X509_sign(x, pkey, EVP_sha256());
		SSL_CTX_use_certificate(ctx->native_handle(), x);
		SSL_CTX_use_PrivateKey(ctx->native_handle(), pkey);
	}
	return *ctx;
}

void PmCloseClient(PmConn& c)
{
	if (!c.clientOpen) return;
	c.clientOpen = false;
	SSL_shutdown(c.ssl);
	::shutdown(c.fd, SHUT_WR);
	char buf[256];
	while (::read(c.fd, buf, sizeof buf) > 0) { }      // until the server side is gone (receive timeout bounds this)
}

void PmDestroyConn(PmConn& c)
{
	PmCloseClient(c);
	if (c.server.joinable()) c.server.join();
	if (c.ssl) SSL_free(c.ssl);
	if (c.ctx) SSL_CTX_free(c.ctx);
	if (c.fd >= 0) ::close(c.fd);
	c.ssl = nullptr; c.ctx = nullptr; c.fd = -1;
	c.stream = nullptr;
}

// reads one HTTP response; false = the connection ended before a complete response
bool PmReadResponse(PmConn& c, int& code, bool& closeHdr, std::string& body)
{
	std::string buf;
	char tmp[4096];
	size_t hend;
	while ((hend = buf.find("\r\n\r\n")) == std::string::npos) {
		int n = SSL_read(c.ssl, tmp, sizeof tmp);
		if (n <= 0) return false;
		buf.append(tmp, n);
	}
	std::string head = buf.substr(0, hend + 2);
	std::string lower = head;
	std::transform(lower.begin(), lower.end(), lower.begin(), [](unsigned char ch) { return (char)tolower(ch); });
	if (head.size() < 12 || head.compare(0, 5, "HTTP/") != 0) return false;
	code = atoi(head.c_str() + 9);
	closeHdr = lower.find("\r\nconnection: close\r\n") != std::string::npos;
	size_t clen = 0;
	size_t cl = lower.find("\r\ncontent-length:");
	if (cl != std::string::npos) clen = (size_t)atol(lower.c_str() + cl + 17);
	body = buf.substr(hend + 4);
	while (body.size() < clen) {
		int n = SSL_read(c.ssl, tmp, sizeof tmp);
		if (n <= 0) return false;
		body.append(tmp, n);
	}
	return true;
}

ApiUser::Ptr PmUserByName(const String& name)
{
	return ApiUser::GetByName(name);
}

} // namespace

// pm_auser name=<hex> pass=<hex> [cn=<hex>] perms=<entries>|none   -> a new ApiUser object (not if the name is taken)
VOP(pm_auser)
{
	InitOnce();
	String name = HexDec(a.str("name"));
	if (PmUserByName(name)) { Out("pm_auser created=0"); return; }
	std::ostringstream c;
	c << "object ApiUser " << Quote(name.GetData()) << " {\n  password = " << Quote(HexDec(a.str("pass", "-"))) << "\n";
	if (a.has("cn")) c << "  client_cn = " << Quote(HexDec(a.str("cn"))) << "\n";
	std::string perms = a.str("perms", "-");
	if (perms != "none") c << "  permissions = " << PermsText(perms, false) << "\n";
	c << "}\n";
	LoadConfig(c.str());
	ApiUser::Ptr u = PmUserByName(name);
	if (!u) throw std::runtime_error("pm_auser: user not created");
	l_AUsers.push_back(u);
	if (name == "pmuser") l_User = u;            // the object the direct ops (pm_q, pm_http, ..) hand to the handlers from now on
	Out("pm_auser created=1");
}

// pm_uset name=<hex> perms=<entries> [via=attr|http]: assign the `permissions` attribute of the registered user at runtime
VOP(pm_uset)
{
	namespace http = boost::beast::http;
	String name = HexDec(a.str("name"));
	ApiUser::Ptr u = PmUserByName(name);
	if (!u) { Out("pm_uset done=0"); return; }
	std::string perms = a.str("perms", "-");
	if (a.str("via", "attr") == "http") {
		// POST /v1/objects/apiusers/<name> { attrs: { permissions: [ .. ] } } as pmroot (entries without filter only: JSON has no functions)
		PmEnsureRoot();
		ArrayData items;
		for (auto& e : Split(perms, ';')) {
			auto at = e.find('@');
			if (at == std::string::npos) items.push_back(String(HexDec(e)));
			else items.push_back(new Dictionary({ { "permission", String(HexDec(e.substr(0, at))) } }));
		}
		Dictionary::Ptr body = new Dictionary({ { "attrs", new Dictionary({ { "permissions", new Array(std::move(items)) } }) } });
		http::response<http::string_body> response;
		ApiUser::Ptr saved = l_User;
		l_User = l_Root;
		try { PmRunHttp(http::verb::post, "/v1/objects/apiusers/" + UrlEnc(name.GetData()), body, response); } catch (...) { l_User = saved; throw; }
		l_User = saved;
		if (response.result_int() != 200) throw std::runtime_error("pm_uset via=http: status " + std::to_string(response.result_int()) + " " + response.body());
	} else {
		std::unique_ptr<Expression> expr = ConfigCompiler::CompileText("<pm_uset>", PermsText(perms, l_Sig));
		ScriptFrame frame(true);
		Value v = expr->Evaluate(frame);
		u->ModifyAttribute("permissions", v);
	}
	Out("pm_uset done=1");
}

// pm_urestore name=<hex> [via=attr|http]: RestoreAttribute("permissions")
VOP(pm_urestore)
{
	namespace http = boost::beast::http;
	String name = HexDec(a.str("name"));
	ApiUser::Ptr u = PmUserByName(name);
	if (!u) { Out("pm_urestore done=0"); return; }
	if (a.str("via", "attr") == "http") {
		PmEnsureRoot();
		Dictionary::Ptr body = new Dictionary({ { "restore_attrs", new Array({ String("permissions") }) } });
		http::response<http::string_body> response;
		ApiUser::Ptr saved = l_User;
		l_User = l_Root;
		try { PmRunHttp(http::verb::post, "/v1/objects/apiusers/" + UrlEnc(name.GetData()), body, response); } catch (...) { l_User = saved; throw; }
		l_User = saved;
		if (response.result_int() != 200) throw std::runtime_error("pm_urestore via=http: status " + std::to_string(response.result_int()));
	} else
		u->RestoreAttribute("permissions");
	Out("pm_urestore done=1");
}

// pm_udel name=<hex>: the user object leaves the registry (whoever holds a pointer keeps a live object)
VOP(pm_udel)
{
	String name = HexDec(a.str("name"));
	ApiUser::Ptr u = PmUserByName(name);
	if (!u) { Out("pm_udel done=0"); return; }
	RemoveObject(u);
	Out("pm_udel done=1");
}

// pm_copen conn=<n> [cn=<hex>]: a new HttpServerConnection; cn = the CN of a verified client certificate (what ApiListener
// passes as identity with authenticated = true)
VOP(pm_copen)
{
	InitOnce();
	signal(SIGPIPE, SIG_IGN);
	(void)IoEngine::Get();
	int id = (int)a.num("conn", 0);
	if (l_Conns.count(id)) throw std::runtime_error("pm_copen: connection exists");
	std::unique_ptr<PmConn> c(new PmConn());
	int sv[2];
	if (socketpair(AF_UNIX, SOCK_STREAM, 0, sv) != 0) throw std::runtime_error("socketpair");
	c->fd = sv[1];
	struct timeval tv = { 20, 0 };
	setsockopt(c->fd, SOL_SOCKET, SO_RCVTIMEO, &tv, sizeof tv);
	c->io.reset(new boost::asio::io_context());
	c->stream = Shared<AsioTlsStream>::Make(*c->io, PmServerCtx());
	c->stream->lowest_layer().assign(boost::asio::ip::tcp::v4(), sv[0]);
	bool cert = a.has("cn");
	String identity = cert ? String(HexDec(a.str("cn"))) : String();
	PmConn *cp = c.get();
	IoEngine::SpawnCoroutine(*c->io, [cp, cert, identity](boost::asio::yield_context yc) {
		try {
			cp->stream->next_layer().async_handshake(boost::asio::ssl::stream_base::server, yc);
			HttpServerConnection::Ptr server = new HttpServerConnection(identity, cert, cp->stream, *cp->io);
			server->Start();
		} catch (const std::exception& ex) {
			cp->serverFailure = ex.what();
		}
		std::unique_lock<std::mutex> lock(cp->m);
		cp->constructed = true;
		cp->cv.notify_all();
	});
	c->server = std::thread([cp]() {
		try { cp->io->run(); } catch (const std::exception& ex) { cp->serverFailure = ex.what(); }
	});
	c->ctx = SSL_CTX_new(TLS_client_method());
	c->ssl = SSL_new(c->ctx);
	SSL_set_fd(c->ssl, c->fd);
	if (SSL_connect(c->ssl) != 1) { PmDestroyConn(*c); throw std::runtime_error("pm_copen: TLS handshake failed"); }
	c->clientOpen = true;
	{
		// the script goes on only when the server side exists: the constructor looks the certificate's user up NOW, not after a later op
		std::unique_lock<std::mutex> lock(c->m);
		if (!c->cv.wait_for(lock, std::chrono::seconds(30), [&] { return c->constructed; })) { lock.unlock(); PmDestroyConn(*c); throw std::runtime_error("pm_copen: server side did not come up"); }
	}
	l_Conns[id] = std::move(c);
}

// pm_creq conn=<n> hdr=none|b:<hex of user:password>|o:<hex of the raw header value> ptype=hosts|services [name=<hex>] [close=1]
//   + query parameters: GET /v1/objects/<type> on the connection
VOP(pm_creq)
{
	auto it = l_Conns.find((int)a.num("conn", 0));
	if (it == l_Conns.end()) throw std::runtime_error("pm_creq: no such connection");
	PmConn& c = *it->second;
	if (!c.clientOpen) { Out("pm_creq closed"); return; }
	std::string target = "/v1/objects/" + a.str("ptype", "hosts");
	if (a.has("name")) target += "/" + UrlEnc(HexDec(a.str("name")));
	std::string body = JsonEncode(BuildQuery(a)).GetData();
	std::string hdr = a.str("hdr", "none");
	bool wantClose = a.num("close", 0) != 0;
	std::ostringstream rq;
	rq << "GET " << target << " HTTP/1.1\r\nHost: localhost\r\nAccept: application/json\r\n";
	if (hdr.compare(0, 2, "b:") == 0) rq << "Authorization: Basic " << Base64::Encode(String(HexDec(hdr.substr(2)))).GetData() << "\r\n";
	else if (hdr.compare(0, 2, "o:") == 0) rq << "Authorization: " << HexDec(hdr.substr(2)) << "\r\n";
	if (wantClose) rq << "Connection: close\r\n";
	rq << "Content-Length: " << body.size() << "\r\n\r\n" << body;
	std::string text = rq.str();
	int code = 0;
	bool closeHdr = false;
	std::string rbody;
	if (SSL_write(c.ssl, text.data(), (int)text.size()) <= 0 || !PmReadResponse(c, code, closeHdr, rbody)) {
		PmCloseClient(c);
		Out("pm_creq closed");
		return;
	}
	std::ostringstream o;
	o << "pm_creq code=";
	if (code == 200) o << "ok"; else o << code;
	if (code == 200) {
		std::vector<std::string> objs;
		std::string tname = a.str("ptype", "hosts") == "services" ? "Service" : "Host";
		Dictionary::Ptr rb;
		try { rb = JsonDecode(rbody); } catch (const std::exception&) {}
		Array::Ptr results = rb ? Array::Ptr(rb->Get("results")) : Array::Ptr();
		if (results) {
			ObjectLock olock(results);
			for (const Dictionary::Ptr& r : results) objs.push_back(tname + ":" + HexEnc(String(r->Get("name")).GetData()));
		}
		o << " objs=" << JoinSorted(objs);
	}
	if (closeHdr || wantClose) {
		// the server announced the end of the connection (or was asked for it): does it really end?
		char tmp[64];
		errno = 0;
		int n = SSL_read(c.ssl, tmp, sizeof tmp);
		bool eof = false;
		if (n <= 0) {
			int e = SSL_get_error(c.ssl, n);
			// close_notify, or the transport ended; NOT: the receive timeout expired while the server kept the connection
			eof = e == SSL_ERROR_ZERO_RETURN || e == SSL_ERROR_SSL || (e == SSL_ERROR_SYSCALL && errno != EAGAIN && errno != EWOULDBLOCK);
		}
		o << " eof=" << (eof ? 1 : 0);
		PmCloseClient(c);
	}
	Out(o.str());
}

// pm_cclose conn=<n>
VOP(pm_cclose)
{
	auto it = l_Conns.find((int)a.num("conn", 0));
	if (it == l_Conns.end()) return;
	PmDestroyConn(*it->second);
	if (!it->second->serverFailure.empty()) { std::string f = it->second->serverFailure; l_Conns.erase(it); throw std::runtime_error("pm_cclose: server side failed: " + f); }
	l_Conns.erase(it);
}

namespace {
struct PmCaseEnd {
	PmCaseEnd() {
		RegisterCaseEnd([]() {
			// round 6: connections, additional users (no-ops unless the case used them)
			for (auto& kv : l_Conns) PmDestroyConn(*kv.second);
			l_Conns.clear();
			for (auto& u : l_AUsers) { if (u != l_User && ApiUser::GetByName(u->GetName()) == u) RemoveObject(u); }
			if (l_User && ApiUser::GetByName(l_User->GetName()) != l_User) l_User = nullptr;   // already removed by pm_udel
			l_AUsers.clear();
			// services first, then hosts, then the user
			for (auto it = l_Objs.rbegin(); it != l_Objs.rend(); ++it)
				if ((*it)->GetReflectionType()->GetName() == "Service") RemoveObject(*it);
			for (auto it = l_Objs.rbegin(); it != l_Objs.rend(); ++it)
				if ((*it)->GetReflectionType()->GetName() != "Service") RemoveObject(*it);
			if (l_User) RemoveObject(l_User);
			l_User = nullptr;
			l_Objs.clear();
			l_Specs.clear();
			l_UserPerms = "-";
			// global constants declared by pm_glob: back to what they were before the case
			for (auto it = l_SavedGlobals.rbegin(); it != l_SavedGlobals.rend(); ++it) {
				if (it->existed) ScriptGlobal::Set(it->name, it->old);
				else ScriptGlobal::GetGlobals()->Remove(it->name);
			}
			l_SavedGlobals.clear();
		});
	}
} l_PmCaseEnd;
}
