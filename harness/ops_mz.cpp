// C13 fixture: real Zone/Endpoint/Host/Service/Notification/Comment objects from config text, a real ApiListener
// instance (no PKI/network), and JsonRpcConnection::MessageHandler invoked on a JsonRpcConnection built over an
// unconnected TLS stream.  Observation: serialised state+config of ALL config objects, listing+hashes of the data
// directory, messages queued for other endpoints, signals and command executions - before and after each message.
#include "vdrive.hpp"
#include "base/utility.hpp"
#include "base/logger.hpp"
#include "base/configtype.hpp"
#include "base/serializer.hpp"
#include "base/json.hpp"
#include "base/tlsutility.hpp"
#include "base/io-engine.hpp"
#include "base/scriptglobal.hpp"
#include "base/function.hpp"
#include "base/application.hpp"
#include "base/configuration.hpp"
#include "config/configitem.hpp"
#include "icinga/host.hpp"
#include "icinga/service.hpp"
#include "icinga/user.hpp"
#include "icinga/notification.hpp"
#include "icinga/comment.hpp"
#include "icinga/downtime.hpp"
#include "icinga/eventcommand.hpp"
#include "icinga/notificationcommand.hpp"
#include "icinga/checkcommand.hpp"
#include "icinga/clusterevents.hpp"
#include "remote/apilistener.hpp"
#include "remote/jsonrpcconnection.hpp"
#include "remote/endpoint.hpp"
#include "remote/zone.hpp"
#include "remote/pkiutility.hpp"
#include "remote/configobjectutility.hpp"
#include <boost/asio/ssl/context.hpp>
#include <fstream>
#include <future>
#include <dirent.h>
#include <unistd.h>
#include <atomic>
#include <thread>
#include <chrono>

using namespace icinga;

namespace {

struct Tree {
	std::string pfx;                       // object name prefix "t<id>_"
	std::vector<std::string> parent;       // "-" root, "g" global, or parent index
	std::map<std::string, JsonRpcConnection::Ptr> conns;   // endpoint name -> persistent (relay target) connection
};

std::map<long, Tree> l_Trees;
ApiListener::Ptr l_Listener;
bool l_Init = false;
std::atomic<long> l_Exec{0};
std::atomic<long> l_ExecC{0}, l_ExecE{0}, l_ExecN{0};   // executions per kind of command (check / event / notification)
std::atomic<long> l_Signals{0};
Shared<boost::asio::ssl::context>::Ptr l_Ssl;
long l_Ctr = 0;
std::string l_PkiCache;

std::string ReadFile(const std::string& p)
{
	std::ifstream f(p, std::ios::binary);
	std::ostringstream o; o << f.rdbuf();
	return o.str();
}

void WriteFile(const std::string& p, const std::string& c)
{
	std::ofstream f(p, std::ios::binary | std::ios::trunc);
	f << c;
}

int ThreadCount()
{
	int n = 0;
	DIR *d = opendir("/proc/self/task");
	if (!d) return -1;
	while (struct dirent *e = readdir(d)) if (e->d_name[0] != '.') n++;
	closedir(d);
	return n;
}

void MakePkiCache()
{
	const char *b = getenv("VERIF_BUILD");
	l_PkiCache = std::string(b ? b : "/tmp") + "/mz_pki";
	if (Utility::PathExists(l_PkiCache + "/done")) return;
	std::string tmp = l_PkiCache + ".tmp." + std::to_string(getpid());
	Utility::MkDirP(tmp, 0700);
	String saved = Configuration::DataDir;
	Configuration::DataDir = tmp;
	PkiUtility::NewCa();
	PkiUtility::NewCert("vdrive-node", tmp + "/node.key", tmp + "/node.csr", tmp + "/node.self.crt");
	PkiUtility::SignCsr(tmp + "/node.csr", tmp + "/node.crt");
	PkiUtility::NewCert("mz-requester", tmp + "/req.key", tmp + "/req.csr", tmp + "/req.crt");
	Configuration::DataDir = saved;
	WriteFile(tmp + "/done", "1");
	if (rename(tmp.c_str(), l_PkiCache.c_str()) != 0)
		Utility::RemoveDirRecursive(tmp);      // somebody else was faster
}

void RestorePki()
{
	std::string d = ScratchDir() + "/data";
	Utility::MkDirP(d + "/certs", 0700);
	Utility::MkDirP(d + "/ca", 0700);
	WriteFile(d + "/ca/ca.crt", ReadFile(l_PkiCache + "/ca/ca.crt"));
	WriteFile(d + "/ca/ca.key", ReadFile(l_PkiCache + "/ca/ca.key"));
	WriteFile(d + "/certs/ca.crt", ReadFile(l_PkiCache + "/ca/ca.crt"));
	WriteFile(d + "/certs/vdrive-node.crt", ReadFile(l_PkiCache + "/node.crt"));
	WriteFile(d + "/certs/vdrive-node.key", ReadFile(l_PkiCache + "/node.key"));
	WriteFile(d + "/certs/ticket", "t");
}

void InitOnce()
{
	if (l_Init) return;
	l_Init = true;
	if (getenv("MZ_DEBUG")) { Logger::EnableConsoleLog(); Logger::SetConsoleLogSeverity(LogWarning); }
	Function::Ptr probe = new Function("MzProbe", [](const std::vector<Value>&) -> Value { l_Exec++; l_ExecC++; return Empty; },
		{ "checkable", "cr", "resolvedMacros", "useResolvedMacros" });
	ScriptGlobal::Set("MzProbe", probe);
	// native event / notification commands: they only count that they ran (never throw, never answer)
	Function::Ptr evprobe = new Function("MzEvProbe", [](const std::vector<Value>&) -> Value { l_Exec++; l_ExecE++; return Empty; },
		{ "checkable", "resolvedMacros", "useResolvedMacros" });
	ScriptGlobal::Set("MzEvProbe", evprobe);
	Function::Ptr noprobe = new Function("MzNoProbe", [](const std::vector<Value>&) -> Value { l_Exec++; l_ExecN++; return Empty; },
		{ "notification", "user", "cr", "itype", "author", "comment", "resolvedMacros", "useResolvedMacros" });
	ScriptGlobal::Set("MzNoProbe", noprobe);
	LoadConfig("object CheckCommand \"mzdummy\" { command = [ \"/bin/true\" ] }\n"
		"object CheckCommand \"mzprobe\" { execute = MzProbe }\n"
		"object NotificationCommand \"mznotify\" { command = [ \"/bin/true\" ] }\n"
		"object EventCommand \"mzevprobe\" { execute = MzEvProbe }\n"
		"object NotificationCommand \"mznoprobe\" { execute = MzNoProbe }\n"
		"object User \"mzuser\" { }\n");
	l_Listener = new ApiListener();
	l_Listener->SetName("api", true);
	ApiListener::m_Instance = l_Listener;
	static_cast<ConfigObject *>(l_Listener.get())->SetActive(true, true);
	// spawn the relay queue's worker threads now (keeps the thread-count baseline stable)
	l_Listener->m_RelayQueue.Enqueue([]() {}, PriorityNormal, true);
	l_Listener->m_RelayQueue.Join();
	l_Ssl = Shared<boost::asio::ssl::context>::Make(boost::asio::ssl::context::tls);
	(void)IoEngine::Get();
	Checkable::OnNotificationsRequested.connect([](const Checkable::Ptr&, NotificationType, const CheckResult::Ptr&,
		const String&, const String&, const MessageOrigin::Ptr&) { l_Signals++; });
	Checkable::OnNotificationSentToUser.connect([](const Notification::Ptr&, const Checkable::Ptr&, const User::Ptr&,
		const NotificationType&, const CheckResult::Ptr&, const String&, const String&, const String&, const MessageOrigin::Ptr&) { l_Signals++; });
	Checkable::OnNotificationSentToAllUsers.connect([](const Notification::Ptr&, const Checkable::Ptr&, const std::set<User::Ptr>&,
		const NotificationType&, const CheckResult::Ptr&, const String&, const String&, const MessageOrigin::Ptr&) { l_Signals++; });
	MakePkiCache();
}

JsonRpcConnection::Ptr NewConn(const String& identity, bool auth)
{
	auto stream (Shared<AsioTlsStream>::Make(IoEngine::Get().GetIoContext(), *l_Ssl));
	return new JsonRpcConnection(identity, auth, stream, RoleServer);
}

std::string ZName(const Tree& t, const std::string& z) { return t.pfx + "z" + z; }

// zones whose parent is z, in index order
std::vector<int> Children(const Tree& t, int z)
{
	std::vector<int> r;
	for (size_t i = 0; i < t.parent.size(); i++)
		if (t.parent[i] == std::to_string(z)) r.push_back((int)i);
	return r;
}

Tree& GetTree(long id, const std::string& spec, const std::string& xspec = "")
{
	auto it = l_Trees.find(id);
	if (it != l_Trees.end()) return it->second;
	Tree t;
	t.pfx = "t" + std::to_string(id) + "_";
	std::istringstream is(spec);
	std::string tok;
	while (std::getline(is, tok, ',')) t.parent.push_back(tok);
	std::ostringstream c;
	for (size_t i = 0; i < t.parent.size(); i++) {
		std::string z = std::to_string(i), zn = ZName(t, z);
		bool glob = t.parent[i] == "g";
		if (!glob) {
			c << "object Endpoint \"" << t.pfx << "e" << z << "a\" { }\n";
			c << "object Endpoint \"" << t.pfx << "e" << z << "b\" { }\n";
		}
		c << "object Zone \"" << zn << "\" {\n";
		if (glob) c << "  global = true\n";
		else {
			c << "  endpoints = [ \"" << t.pfx << "e" << z << "a\", \"" << t.pfx << "e" << z << "b\" ]\n";
			if (t.parent[i] != "-") c << "  parent = \"" << ZName(t, t.parent[i]) << "\"\n";
		}
		c << "}\n";
	}
	auto objs = [&](const std::string& tag, const std::string& zoneAttr, const std::string& cmdep, bool globalZone = false) {
		std::string h = t.pfx + "h" + tag;
		// checkables cannot live in a global zone: there the host/service carry no zone, notification and comment do
		std::string ckZone = globalZone ? std::string() : zoneAttr;
		c << "object Host \"" << h << "\" {\n  check_command = \"mzdummy\"\n  enable_active_checks = false\n  max_check_attempts = 3\n" << ckZone;
		if (!cmdep.empty()) c << "  command_endpoint = \"" << cmdep << "\"\n";
		c << "}\n";
		c << "object Service \"s\" {\n  host_name = \"" << h << "\"\n  check_command = \"mzdummy\"\n  enable_active_checks = false\n" << ckZone;
		if (!cmdep.empty()) c << "  command_endpoint = \"" << cmdep << "\"\n";
		c << "}\n";
		c << "object Notification \"n\" {\n  host_name = \"" << h << "\"\n  service_name = \"s\"\n  command = \"mznotify\"\n  users = [ \"mzuser\" ]\n" << zoneAttr << "}\n";
		c << "object Comment \"c\" {\n  host_name = \"" << h << "\"\n  author = \"a\"\n  text = \"t\"\n" << zoneAttr << "}\n";
	};
	for (size_t i = 0; i < t.parent.size(); i++) {
		std::string z = std::to_string(i);
		std::string za = "  zone = \"" + ZName(t, z) + "\"\n";
		objs(z, za, "", t.parent[i] == "g");
		auto ch = Children(t, (int)i);
		if (!ch.empty())
			objs("k" + z, za, t.pfx + "e" + std::to_string(ch[0]) + "a");
	}
	objs("nz", "", "");
	// cross groups  x<h>_<s>_<o>: Host in zone h, its Service "s" in zone s, and the objects attached to them - Notification "n"
	// and Downtime "d" on the service, Notification "hn" and Comment "c" on the host - in zone o  (n = no zone attribute).
	// Related objects thus sit in DIFFERENT zones; h and s must not be global (Host/Service validation), o may be.
	{
		std::istringstream xs(xspec);
		std::string g;
		while (std::getline(xs, g, ',')) {
			if (g.empty()) continue;
			std::string hz, sz, oz;
			std::istringstream gs(g);
			std::getline(gs, hz, '_'); std::getline(gs, sz, '_'); std::getline(gs, oz, '_');
			auto zattr = [&](const std::string& z) { return z == "n" ? std::string() : "  zone = \"" + ZName(t, z) + "\"\n"; };
			std::string h = t.pfx + "hx" + g;
			c << "object Host \"" << h << "\" {\n  check_command = \"mzdummy\"\n  enable_active_checks = false\n  max_check_attempts = 3\n" << zattr(hz) << "}\n";
			c << "object Service \"s\" {\n  host_name = \"" << h << "\"\n  check_command = \"mzdummy\"\n  enable_active_checks = false\n" << zattr(sz) << "}\n";
			c << "object Notification \"n\" {\n  host_name = \"" << h << "\"\n  service_name = \"s\"\n  command = \"mznotify\"\n  users = [ \"mzuser\" ]\n" << zattr(oz) << "}\n";
			c << "object Notification \"hn\" {\n  host_name = \"" << h << "\"\n  command = \"mznotify\"\n  users = [ \"mzuser\" ]\n" << zattr(oz) << "}\n";
			c << "object Comment \"c\" {\n  host_name = \"" << h << "\"\n  author = \"a\"\n  text = \"t\"\n" << zattr(oz) << "}\n";
			c << "object Downtime \"d\" {\n  host_name = \"" << h << "\"\n  service_name = \"s\"\n  author = \"a\"\n  comment = \"t\"\n"
			  << "  start_time = 3000000000\n  end_time = 3000003600\n" << zattr(oz) << "}\n";
		}
	}
	// no relaying while there may be no local zone yet
	static_cast<ConfigObject *>(l_Listener.get())->SetActive(false, true);
	try {
		LoadConfig(c.str());
	} catch (...) {
		static_cast<ConfigObject *>(l_Listener.get())->SetActive(true, true);
		throw;
	}
	DrainThreadPool();
	static_cast<ConfigObject *>(l_Listener.get())->SetActive(true, true);
	for (size_t i = 0; i < t.parent.size(); i++) {
		if (t.parent[i] == "g") continue;
		for (const char *ab : { "a", "b" }) {
			String en = t.pfx + "e" + std::to_string(i) + ab;
			Endpoint::Ptr ep = Endpoint::GetByName(en);
			if (!ep) throw std::runtime_error("endpoint missing");
			JsonRpcConnection::Ptr cn = NewConn(en, true);
			ep->m_Clients.insert(cn);
			t.conns[en.GetData()] = cn;
		}
	}
	return l_Trees.emplace(id, t).first->second;
}

void DrainAll()
{
	l_Listener->m_RelayQueue.Join();
	DrainThreadPool();
	l_Listener->m_RelayQueue.Join();
	// one barrier through the I/O engine per connection strand
	for (auto& kv : l_Trees) {
		for (auto& c : kv.second.conns) {
			std::promise<void> p;
			boost::asio::post(c.second->m_IoStrand, [&p]() { p.set_value(); });
			p.get_future().wait();
		}
	}
}

struct Snap {
	std::map<std::string, std::string> objs;   // Type!name -> json
	std::map<std::string, std::string> files;  // relative path -> sha256 (dirs: "dir")
	std::map<std::string, size_t> out;         // endpoint name -> queued messages
	long exec, signals, execC, execE, execN;
	double rlp;
};

void ListDir(const std::string& root, const std::string& rel, std::map<std::string, std::string>& out)
{
	DIR *d = opendir((root + rel).c_str());
	if (!d) return;
	std::vector<std::pair<std::string, bool>> ents;
	while (struct dirent *e = readdir(d)) {
		std::string n = e->d_name;
		if (n == "." || n == "..") continue;
		std::string p = rel + "/" + n;
		bool isdir = e->d_type == DT_DIR;
		ents.push_back({ p, isdir });
	}
	closedir(d);
	for (auto& e : ents) {
		if (e.second) { out[e.first] = "dir"; ListDir(root, e.first, out); }
		else out[e.first] = SHA256(ReadFile(root + e.first)).GetData();
	}
}

// is this object part of a zone forest other than `cur`?  (names of forest objects start with "t<id>_")
bool Foreign(const String& name, const std::string& cur)
{
	const std::string& n = name.GetData();
	if (n.compare(0, cur.size(), cur) == 0) return false;
	if (n.size() < 3 || n[0] != 't' || !isdigit((unsigned char)n[1])) return false;
	size_t i = 1;
	while (i < n.size() && isdigit((unsigned char)n[i])) i++;
	return i < n.size() && n[i] == '_';
}

// serialised objects of all OTHER forests: checked once per case (no message for one forest may touch another)
std::string ForeignHash(const std::string& cur)
{
	std::string acc;
	for (const Type::Ptr& type : Type::GetAllTypes()) {
		auto *ct = dynamic_cast<ConfigType *>(type.get());
		if (!ct) continue;
		for (const ConfigObject::Ptr& o : ct->GetObjects()) {
			if (!Foreign(o->GetName(), cur)) continue;
			acc += (type->GetName() + "!" + o->GetName() + "=").GetData();
			acc += JsonEncode(Serialize(o, FAState | FAConfig)).GetData();
		}
	}
	return SHA256(acc).GetData();
}

std::string l_ForeignBefore, l_ForeignPfx;

Snap TakeSnap(const Endpoint::Ptr& sender, const std::string& cur)
{
	Snap s;
	for (const Type::Ptr& type : Type::GetAllTypes()) {
		auto *ct = dynamic_cast<ConfigType *>(type.get());
		if (!ct) continue;
		bool eph = type->GetName() == "Comment" || type->GetName() == "Downtime";
		for (const ConfigObject::Ptr& o : ct->GetObjects()) {
			if (Foreign(o->GetName(), cur)) continue;
			// state + config attributes; comments/downtimes additionally with their ephemeral ones (removal info)
			Dictionary::Ptr d = Serialize(o, FAState | FAConfig | (eph ? FAEphemeral : 0));
			if (o == sender) d->Remove("remote_log_position");
			d->Set("__active", o->IsActive());
			s.objs[(type->GetName() + "!" + o->GetName()).GetData()] = JsonEncode(d).GetData();
		}
	}
	auto TA = std::chrono::steady_clock::now();
	ListDir(ScratchDir() + "/data", "", s.files);
	if (getenv("MZ_TIME")) std::cerr << "x files=" << std::chrono::duration_cast<std::chrono::microseconds>(std::chrono::steady_clock::now() - TA).count() << " nfiles=" << s.files.size() << " nobjs=" << s.objs.size() << "\n";
	for (auto& kv : l_Trees)
		for (auto& c : kv.second.conns)
			s.out[c.first] = c.second->m_OutgoingMessagesQueue.size();
	s.exec = l_Exec; s.execC = l_ExecC; s.execE = l_ExecE; s.execN = l_ExecN;
	s.signals = l_Signals;
	s.rlp = sender ? sender->GetRemoteLogPosition() : 0;
	return s;
}

Host::Ptr HostOf(const Tree& t, const std::string& obj) { return Host::GetByName(t.pfx + "h" + obj); }

} // namespace

// mz_tree id=N z=-,0,1,g ...   declare (and on first use build) a zone forest
VOP(mz_tree)
{
	InitOnce();
	GetTree(a.num("id"), a.str("z"), a.str("x", ""));
}

// a zone-less Endpoint must be rejected at config load (hypothesis mz_zoned of the theorems)
VOP(mz_zoneless)
{
	InitOnce();
	bool rejected = false;
	try {
		LoadConfig("object Endpoint \"mz_zl_" + std::to_string(CaseId()) + "_" + std::to_string(++l_Ctr) + "\" { }\n");
	} catch (const std::exception&) {
		rejected = true;
	}
	// ... and so must one created at run time (the path of PUT /v1/objects/endpoints and of config::UpdateObject)
	String rn = "mz_zlr_" + std::to_string(CaseId()) + "_" + std::to_string(++l_Ctr);
	bool created = false;
	try {
		Array::Ptr errors = new Array();
		created = ConfigObjectUtility::CreateObject(Endpoint::TypeInstance, rn, "object Endpoint \"" + rn + "\" { }\n", errors, nullptr);
	} catch (const std::exception&) {
		created = false;
	}
	if (created || Endpoint::GetByName(rn)) rejected = false;
	Out(std::string("zoneless rejected=") + (rejected ? "1" : "0"));
}

// mz_msg t=<tree> recv=<zone> snd=<zone><a|b> auth=0|1 ident=ep|unk claim=-|<zone>|x m=<method> obj=<zone>|nz|k<zone>
//        ts=none|old|new|eq ac=0|1 ak=0|1 [xz=<zone>] [var=...] [rep=a|b  receiver endpoint]
//        event::ExecuteCommand forwarding family: xt=-|unk|<zone><a|b> (params.endpoint) xcap=0|1 xh=0|1 (params.host exists)
VOP(mz_msg)
{
	InitOnce();
	auto ti = l_Trees.find(a.num("t"));
	if (ti == l_Trees.end()) throw std::runtime_error("mz_msg: unknown tree");
	Tree& t = ti->second;
	long n = ++l_Ctr;
	double now = Utility::GetTime();
	std::string method = a.str("m");
	std::string obj = a.str("obj", "nz");
	std::string var = a.str("var", "");
	bool xmode = method == "event::ExecuteCommand" && !a.str("xt", "").empty();
	String createdName;

	// ---- receiver
	Endpoint::Ptr localEp = Endpoint::GetByName(t.pfx + "e" + a.str("recv") + a.str("rep", "a"));
	if (!localEp) throw std::runtime_error("mz_msg: receiver endpoint missing");
	l_Listener->m_LocalEndpoint = localEp;
	l_Listener->SetAcceptConfig(a.num("ac") != 0, true);
	l_Listener->SetAcceptCommands(a.num("ak") != 0, true);

	// ---- sender connection (exactly what ApiListener::NewClientHandlerInternal hands to the ctor: identity + verify_ok)
	String sndName = t.pfx + "e" + a.str("snd");
	bool auth = a.num("auth") != 0;
	String identity = a.str("ident", "ep") == "ep" ? sndName : String("mz-unconfigured");
	JsonRpcConnection::Ptr conn = NewConn(identity, auth);
	Endpoint::Ptr sndEp = conn->GetEndpoint();

	// ---- object addressed and well-formed parameters; preparation makes sure an accepted message has a visible effect
	Host::Ptr host = HostOf(t, obj);
	if (!host) throw std::runtime_error("mz_msg: no such object " + obj);
	Service::Ptr svc = host->GetServiceByShortName("s");
	// nt=n|hn: the service's / the host's notification; ro=c|d: comment (on the host) / downtime (on the service);
	// ck=h|s: which checkable the message names (default: alternating)
	std::string nt = a.str("nt", "n"), ro = a.str("ro", "c"), cks = a.str("ck", "");
	Notification::Ptr notif = Notification::GetByName(host->GetName() + (nt == "hn" ? "!hn" : "!s!n"));
	Comment::Ptr comment = Comment::GetByName(host->GetName() + "!c");
	Downtime::Ptr downtime = ro == "d" ? Downtime::GetByName(host->GetName() + "!s!d") : Downtime::Ptr();
	if (!svc || !notif || !comment || (ro == "d" && !downtime)) throw std::runtime_error("mz_msg: fixture object missing");
	bool useSvc = cks.empty() ? (n % 2) == 0 : cks == "s";
	bool qmode = method == "event::ExecuteCommand" && !a.str("ct", "").empty();
	Checkable::Ptr ck = useSvc ? Checkable::Ptr(svc) : Checkable::Ptr(host);
	Dictionary::Ptr p = new Dictionary();
	auto addCk = [&]() { p->Set("host", host->GetName()); if (useSvc) p->Set("service", "s"); };
	auto mkCr = [&](int state) {
		return new Dictionary({ { "state", state }, { "output", String("mz " + std::to_string(n)) }, { "schedule_start", now }, { "schedule_end", now },
			{ "execution_start", now }, { "execution_end", now }, { "performance_data", new Array() }, { "type", "CheckResult" } });
	};
	bool pki = false;
	if (method == "event::CheckResult") {
		addCk(); p->Set("cr", mkCr((int)(n % 3) + 1));
	} else if (method == "event::SetNextCheck") {
		addCk(); p->Set("next_check", now + 100 + n);
	} else if (method == "event::SetLastCheckStarted") {
		addCk(); p->Set("last_check_started", now + n);
	} else if (method == "event::SetStateBeforeSuppression") {
		addCk(); p->Set("state_before_suppression", ((int)ck->GetStateBeforeSuppression() + 1) % 4);
	} else if (method == "event::SetSuppressedNotifications") {
		addCk(); p->Set("suppressed_notifications", (ck->GetSuppressedNotifications() + 1) % 64);
	} else if (method == "event::SetSuppressedNotificationTypes") {
		p->Set("notification", notif->GetName()); p->Set("suppressed_notifications", (notif->GetSuppressedNotifications() + 1) % 64);
	} else if (method == "event::SetNextNotification") {
		p->Set("notification", notif->GetName()); p->Set("next_notification", now + 1000 + n);
	} else if (method == "event::UpdateLastNotifiedStatePerUser") {
		p->Set("notification", notif->GetName()); p->Set("user", "mzuser");
		p->Set("state", ((int)notif->GetLastNotifiedStatePerUser()->Get("mzuser") + 1) % 7);
	} else if (method == "event::ClearLastNotifiedStatePerUser") {
		notif->GetLastNotifiedStatePerUser()->Set("mzuser", 2);
		p->Set("notification", notif->GetName());
	} else if (method == "event::SetForceNextCheck") {
		addCk(); p->Set("forced", !ck->GetForceNextCheck());
	} else if (method == "event::SetForceNextNotification") {
		addCk(); p->Set("forced", !ck->GetForceNextNotification());
	} else if (method == "event::SetAcknowledgement") {
		if (ck->IsAcknowledged()) ck->ClearAcknowledgement("prep", now);
		addCk(); p->Set("author", "mz"); p->Set("comment", String("c" + std::to_string(n))); p->Set("acktype", 1); p->Set("notify", false);
		p->Set("persistent", false); p->Set("expiry", 0); p->Set("change_time", now);
	} else if (method == "event::ClearAcknowledgement") {
		if (!ck->IsAcknowledged()) ck->AcknowledgeProblem("prep", "prep", AcknowledgementNormal, false, false, now, 0);
		addCk(); p->Set("author", "mz"); p->Set("change_time", now);
	} else if (method == "event::ExecuteCommand") {
		p->Set("host", String("mzvirtual" + std::to_string(n))); p->Set("command_type", "check_command"); p->Set("command", "mzprobe");
		p->Set("macros", new Dictionary());
		if (var == "localep") p->Set("endpoint", localEp->GetName());
		if (qmode) {
			// command-execution family: every kind of command, with / without "source" (execute-command API action),
			// deadline passed or not, command present or not, params.host naming a checkable the receiver has or not
			std::string ct = a.str("ct");
			bool cx = a.num("cx", 1) != 0;
			if (ct == "check") { p->Set("command_type", "check_command"); p->Set("command", cx ? "mzprobe" : "mz-no-such-command"); }
			else if (ct == "event") { p->Set("command_type", "event_command"); p->Set("command", cx ? "mzevprobe" : "mz-no-such-command"); }
			else if (ct == "notif") { p->Set("command_type", "notification_command"); p->Set("command", cx ? "mznoprobe" : "mz-no-such-command"); }
			else { p->Set("command_type", "mz_other_command"); p->Set("command", cx ? "mzprobe" : "mz-no-such-command"); }
			p->Set("macros", new Dictionary({ { "notification_author", "mz" } }));
			p->Set("user", "mzuser"); p->Set("notification", String("mzvirtualn" + std::to_string(n)));
			if (a.num("src", 0) != 0) {
				p->Set("source", String("mzsrc" + std::to_string(n)));
				p->Set("deadline", a.num("dl", 0) != 0 ? now - 10 : now + 60);
			}
			if (a.num("hl", 0) != 0) { p->Set("host", host->GetName()); if (useSvc) p->Set("service", "s"); }
		}
		if (xmode) {
			// forwarding family: "endpoint" names another endpoint (or nothing / an unknown name); the checkable exists or not;
			// every endpoint of the forest announces (or not) the ExecuteArbitraryCommand capability
			std::string xt = a.str("xt");
			if (xt == "unk") p->Set("endpoint", "mz-no-such-endpoint");
			else if (xt != "-") p->Set("endpoint", String(t.pfx + "e" + xt));
			if (a.num("xh", 0) != 0) { p->Set("host", host->GetName()); if (useSvc) p->Set("service", "s"); }
			for (auto& kv : t.conns) {
				Endpoint::Ptr e = Endpoint::GetByName(kv.first);
				if (e) e->SetCapabilities(a.num("xcap", 1) != 0 ? (uint_fast64_t)ApiCapabilities::ExecuteArbitraryCommand : 0);
			}
		}
	} else if (method == "event::SendNotifications") {
		addCk(); p->Set("cr", mkCr(2)); p->Set("type", 32); p->Set("author", "mz"); p->Set("text", "x");
	} else if (method == "event::NotificationSentUser") {
		addCk(); p->Set("cr", mkCr(2)); p->Set("type", 32); p->Set("author", "mz"); p->Set("text", "x");
		p->Set("notification", notif->GetName()); p->Set("user", "mzuser"); p->Set("command", "mznotify");
	} else if (method == "event::NotificationSentToAllUsers") {
		addCk(); p->Set("cr", mkCr(2)); p->Set("type", 32); p->Set("author", "mz"); p->Set("text", "x");
		p->Set("notification", notif->GetName()); p->Set("users", new Array({ "mzuser" }));
		p->Set("last_notification", now + n); p->Set("next_notification", now + 2000 + n); p->Set("notification_number", n);
		p->Set("last_problem_notification", now + n); p->Set("no_more_notifications", (n % 2) == 0);
	} else if (method == "event::ExecutedCommand") {
		String uuid = "mzx";
		Dictionary::Ptr ex = ck->GetExecutions();
		if (!ex) ex = new Dictionary();
		ex->Set(uuid, new Dictionary({ { "endpoint", String(t.pfx + "e" + a.str("xz", a.str("recv")) + "a") }, { "pending", true } }));
		ck->SetExecutions(ex, true);
		addCk(); p->Set("execution", uuid); p->Set("exit", (double)(n % 4)); p->Set("output", String("o" + std::to_string(n)));
		p->Set("start", now); p->Set("end", now + n);
	} else if (method == "event::UpdateExecutions") {
		addCk(); p->Set("executions", new Dictionary({ { String("u" + std::to_string(n)), new Dictionary({ { "pending", true }, { "deadline", now + 60 } }) } }));
	} else if (method == "event::SetRemovalInfo") {
		if (ro == "x") { p->Set("object_type", "Host"); p->Set("object_name", host->GetName()); }   // a type the handler does not know
		else if (downtime) { p->Set("object_type", "Downtime"); p->Set("object_name", downtime->GetName()); }
		else { p->Set("object_type", "Comment"); p->Set("object_name", comment->GetName()); }
		p->Set("removed_by", String("mz" + std::to_string(n)));
		p->Set("remove_time", now + n);
	} else if (method == "event::Heartbeat") {
		p->Set("timeout", 120);
	} else if (method == "config::Update") {
		Utility::RemoveDirRecursive(ApiListener::GetApiZonesStageDir());
		p->Set("update", new Dictionary({ { "mz-no-such-zone", new Dictionary({ { "/_etc/x.conf", "// x" } }) } }));
		p->Set("update_v2", new Dictionary());
	} else if (method == "config::UpdateObject") {
		p->Set("type", "Host"); p->Set("zone", host->GetZoneName());
		// zp=: the zone the MESSAGE names (e = none, x = a name that is no Zone object, <zone> = that zone of the forest)
		std::string zp = a.str("zp", "");
		if (zp == "e") p->Remove("zone");
		else if (zp == "x") p->Set("zone", "mz-no-such-zone");
		else if (!zp.empty()) p->Set("zone", String(ZName(t, zp)));
		if (var == "new") {
			String nm = t.pfx + "rt" + std::to_string(n);
			createdName = nm;
			p->Set("name", nm);
			// cz=: the zone the CONFIG TEXT gives the new object (- = none)
			std::string cz = a.str("cz", "-");
			p->Set("config", "object Host \"" + nm + "\" {\n  check_command = \"mzdummy\"\n  enable_active_checks = false\n"
				+ (cz == "-" ? std::string() : "  zone = \"" + ZName(t, cz) + "\"\n") + "}\n");
			p->Set("version", now + n);
		} else {
			p->Set("name", host->GetName()); p->Set("config", "");
			p->Set("version", std::max(now, host->GetVersion()) + n);
			p->Set("modified_attributes", new Dictionary({ { "vars.mz", n } }));
			p->Set("original_attributes", new Array());
		}
	} else if (method == "config::DeleteObject") {
		String nm = t.pfx + "del" + std::to_string(n);
		Array::Ptr errors = new Array();
		// var=zoned: the runtime object to be deleted lives in the zone of obj= (the message itself carries no zone)
		std::string dz = (var == "zoned" && !host->GetZoneName().IsEmpty()) ? "  zone = \"" + host->GetZoneName().GetData() + "\"\n" : "";
		if (!ConfigObjectUtility::CreateObject(Host::TypeInstance, nm,
			"object Host \"" + nm + "\" {\n  check_command = \"mzdummy\"\n  enable_active_checks = false\n" + dz + "}\n", errors, nullptr))
			throw std::runtime_error("mz_msg: cannot create runtime object for DeleteObject");
		p->Set("type", "Host"); p->Set("name", nm);
	} else if (method == "log::SetLogPosition") {
		p->Set("log_position", (sndEp ? std::max(now, sndEp->GetLocalLogPosition()) : now) + n);
	} else if (method == "icinga::Hello") {
		p->Set("version", 21300 + (n % 90)); p->Set("capabilities", (double)((sndEp ? sndEp->GetCapabilities() : 0) % 2 + 1));   // always differs from the current value
	} else if (method == "pki::RequestCertificate") {
		pki = true;
		RestorePki();
		Utility::RemoveDirRecursive(ApiListener::GetCertificateRequestsDir());
		p->Set("cert_request", String(ReadFile(l_PkiCache + "/req.crt")));
	} else if (method == "pki::UpdateCertificate") {
		pki = true;
		RestorePki();
		if (var == "other") {
			// certificate of somebody else: stored into a pending request of that fingerprint
			std::shared_ptr<X509> rc = GetX509Certificate(l_PkiCache + "/req.crt");
			unsigned int dn; unsigned char dg[EVP_MAX_MD_SIZE];
			X509_digest(rc.get(), EVP_sha256(), dg, &dn);
			std::string fp; char b[3];
			for (unsigned i = 0; i < dn; i++) { snprintf(b, 3, "%02x", dg[i]); fp += b; }
			Utility::MkDirP(ApiListener::GetCertificateRequestsDir(), 0700);
			Utility::SaveJsonFile(ApiListener::GetCertificateRequestsDir() + "/" + fp + ".json", 0600,
				new Dictionary({ { "cert_request", String(ReadFile(l_PkiCache + "/req.crt")) }, { "ticket", "" } }));
			p->Set("cert", String(ReadFile(l_PkiCache + "/req.crt") + "\n# " + std::to_string(n) + "\n")); p->Set("fingerprint_request", String(fp));
			p->Set("ca", String(ReadFile(l_PkiCache + "/ca/ca.crt")));
		} else {
			p->Set("cert", String(ReadFile(l_PkiCache + "/node.crt")));
			p->Set("ca", String("MZ BOGUS CA " + std::to_string(n) + "\n"));
		}
	} else {
		p->Set("host", host->GetName());
	}
	(void)pki;
	if (obj[0] == 'x') {
		// cross groups: bring the RELATED checkable (the host of the service named / the service of the host named) into the same
		// prepared state as the one the message names, so that a handler that also wrote to it would visibly change it
		Checkable::Ptr other = useSvc ? Checkable::Ptr(host) : Checkable::Ptr(svc);
		if (other->GetForceNextCheck() != ck->GetForceNextCheck()) other->SetForceNextCheck(ck->GetForceNextCheck());
		if (other->GetForceNextNotification() != ck->GetForceNextNotification()) other->SetForceNextNotification(ck->GetForceNextNotification());
		if (method == "event::SetAcknowledgement" && other->IsAcknowledged()) other->ClearAcknowledgement("prep", now);
		if (method == "event::ClearAcknowledgement" && !other->IsAcknowledged()) other->AcknowledgeProblem("prep", "prep", AcknowledgementNormal, false, false, now, 0);
	}

	Dictionary::Ptr msg = new Dictionary({ { "jsonrpc", "2.0" }, { "method", String(method) }, { "params", p } });
	std::string claim = a.str("claim", "-");
	if (claim == "x") msg->Set("originZone", "mz-no-such-zone");
	else if (claim != "-") msg->Set("originZone", String(ZName(t, claim)));
	std::string ts = a.str("ts", "none");
	double pos = sndEp ? sndEp->GetRemoteLogPosition() : 0;
	if (ts == "old") msg->Set("ts", pos - 5);
	else if (ts == "new") msg->Set("ts", std::max(pos, now) + 1);
	else if (ts == "eq") {
		// a second, DISTINCT event relayed by the sender within the same clock tick as the last message it got through:
		// ts equals the sender's remote log position (primed here, before the "before" snapshot, so the position does not change)
		if (sndEp) sndEp->SetRemoteLogPosition(now);
		msg->Set("ts", now);
	}

	auto T0 = std::chrono::steady_clock::now();
	DrainAll();
	auto T1 = std::chrono::steady_clock::now();
	if (l_ForeignPfx != t.pfx) { l_ForeignPfx = t.pfx; l_ForeignBefore = ForeignHash(t.pfx); }
	Snap before = TakeSnap(sndEp, t.pfx);
	int base = ThreadCount();
	auto T2 = std::chrono::steady_clock::now();

	// ---- the call under test
	conn->MessageHandler(msg);

	// ---- wait for everything the handler started (detached threads, remote check queue, relay queue, strands)
	bool hang = false;
	for (int i = 0; ; i++) {
		bool busy;
		{
			std::unique_lock<std::mutex> lock(ClusterEvents::m_Mutex);
			busy = ClusterEvents::m_CheckSchedulerRunning || !ClusterEvents::m_CheckRequestQueue.empty();
		}
		if (!busy && ThreadCount() <= base) break;
		if (i > 40000) { hang = true; break; }
		std::this_thread::sleep_for(std::chrono::microseconds(250));
	}
	auto T3 = std::chrono::steady_clock::now();
	{ std::lock_guard<std::mutex> lock(l_Listener->m_ConfigSyncStageLock); }
	DrainAll();
	auto T4 = std::chrono::steady_clock::now();
	Snap after = TakeSnap(sndEp, t.pfx);

	auto T5 = std::chrono::steady_clock::now();
	if (getenv("MZ_TIME")) { auto us = [](auto a, auto b) { return (long)std::chrono::duration_cast<std::chrono::microseconds>(b - a).count(); };
		std::cerr << method << " drain1=" << us(T0, T1) << " snap1=" << us(T1, T2) << " handle+wait=" << us(T2, T3) << " drain2=" << us(T3, T4) << " snap2=" << us(T4, T5) << "\n"; }
	// ---- compare
	std::vector<std::string> what;
	for (auto& kv : after.objs) {
		auto it = before.objs.find(kv.first);
		if (it == before.objs.end()) what.push_back("+" + kv.first);
		else if (it->second != kv.second) what.push_back("~" + kv.first);
	}
	for (auto& kv : before.objs) if (!after.objs.count(kv.first)) what.push_back("-" + kv.first);
	for (auto& kv : after.files) {
		auto it = before.files.find(kv.first);
		if (it == before.files.end()) what.push_back("+file:" + kv.first);
		else if (it->second != kv.second) what.push_back("~file:" + kv.first);
	}
	for (auto& kv : before.files) if (!after.files.count(kv.first)) what.push_back("-file:" + kv.first);
	size_t relayed = 0, replies = conn->m_OutgoingMessagesQueue.size();
	for (auto& kv : after.out) {
		size_t d = kv.second - before.out[kv.first];
		if (sndEp && kv.first == sndEp->GetName().GetData()) replies += d; else relayed += d;
	}
	// forwarding family: which zones got an event::ExecuteCommand / event::ExecutedCommand (any endpoint, the sender's included)
	std::set<long> xc, xd;
	if (xmode) {
		for (auto& c : t.conns) {
			size_t from = before.out[c.first];
			const auto& q = c.second->m_OutgoingMessagesQueue;
			for (size_t i = from; i < q.size(); i++) {
				Dictionary::Ptr qm = JsonDecode(q[i]);
				String qmeth = qm->Get("method");
				// endpoint name = <pfx>e<zone><a|b>
				std::string zn = c.first.substr(t.pfx.size() + 1);
				long z = atol(zn.substr(0, zn.size() - 1).c_str());
				if (qmeth == "event::ExecuteCommand") xc.insert(z);
				else if (qmeth == "event::ExecutedCommand") xd.insert(z);
			}
		}
	}
	if (relayed) what.push_back("relay:" + std::to_string(relayed));
	if (after.exec != before.exec) what.push_back("exec:" + std::to_string(after.exec - before.exec));
	if (after.signals != before.signals) what.push_back("signal:" + std::to_string(after.signals - before.signals));
	bool rlp = after.rlp != before.rlp;
	std::ostringstream o;
	o << "msg rlp=" << (rlp ? 1 : 0) << " app=" << ((what.empty() && xc.empty() && xd.empty()) ? 0 : 1);
	if (xmode) {
		auto lst = [](const std::set<long>& zs) { std::string r; for (long z : zs) { if (!r.empty()) r += ","; r += std::to_string(z); } return r.empty() ? std::string("-") : r; };
		o << " xc=" << lst(xc) << " xd=" << lst(xd);
	}
	if (a.num("chz", 0) != 0) {
		// WHICH objects changed: zone attributes of the checkables / notifications / comments / downtimes of this forest whose
		// serialised state differs (n = no zone attribute, . = none changed)
		std::set<std::string> zs;
		for (auto& kv : after.objs) {
			auto it = before.objs.find(kv.first);
			if (it == before.objs.end() || it->second == kv.second) continue;
			size_t bang = kv.first.find('!');
			std::string ty = kv.first.substr(0, bang), nm = kv.first.substr(bang + 1);
			if (ty != "Host" && ty != "Service" && ty != "Notification" && ty != "Comment" && ty != "Downtime") continue;
			if (nm.compare(0, t.pfx.size(), t.pfx) != 0) continue;
			ConfigObject::Ptr co = ConfigObject::GetObject(ty, nm);
			if (!co) continue;
			std::string zn = co->GetZoneName().GetData();
			if (zn.empty()) zs.insert("n");
			else if (zn.compare(0, t.pfx.size() + 1, t.pfx + "z") == 0) zs.insert(zn.substr(t.pfx.size() + 1));
			else zs.insert("?");
		}
		std::string r;
		for (auto& z : zs) { if (!r.empty()) r += ","; r += z; }
		o << " chz=" << (r.empty() ? "." : r);
	}
	if (qmode) {
		// which kinds of command ran, and what was queued for the SENDING endpoint (its persistent connection):
		// 0 nothing, 1 an UNKNOWN check result, 1000+exit an event::ExecutedCommand, 9999 anything else / more than one
		std::string ex;
		if (after.execC != before.execC) ex += "c";
		if (after.execE != before.execE) ex += "e";
		if (after.execN != before.execN) ex += "n";
		if (after.exec - before.exec > 1) ex += "+";
		long rp = 0;
		if (sndEp) {
			auto ci = t.conns.find(sndEp->GetName().GetData());
			if (ci != t.conns.end()) {
				const auto& q = ci->second->m_OutgoingMessagesQueue;
				size_t from = before.out[ci->first];
				for (size_t i = from; i < q.size(); i++) {
					Dictionary::Ptr qm = JsonDecode(q[i]);
					String qmeth = qm->Get("method");
					Dictionary::Ptr qp = qm->Get("params");
					long code = 9999;
					if (qmeth == "event::ExecutedCommand" && qp && qp->Contains("exit")) code = 1000 + (long)(double)qp->Get("exit");
					else if (qmeth == "event::CheckResult" && qp) {
						Dictionary::Ptr qcr = qp->Get("cr");
						if (qcr && (int)(double)qcr->Get("state") == 3) code = 1;
					}
					rp = (rp == 0) ? code : 9999;
				}
			}
		}
		o << " ex=" << (ex.empty() ? "-" : ex) << " rp=" << rp;
	}
	if (!a.str("cz", "").empty()) {
		// zone attribute of the object config::UpdateObject was to create (- = no such object now / no zone)
		std::string z = "-";
		Host::Ptr created = createdName.IsEmpty() ? Host::Ptr() : Host::GetByName(createdName);
		if (created && !created->GetZoneName().IsEmpty()) {
			std::string zn = created->GetZoneName().GetData();
			z = zn.compare(0, t.pfx.size() + 1, t.pfx + "z") == 0 ? zn.substr(t.pfx.size() + 1) : "?";
		}
		o << " cz=" << z;
	}
	if (hang) o << " HANG";
	o << " # replies=" << replies;
	for (size_t i = 0; i < what.size() && i < 4; i++) o << " " << what[i];
	Out(o.str());
}

// end of case: objects of the forests the case did not address must be untouched
static struct MzCaseEnd { MzCaseEnd() { RegisterCaseEnd([]() {
	if (l_ForeignPfx.empty()) return;
	if (ForeignHash(l_ForeignPfx) != l_ForeignBefore) Out("foreign changed=1");
	l_ForeignPfx.clear();
}); } } l_MzCaseEnd;
