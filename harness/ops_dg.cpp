// C07 fixture: real Host/Service/Dependency/TimePeriod objects from config text, states forced through
// the real ProcessCheckResult, runtime add/remove of Dependency objects through ConfigObjectUtility,
// observations only through public getters (IsReachable, DependencyGroup::GetState, GetDependencyGroups,
// GetDependenciesForChild, GetDependenciesCount, GetRegistrySize).
#include <string>
#include <vector>
#include <map>
#include <set>
#include <sstream>
#include <algorithm>
#include <unistd.h>
#include "vdrive.hpp"
#include "base/utility.hpp"
#include "base/configtype.hpp"
#include "base/function.hpp"
#include "base/scriptglobal.hpp"
#include "base/array.hpp"
#include "base/dictionary.hpp"
#include "config/configitem.hpp"
#include "config/applyrule.hpp"
#include "icinga/host.hpp"
#include "icinga/service.hpp"
#include "icinga/dependency.hpp"
#include "icinga/timeperiod.hpp"
#include "remote/apilistener.hpp"
#include "remote/configobjectutility.hpp"

using namespace icinga;

namespace {

struct PendingDep { long id, c, p; std::string rg, per; long sf, iss, dc, dn; bool apply; };
struct PendingSvc { long first, second; bool apply; };   // (service id, host id), created by an apply rule?

bool g_Init = false;
std::map<long, Checkable::Ptr> g_Node;          // node id -> object
std::map<long, long> g_HostOf;                  // service id -> host id
std::map<long, Dependency::Ptr> g_Dep;          // dep id -> object
std::map<long, TimePeriod::Ptr> g_Tp;
std::map<std::string, bool> g_TpOpen;           // by object name: what the update function yields
// queued, not yet committed
std::vector<long> q_Hosts;
std::vector<PendingSvc> q_Svcs;
std::vector<std::pair<long, long>> q_Tps;      // (id, open)
std::vector<PendingDep> q_Deps;

std::string Pfx() { return "k" + std::to_string(CaseId()) + "_"; }
std::string HostName(long id) { return Pfx() + "n" + std::to_string(id); }
std::string SvcShort(long id) { return "s" + std::to_string(id); }
std::string TpName(long id) { return Pfx() + "p" + std::to_string(id); }

// Watchdog: no single operation of this fixture legitimately takes more than a fraction of a second.  If the
// implementation ever accepts a dependency cycle, IsReachable() recurses exponentially (to depth 256) and would
// hang for minutes; SIGALRM then ends the process and the runner records CRASH for the case and goes on.
void Guard() { alarm(20); }

void InitOnce()
{
	Guard();
	if (g_Init) return;
	g_Init = true;
	// the TimePeriod "update" function: the whole requested region is one segment when the period is open
	Function::Ptr upd = new Function("vdg_update", [](const std::vector<Value>& args) -> Value {
		TimePeriod::Ptr tp = args.at(0);
		double b = args.at(1), e = args.at(2);
		Array::Ptr segs = new Array();
		auto it = g_TpOpen.find(tp->GetName().GetData());
		if (it != g_TpOpen.end() && it->second)
			segs->Add(new Dictionary({{"begin", b}, {"end", e}}));
		return segs;
	}, {"tp", "begin", "end"});
	ScriptGlobal::Set("vdg_update", upd);
	LoadConfig("object CheckCommand \"vdgdummy\" { command = [ \"/bin/true\" ] }\n");
}

// node id -> (host name, service short name or "")
std::pair<std::string, std::string> NamesOf(long id, const std::map<long, long>& hostOf)
{
	auto it = hostOf.find(id);
	if (it == hostOf.end()) return {HostName(id), ""};
	return {HostName(it->second), SvcShort(id)};
}

// Text of redundancy group <rg>: "rg<N>" for N < 100; for N >= 100 the group is named EXACTLY like the checkable
// with node id N - 100 (host: its object name, service: "host!service") - the text of a group and the name of a
// parent object are unrelated name spaces and may coincide.
const long kNamedLikeNode = 100;

std::string GroupText(long rg, const std::map<long, long>& hostOf)
{
	if (rg < kNamedLikeNode) return "rg" + std::to_string(rg);
	auto n = NamesOf(rg - kNamedLikeNode, hostOf);
	return n.second.empty() ? n.first : n.first + "!" + n.second;
}

// inverse of GroupText (for printing): group text -> group id
long GroupIdOfText(const std::string& t)
{
	if (t.compare(0, 2, "rg") == 0 && t.size() > 2 && t.find_first_not_of("0123456789", 2) == std::string::npos)
		return std::stol(t.substr(2));
	size_t bang = t.find("!s");
	if (bang != std::string::npos) return kNamedLikeNode + std::stol(t.substr(bang + 2));
	size_t n = t.rfind("_n");
	if (n != std::string::npos) return kNamedLikeNode + std::stol(t.substr(n + 2));
	return -1;
}

std::string StatesExpr(long sf)
{
	static const std::pair<long, const char *> names[] = {{1, "OK"}, {2, "Warning"}, {4, "Critical"}, {8, "Unknown"}, {16, "Up"}, {32, "Down"}};
	std::string r = "[ ";
	bool first = true;
	for (auto& n : names) if (sf & n.first) { if (!first) r += ", "; r += n.second; first = false; }
	return r + " ]";
}

std::string DepConfig(const PendingDep& d, const std::map<long, long>& hostOf, std::string& fullName)
{
	auto cn = NamesOf(d.c, hostOf), pn = NamesOf(d.p, hostOf);
	std::ostringstream o;
	std::string shortName = "d" + std::to_string(d.id);
	fullName = cn.first + (cn.second.empty() ? "" : "!" + cn.second) + "!" + shortName;
	if (d.apply) {
		// instantiated by an apply rule: ConfigItem::CommitNewItems commits it in a LATER round than plain objects
		o << "apply Dependency \"" << shortName << "\" to " << (cn.second.empty() ? "Host" : "Service") << " {\n";
	} else {
		o << "object Dependency \"" << shortName << "\" {\n";
		o << "  child_host_name = \"" << cn.first << "\"\n";
		if (!cn.second.empty()) o << "  child_service_name = \"" << cn.second << "\"\n";
	}
	o << "  parent_host_name = \"" << pn.first << "\"\n";
	if (!pn.second.empty()) o << "  parent_service_name = \"" << pn.second << "\"\n";
	if (d.rg != "-") o << "  redundancy_group = \"" << GroupText(std::stol(d.rg), hostOf) << "\"\n";
	o << "  states = " << StatesExpr(d.sf) << "\n";
	o << "  ignore_soft_states = " << (d.iss ? "true" : "false") << "\n";
	if (d.per != "-") o << "  period = \"" << TpName(std::stol(d.per)) << "\"\n";
	o << "  disable_checks = " << (d.dc ? "true" : "false") << "\n";
	o << "  disable_notifications = " << (d.dn ? "true" : "false") << "\n";
	if (d.apply) {
		// even ids: targeted rule (name comparison), odd ids: regular rule (arbitrary filter expression)
		if (d.id % 2 == 0) o << "  assign where host.name == \"" << cn.first << "\"";
		else o << "  assign where match(\"" << cn.first << "\", host.name)";
		if (!cn.second.empty()) o << " && service.name == \"" << cn.second << "\"";
		o << "\n";
	}
	o << "}\n";
	return o.str();
}

PendingDep ParseDep(const Args& a)
{
	PendingDep d;
	d.id = a.num("d"); d.c = a.num("c"); d.p = a.num("p");
	d.rg = a.str("rg", "-"); d.per = a.str("per", "-");
	d.sf = a.num("sf"); d.iss = a.num("iss", 1); d.dc = a.num("dc", 0); d.dn = a.num("dn", 1);
	d.apply = a.str("via", "obj") == "apply";
	return d;
}

std::string CkAttrs()
{
	return "  check_command = \"vdgdummy\"\n  enable_active_checks = false\n  max_check_attempts = 3\n"
		"  enable_flapping = false\n  check_interval = 300\n  retry_interval = 60\n";
}

void RemoveObject(const ConfigObject::Ptr& obj)
{
	if (!obj) return;
	Type::Ptr type = obj->GetReflectionType();
	String name = obj->GetName();
	try { obj->Deactivate(true); } catch (...) {}
	obj->Unregister();
	ConfigItem::Ptr item = ConfigItem::GetByTypeAndName(type, name);
	if (item) item->Unregister();
}

long IdOfNode(const Checkable *c)
{
	for (auto& kv : g_Node) if (kv.second.get() == c) return kv.first;
	return -1;
}

long IdOfDep(const Dependency *d)
{
	for (auto& kv : g_Dep) if (kv.second.get() == d) return kv.first;
	return -1;
}

void Feed(const Checkable::Ptr& c, int raw)
{
	CheckResult::Ptr cr = new CheckResult();
	double now = Utility::GetTime();
	cr->SetState((ServiceState)raw);
	cr->SetScheduleStart(now); cr->SetScheduleEnd(now);
	cr->SetExecutionStart(now); cr->SetExecutionEnd(now);
	cr->SetActive(true);
	cr->SetOutput("vdrive");
	c->ProcessCheckResult(cr);
}

char Dig(DependencyGroup::State s)
{
	switch (s) {
		case DependencyGroup::State::Ok: return '0';
		case DependencyGroup::State::Failed: return '1';
		default: return '2';
	}
}

} // namespace

VOP(dg_host) { InitOnce(); q_Hosts.push_back(a.num("n")); }
VOP(dg_svc) { InitOnce(); q_Svcs.push_back(PendingSvc{a.num("n"), a.num("h"), a.str("via", "obj") == "apply"}); }
VOP(dg_tp) { InitOnce(); q_Tps.emplace_back(a.num("p"), a.num("open", 1)); }
VOP(dg_dep) { InitOnce(); q_Deps.push_back(ParseDep(a)); }

// load everything queued as ONE config batch (what a daemon start / reload does with the whole configuration)
VOP(dg_commit)
{
	InitOnce();
	std::map<long, long> hostOf = g_HostOf;
	for (auto& s : q_Svcs) hostOf[s.first] = s.second;
	std::ostringstream c;
	for (auto& t : q_Tps) {
		g_TpOpen[TpName(t.first)] = t.second != 0;
		c << "object TimePeriod \"" << TpName(t.first) << "\" {\n  update = vdg_update\n}\n";
	}
	for (long h : q_Hosts) c << "object Host \"" << HostName(h) << "\" {\n" << CkAttrs() << "}\n";
	for (auto& s : q_Svcs) {
		if (s.apply)
			c << "apply Service \"" << SvcShort(s.first) << "\" to Host {\n" << CkAttrs() << "  assign where host.name == \"" << HostName(s.second) << "\"\n}\n";
		else
			c << "object Service \"" << SvcShort(s.first) << "\" {\n  host_name = \"" << HostName(s.second) << "\"\n" << CkAttrs() << "}\n";
	}
	std::vector<std::string> depNames;
	for (auto& d : q_Deps) { std::string fn; c << DepConfig(d, hostOf, fn); depNames.push_back(fn); }
	bool ok = true;
	try { LoadConfig(c.str()); } catch (const std::exception&) { ok = false; }
	ApplyRule::m_Rules.clear();   // harness hygiene: the rules of this load must not fire for later loads of the same process
	if (ok) {
		ApiListener::UpdateObjectAuthority();
		for (auto& t : q_Tps) g_Tp[t.first] = TimePeriod::GetByName(TpName(t.first));
		for (long h : q_Hosts) g_Node[h] = Host::GetByName(HostName(h));
		for (auto& s : q_Svcs) { g_Node[s.first] = Service::GetByNamePair(HostName(s.second), SvcShort(s.first)); g_HostOf[s.first] = s.second; }
		for (size_t i = 0; i < q_Deps.size(); i++) g_Dep[q_Deps[i].id] = Dependency::GetByName(depNames[i]);
		for (auto& kv : g_Node) if (!kv.second) throw std::runtime_error("node not created");
		for (auto& kv : g_Dep) if (!kv.second) throw std::runtime_error("dependency not created");
	} else {
		for (auto& t : q_Tps) g_TpOpen.erase(TpName(t.first));
	}
	q_Hosts.clear(); q_Svcs.clear(); q_Tps.clear(); q_Deps.clear();
	Out(std::string("commit ok=") + (ok ? "1" : "0"));
}

// runtime creation of one Dependency object, as PUT /v1/objects/dependencies does
VOP(dg_add)
{
	InitOnce();
	PendingDep d = ParseDep(a);
	d.apply = false;
	std::string fullName;
	std::string cfg = DepConfig(d, g_HostOf, fullName);
	Array::Ptr errors = new Array();
	bool ok = ConfigObjectUtility::CreateObject(Dependency::TypeInstance, fullName, cfg, errors, nullptr);
	if (ok) {
		Dependency::Ptr obj = Dependency::GetByName(fullName);
		if (!obj) ok = false; else g_Dep[d.id] = obj;
	}
	Out("add d=" + std::to_string(d.id) + " ok=" + (ok ? "1" : "0"));
}

// runtime deletion (DELETE /v1/objects/dependencies/...): Deactivate(runtimeRemoved) + Unregister
VOP(dg_del)
{
	Guard();
	long id = a.num("d");
	auto it = g_Dep.find(id);
	if (it == g_Dep.end()) { Out("del d=" + std::to_string(id) + " ok=0"); return; }
	Array::Ptr errors = new Array();
	bool ok = ConfigObjectUtility::DeleteObjectHelper(it->second, false, errors, nullptr, Empty);
	g_Dep.erase(it);
	Out("del d=" + std::to_string(id) + " ok=" + (ok ? "1" : "0"));
}

// force a status through real check results: s = API state (host 0/1, service 0..3), h = hard
VOP(dg_set)
{
	Guard();
	long id = a.num("n"), s = a.num("s"), h = a.num("h", 1);
	Checkable::Ptr c = g_Node.at(id);
	bool isHost = g_HostOf.find(id) == g_HostOf.end();
	int raw = isHost ? (s == 0 ? 0 : 2) : (int)s;
	Feed(c, 0);
	if (raw != 0) { Feed(c, raw); if (h) { Feed(c, raw); Feed(c, raw); } }
	long st = isHost ? (long)static_pointer_cast<Host>(c)->GetState() : (long)static_pointer_cast<Service>(c)->GetState();
	std::ostringstream o;
	o << "set n=" << id << " chk=" << (c->GetLastCheckResult() ? 1 : 0) << " s=" << st << " h=" << (c->GetStateType() == StateTypeHard ? 1 : 0);
	Out(o.str());
}

// open/close a period: the update function's answer changes and the region is recomputed (what the
// TimePeriod update timer does)
VOP(dg_po)
{
	Guard();
	long id = a.num("p");
	TimePeriod::Ptr tp = g_Tp.at(id);
	g_TpOpen[tp->GetName().GetData()] = a.num("open") != 0;
	double now = Utility::GetTime();
	tp->UpdateRegion(now, now + 24 * 3600, true);
	Out("po p=" + std::to_string(id) + " open=" + (tp->IsInside(Utility::GetTime()) ? "1" : "0"));
}

// reachability of every node for the three DependencyTypes
VOP(dg_q)
{
	Guard();
	for (auto& kv : g_Node) {
		if (a.has("n") && a.num("n") != kv.first) continue;   // "dg_q n=<id>": one node only (long chains)
		std::ostringstream o;
		o << "r n=" << kv.first << " "
		  << (kv.second->IsReachable(DependencyState) ? 1 : 0)
		  << (kv.second->IsReachable(DependencyCheckExecution) ? 1 : 0)
		  << (kv.second->IsReachable(DependencyNotification) ? 1 : 0);
		Out(o.str());
	}
}

// per-child dependency groups and the registry
VOP(dg_g)
{
	Guard();
	struct Row { long c; int kind; long kid; std::string name; std::vector<long> mem; size_t tot; std::string st; const DependencyGroup *ptr; };
	std::vector<Row> rows;
	for (auto& kv : g_Node) {
		for (auto& grp : kv.second->GetDependencyGroups()) {
			Row r;
			r.c = kv.first;
			auto deps = grp->GetDependenciesForChild(kv.second.get());
			for (auto& d : deps) r.mem.push_back(IdOfDep(d.get()));
			std::sort(r.mem.begin(), r.mem.end());
			String gn = grp->GetRedundancyGroupName();
			if (gn.IsEmpty()) { r.kind = 0; r.kid = deps.empty() ? -1 : IdOfNode(deps.front()->GetParent().get()); r.name = "-"; }
			else { r.kind = 1; r.kid = GroupIdOfText(gn.GetData()); r.name = std::to_string(r.kid); }
			r.tot = grp->GetDependenciesCount();
			r.st = std::string() + Dig(grp->GetState(kv.second.get(), DependencyState)) + Dig(grp->GetState(kv.second.get(), DependencyCheckExecution))
				+ Dig(grp->GetState(kv.second.get(), DependencyNotification));
			r.ptr = grp.get();
			rows.push_back(r);
		}
	}
	std::sort(rows.begin(), rows.end(), [](const Row& x, const Row& y) {
		return std::tie(x.c, x.kind, x.kid) < std::tie(y.c, y.kind, y.kid);
	});
	for (size_t i = 0; i < rows.size(); i++) {
		const Row& r = rows[i];
		size_t j = 0;
		while (rows[j].ptr != r.ptr) j++;             // first slot (in canonical order) holding the same group object
		std::ostringstream o;
		o << "g c=" << r.c << " k=" << (r.kind ? "G" : "P") << r.kid << " name=" << r.name << " mem=";
		for (size_t m = 0; m < r.mem.size(); m++) o << (m ? "," : "") << r.mem[m];
		o << " tot=" << r.tot << " st=" << r.st << " cls=" << rows[j].c << ":" << (rows[j].kind ? "G" : "P") << rows[j].kid;
		Out(o.str());
	}
	Out("reg size=" + std::to_string(DependencyGroup::GetRegistrySize()));
}

static struct DgCaseEnd {
	DgCaseEnd() {
		RegisterCaseEnd([]() {
			Guard();
			q_Hosts.clear(); q_Svcs.clear(); q_Tps.clear(); q_Deps.clear();
			for (auto& kv : g_Dep) RemoveObject(kv.second);
			g_Dep.clear();
			for (auto& kv : g_Node) if (g_HostOf.count(kv.first)) RemoveObject(kv.second);
			for (auto& kv : g_Node) if (!g_HostOf.count(kv.first)) RemoveObject(kv.second);
			g_Node.clear(); g_HostOf.clear();
			for (auto& kv : g_Tp) RemoveObject(kv.second);
			g_Tp.clear(); g_TpOpen.clear();
			alarm(0);
		});
	}
} l_DgCaseEnd;
