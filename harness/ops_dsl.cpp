// C15 - configuration language.  Compiles program text with the REAL ConfigCompiler::CompileText and
// evaluates it with Expression::Evaluate in a fresh ScriptFrame; prints the value through a canonical
// printer (never error text), the final this/locals dictionaries and the globals the program created.
#include "vdrive.hpp"
#include "base/array.hpp"
#include "base/dictionary.hpp"
#include "base/namespace.hpp"
#include "base/function.hpp"
#include "base/scriptframe.hpp"
#include "base/scriptglobal.hpp"
#include "base/exception.hpp"
#include "base/objectlock.hpp"
#include "base/io-engine.hpp"
#include "config/configcompiler.hpp"
#include "config/expression.hpp"
#include <boost/coroutine/all.hpp>
#include <cmath>
#include <set>
#include <thread>
#include <sys/resource.h>
#include <pthread.h>
#include <unistd.h>
#include <signal.h>
#include <sys/wait.h>

using namespace icinga;

static std::string Esc(const std::string& s)
{
	static const char *d = "0123456789abcdef";
	std::string r = "\"";
	for (unsigned char c : s) {
		if (c < 32 || c > 126 || c == '"' || c == '\\') { r += "\\x"; r += d[c >> 4]; r += d[c & 15]; }
		else r += (char)c;
	}
	return r + "\"";
}

static std::string ShowNum(double x)
{
	if (std::isnan(x)) return "nan";
	if (std::isinf(x)) return x > 0 ? "inf" : "-inf";
	if (x == 0) return "0";
	int e = 0;
	double m = x;
	while (m != std::floor(m) && e < 1100) { m *= 2; e++; }
	char buf[64];
	if (std::fabs(m) < 9.3e18) snprintf(buf, sizeof buf, "%lld", (long long)m);
	else snprintf(buf, sizeof buf, "%.0f", m);
	std::string r = buf;
	if (e) r += "/2^" + std::to_string(e);
	return r;
}

static std::string Show(const Value& v, std::vector<Object *>& path)
{
	if (v.IsEmpty() && !v.IsString()) return "null";
	if (v.IsNumber()) return ShowNum(v.Get<double>());
	if (v.IsBoolean()) return v.Get<bool>() ? "true" : "false";
	if (v.IsString()) return Esc(v.Get<String>().GetData());
	Object::Ptr o = v.Get<Object::Ptr>();
	if (Array::Ptr a = dynamic_pointer_cast<Array>(o)) {
		for (Object *p : path) if (p == o.get()) return "@cycle";
		path.push_back(o.get());
		std::vector<Value> items;
		{ ObjectLock l(a); for (const Value& x : a) items.push_back(x); }
		std::string r = "[";
		bool first = true;
		for (const Value& x : items) { if (!first) r += ","; first = false; r += Show(x, path); }
		path.pop_back();
		return r + "]";
	}
	if (Dictionary::Ptr d = dynamic_pointer_cast<Dictionary>(o)) {
		for (Object *p : path) if (p == o.get()) return "@cycle";
		path.push_back(o.get());
		std::vector<std::pair<String, Value>> items;
		{ ObjectLock l(d); for (const Dictionary::Pair& kv : d) items.emplace_back(kv.first, kv.second); }
		std::string r = "{";
		bool first = true;
		for (auto& kv : items) { if (!first) r += ","; first = false; r += Esc(kv.first.GetData()) + ":" + Show(kv.second, path); }
		path.pop_back();
		return r + "}";
	}
	if (dynamic_pointer_cast<Namespace>(o)) return "ns";
	if (dynamic_pointer_cast<Function>(o)) return "fn";
	return "obj";
}

static std::string ShowV(const Value& v) { std::vector<Object *> p; return Show(v, p); }

struct EvalOut { std::vector<std::string> lines; };

// removes a global the program created - also a constant (`const X = ..`, which Namespace::Remove refuses)
static void DropGlobal(const Namespace::Ptr& g, const String& key)
{
	ObjectLock olock(g);
	std::unique_lock<decltype(g->m_DataMutex)> dlock(g->m_DataMutex);
	g->m_Data.erase(key);
}

static std::set<String> GlobalKeys()
{
	std::set<String> r;
	Namespace::Ptr g = ScriptGlobal::GetGlobals();
	ObjectLock l(g);
	for (const Namespace::Pair& kv : g) r.insert(kv.first);
	return r;
}

// one evaluation in a fresh environment; removes the globals the program created afterwards
static EvalOut EvalOnce(const std::string& src)
{
	EvalOut out;
	std::set<String> before = GlobalKeys();
	Dictionary::Ptr self = new Dictionary();
	std::string res;
	Dictionary::Ptr locals;
	{
		ScriptFrame frame(true, self);
		locals = frame.Locals;
		std::unique_ptr<Expression> expr;
		bool compiled = false;
		try {
			expr = ConfigCompiler::CompileText("<c15>", src);
			compiled = (bool)expr;
			if (!compiled || dynamic_cast<ThrowExpression *>(expr.get())) { compiled = false; res = "syntax"; }
		} catch (const std::exception&) {
			res = "syntax";
		}
		if (compiled) {
			try {
				ExpressionResult r = expr->Evaluate(frame);
				res = ShowV(r.GetValue());
			} catch (const std::exception&) {
				res = "error";
			}
		}
	}
	out.lines.push_back("res " + res);
	out.lines.push_back("this " + ShowV(self));
	out.lines.push_back("locals " + ShowV(locals));
	// globals created by the program
	Namespace::Ptr g = ScriptGlobal::GetGlobals();
	std::vector<std::pair<String, Value>> added;
	{
		ObjectLock l(g);
		for (const Namespace::Pair& kv : g) if (!before.count(kv.first)) added.emplace_back(kv.first, kv.second.Val);
	}
	std::string gs = "{";
	bool first = true;
	for (auto& kv : added) { if (!first) gs += ","; first = false; gs += Esc(kv.first.GetData()) + ":" + ShowV(kv.second); }
	out.lines.push_back("globals " + gs + "}");
	for (auto& kv : added) DropGlobal(g, kv.first);
	return out;
}

static void LimitStack()
{
	// a runaway recursion should hit the guard page quickly instead of eating 8 MiB first
	static bool done = false;
	if (done) return;
	done = true;
	struct rlimit rl;
	if (getrlimit(RLIMIT_STACK, &rl) == 0) {
		rlim_t want = 2 * 1024 * 1024;
		if (rl.rlim_cur == RLIM_INFINITY || rl.rlim_cur > want) { rl.rlim_cur = want; setrlimit(RLIMIT_STACK, &rl); }
	}
}

struct EvalArg { const std::string *src; EvalOut o1, o2; };
static void *EvalThreadMain(void *p)
{
	EvalArg *ea = static_cast<EvalArg *>(p);
	ea->o1 = EvalOnce(*ea->src);
	ea->o2 = EvalOnce(*ea->src);
	return nullptr;
}

// dsl_eval src=<hex> [ast=<hex>] [mode=main|thread|coro]  -- evaluates twice (determinism) and prints the observation;
// mode = the stack the evaluation runs on (main thread / 512 KiB thread / coroutine of IoEngine's size with a guard page)
VOP(dsl_eval)
{
	LimitStack();
	std::string src = HexDec(a.str("src", "-"));
	std::string mode = a.str("mode", "main");
	EvalArg ea{&src, {}, {}};
	if (mode == "coro") {
		typedef boost::coroutines::asymmetric_coroutine<void>::pull_type Pull;
		typedef boost::coroutines::asymmetric_coroutine<void>::push_type Push;
		Pull co([&](Push&) { EvalThreadMain(&ea); }, boost::coroutines::attributes(IoEngine::GetCoroutineStackSize()),
			boost::coroutines::protected_stack_allocator());
	} else if (mode == "thread") {
		pthread_attr_t attr;
		pthread_attr_init(&attr);
		pthread_attr_setstacksize(&attr, 512 * 1024);
		pthread_t th;
		pthread_create(&th, &attr, EvalThreadMain, &ea);
		pthread_join(th, nullptr);
	} else {
		EvalThreadMain(&ea);
	}
	EvalOut& o1 = ea.o1;
	EvalOut& o2 = ea.o2;
	for (auto& l : o1.lines) Out(l);
	Out(std::string("det ") + (o1.lines == o2.lines ? "1" : "0"));
}

// dsl_hostile src=<hex> mode=main|thread|coro  -- arbitrary bytes to the real parser/evaluator:
// any value or script error is fine ("hostile ok"); a crash kills the process (CRASH line from the runner)
// outcome class of the last hostile run (value / error / syntax), reported only when the script line asks for it (want=...)
static std::string l_HostileKind;
static std::string l_HostileValue;
static bool l_HostileSandbox = false;

static std::string HostileRun(const std::string& src)
{
	try {
		ScriptFrame frame(true, new Dictionary());
		frame.Sandboxed = l_HostileSandbox;
		l_HostileValue.clear();
		std::set<String> before = GlobalKeys();
		std::unique_ptr<Expression> expr = ConfigCompiler::CompileText("<c15h>", src);
		std::string r = "hostile ok";
		l_HostileKind = (expr && dynamic_cast<ThrowExpression *>(expr.get())) ? "syntax" : "value";
		try {
			if (expr) {
				ExpressionResult er = expr->Evaluate(frame);
				if (l_HostileKind == "value") l_HostileValue = ShowV(er.GetValue());
			}
		} catch (const std::exception&) {
			if (l_HostileKind != "syntax") l_HostileKind = "error";
		}
		Namespace::Ptr g = ScriptGlobal::GetGlobals();
		std::vector<String> added;
		{ ObjectLock l(g); for (const Namespace::Pair& kv : g) if (!before.count(kv.first)) added.push_back(kv.first); }
		for (auto& k : added) DropGlobal(g, k);
		return r;
	} catch (const std::exception&) {
		return "hostile ok";
	}
}

struct ThreadArg { const std::string *src; std::string res; };
static void *ThreadMain(void *p)
{
	ThreadArg *ta = static_cast<ThreadArg *>(p);
	ta->res = HostileRun(*ta->src);
	return nullptr;
}

// ---- dsl_retry: identical expressions evaluated repeatedly in ONE environment must have identical outcomes ----
static std::string RetryOutcome(Expression *e, ScriptFrame& frame)
{
	try {
		ExpressionResult r = e->Evaluate(frame);
		return "value " + ShowV(r.GetValue());
	} catch (const std::exception&) {
		return "error";
	} catch (...) {
		return "error";
	}
}

struct RetryArg { std::string a, b, loop; bool wa, wb; std::string line; };

static void *RetryMain(void *p)
{
	RetryArg *ra = static_cast<RetryArg *>(p);
	std::set<String> before = GlobalKeys();
	std::string line;
	try {
		ScriptFrame frame(true, new Dictionary());
		std::unique_ptr<Expression> ea = ConfigCompiler::CompileText("<c15ra>", ra->a);
		std::unique_ptr<Expression> eb = ConfigCompiler::CompileText("<c15rb>", ra->b);
		std::unique_ptr<Expression> el = ConfigCompiler::CompileText("<c15rl>", ra->loop);
		if (!ea || !eb || !el || dynamic_cast<ThrowExpression *>(ea.get()) || dynamic_cast<ThrowExpression *>(eb.get()) || dynamic_cast<ThrowExpression *>(el.get())) {
			line = "retry syntax";
		} else {
			std::string a1 = RetryOutcome(ea.get(), frame);
			std::string b1 = RetryOutcome(eb.get(), frame);
			std::string b2 = RetryOutcome(eb.get(), frame);
			std::string b3 = RetryOutcome(eb.get(), frame);
			std::string a2 = RetryOutcome(ea.get(), frame);
			// the same text compiled anew
			std::unique_ptr<Expression> eb2 = ConfigCompiler::CompileText("<c15rb2>", ra->b);
			std::string b4 = eb2 ? RetryOutcome(eb2.get(), frame) : "syntax";
			// three evaluations inside a loop body, each caught by try/except, in a fresh frame on the same stack
			std::string lp;
			{
				ScriptFrame lframe(true, new Dictionary());
				lp = RetryOutcome(el.get(), lframe);
			}
			std::string a3 = RetryOutcome(ea.get(), frame);
			std::string item = b1 == "error" ? "\"error\"" : b1.substr(6);
			std::string want = "value [" + item + "," + item + "," + item + "]";
			auto cls = [](const std::string& o) { return o == "error" ? std::string("error") : std::string("value"); };
			if (a1 == a2 && a2 == a3 && b1 == b2 && b2 == b3 && b3 == b4 && lp == want) {
				line = "retry ok";
				if (ra->wa) line += " a=" + cls(a1);
				if (ra->wb) line += " b=" + cls(b1);
			} else {
				auto cut = [](const std::string& o) { return o.size() > 60 ? o.substr(0, 60) + ".." : o; };
				line = "retry inconsistent a=[" + cut(a1) + "|" + cut(a2) + "|" + cut(a3) + "] b=[" + cut(b1) + "|" + cut(b2) + "|" + cut(b3) + "|" + cut(b4) + "] loop=" + cut(lp);
			}
		}
	} catch (const std::exception&) {
		line = "retry syntax";
	}
	Namespace::Ptr g = ScriptGlobal::GetGlobals();
	std::vector<String> added;
	{ ObjectLock l(g); for (const Namespace::Pair& kv : g) if (!before.count(kv.first)) added.push_back(kv.first); }
	for (auto& k : added) DropGlobal(g, k);
	ra->line = line;
	return nullptr;
}

// dsl_retry a=<hex expr> b=<hex expr> loop=<hex program> mode=main|thread|coro [wa=1] [wb=1]
// a1 b1 b2 b3 a2 b(recompiled) loop(3x b in try/except) a3 in one environment on one stack: prints "retry ok [a=<class>] [b=<class>]"
// iff the three a outcomes are identical, the four b outcomes are identical and the loop logged that same outcome three times
VOP(dsl_retry)
{
	LimitStack();
	RetryArg ra{HexDec(a.str("a", "-")), HexDec(a.str("b", "-")), HexDec(a.str("loop", "-")), a.has("wa"), a.has("wb"), ""};
	std::string mode = a.str("mode", "main");
	if (mode == "coro") {
		typedef boost::coroutines::asymmetric_coroutine<void>::pull_type Pull;
		typedef boost::coroutines::asymmetric_coroutine<void>::push_type Push;
		Pull co([&](Push&) { RetryMain(&ra); }, boost::coroutines::attributes(IoEngine::GetCoroutineStackSize()),
			boost::coroutines::protected_stack_allocator());
	} else if (mode == "thread") {
		pthread_attr_t attr;
		pthread_attr_init(&attr);
		pthread_attr_setstacksize(&attr, 512 * 1024);
		pthread_t th;
		pthread_create(&th, &attr, RetryMain, &ra);
		pthread_join(th, nullptr);
	} else {
		RetryMain(&ra);
	}
	Out(ra.line);
}

static std::string HostileDispatch(const std::string& src, const std::string& mode);

VOP(dsl_hostile)
{
	LimitStack();
	std::string src = HexDec(a.str("src", "-"));
	std::string mode = a.str("mode", "main");
	l_HostileSandbox = a.num("sb", 0) != 0;
	bool show = a.has("show");
	auto outcome = [&]() { return "hostile " + l_HostileKind + (show && l_HostileKind == "value" ? " " + l_HostileValue : ""); };
	if (a.num("iso", 0)) {
		// run in a forked child: an overflow of an unguarded coroutine stack corrupts the heap, which must
		// not leak into the following cases
		int fds[2];
		if (pipe(fds) != 0) throw std::runtime_error("pipe");
		pid_t pid = fork();
		if (pid == 0) {
			close(fds[0]);
			std::string r = HostileDispatch(src, mode);
			if (a.has("want")) r = outcome();
			ssize_t w = write(fds[1], r.data(), r.size());
			(void)w;
			_exit(0);
		}
		close(fds[1]);
		std::string got;
		char buf[256];
		ssize_t n;
		int status = 0;
		int waited = 0;
		pid_t wr = 0;
		while ((wr = waitpid(pid, &status, WNOHANG)) == 0 && waited < 60000) { usleep(2000); waited += 2; }
		if (wr == 0) { kill(pid, SIGKILL); waitpid(pid, &status, 0); close(fds[0]); Out("HANG child"); return; }
		while ((n = read(fds[0], buf, sizeof buf)) > 0) got.append(buf, n);
		close(fds[0]);
		if (WIFSIGNALED(status)) Out("CRASH child sig=" + std::to_string(WTERMSIG(status)));
		else Out(got.empty() ? "CRASH child exit=" + std::to_string(WEXITSTATUS(status)) : got);
		return;
	}
	std::string r = HostileDispatch(src, mode);
	if (a.has("want")) r = outcome();
	Out(r);
}

static std::string HostileDispatch(const std::string& src, const std::string& mode)
{
	std::string res;
	if (mode == "coro") {
		// the stack the API/JSON-RPC handlers (console API) run on
		typedef boost::coroutines::asymmetric_coroutine<void>::pull_type Pull;
		typedef boost::coroutines::asymmetric_coroutine<void>::push_type Push;
		// same size as IoEngine's coroutines, but with a guard page so that an overflow is a clean SIGSEGV
		// instead of silent heap corruption (Icinga's own coroutine stacks are unguarded)
		Pull co([&](Push&) { res = HostileRun(src); }, boost::coroutines::attributes(IoEngine::GetCoroutineStackSize()),
			boost::coroutines::protected_stack_allocator());
	} else if (mode == "thread") {
		pthread_attr_t attr;
		pthread_attr_init(&attr);
		pthread_attr_setstacksize(&attr, 512 * 1024);
		ThreadArg ta{&src, ""};
		pthread_t th;
		pthread_create(&th, &attr, ThreadMain, &ta);
		pthread_join(th, nullptr);
		res = ta.res;
	} else {
		res = HostileRun(src);
	}
	return res;
}

// dsl_syntax src=<hex> line=N col=N  -- a program broken at a known position: a syntax error must be
// reported, located at the offending token (DebugInfo of the ScriptError, not its text)
VOP(dsl_syntax)
{
	std::string src = HexDec(a.str("src", "-"));
	std::string res = "nosyntaxerror";
	try {
		std::unique_ptr<Expression> expr = ConfigCompiler::CompileText("<c15s>", src);
		if (auto *t = dynamic_cast<ThrowExpression *>(expr.get())) {
			const DebugInfo& di = t->GetDebugInfo();
			res = "syntax " + std::to_string(di.FirstLine) + ":" + std::to_string(di.FirstColumn);
		}
	} catch (const std::exception&) {
		res = "syntax thrown";
	}
	Out(res);
}
