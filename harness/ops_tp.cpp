// TimePeriod fixture (C08): real TimePeriod objects (registered, not activated - as test/icinga-legacytimeperiod.cpp
// does), real AddSegment / RemoveSegment / PurgeSegments / UpdateRegion / IsInside, the real
// LegacyTimePeriod::ScriptFunc under the process time zone set by tp_tz.  Observed: the state attributes
// segments / valid_begin / valid_end and IsInside(t) at the probe instants of the case.
#include "vdrive.hpp"
#include "base/utility.hpp"
#include "base/function.hpp"
#include "base/objectlock.hpp"
#include "base/array.hpp"
#include "base/dictionary.hpp"
#include "base/json.hpp"
#include "base/serializer.hpp"
#include "base/configobject.hpp"
#include <algorithm>
#include "icinga/timeperiod.hpp"
#include "icinga/legacytimeperiod.hpp"
#include <ctime>
#include <cstdlib>
#include <memory>
#include <csignal>
#include <unistd.h>
#include <sys/wait.h>

using namespace icinga;

namespace {

struct TpFix {
	TimePeriod::Ptr tp;
	std::shared_ptr<std::vector<std::pair<double, double>>> own;
	Dictionary::Ptr ranges;
};

std::map<std::string, TpFix> l_Tp;
std::vector<double> l_Pts;
std::vector<std::string> l_Order;     // creation (= registration) order: the order in which the timer handler visits

std::string RealName(const std::string& n) { return "c" + std::to_string(CaseId()) + "_" + n; }

std::vector<std::string> SplitC(const std::string& s, char sep)
{
	std::vector<std::string> r;
	if (s.empty() || s == "-") return r;
	std::string cur;
	for (char c : s) { if (c == sep) { r.push_back(cur); cur.clear(); } else cur += c; }
	r.push_back(cur);
	return r;
}

// "b-e" with possibly negative numbers: split at the '-' that follows a digit
std::pair<double, double> ParseSeg(const std::string& s)
{
	size_t i = 1;
	while (i < s.size() && !(s[i] == '-' && isdigit((unsigned char)s[i - 1]))) i++;
	return { std::stod(s.substr(0, i)), std::stod(s.substr(i + 1)) };
}

std::string Num(const Value& v)
{
	if (v.IsEmpty()) return "-";
	return std::to_string((long long)(double)v);
}

std::string StateLine(const std::string& name)
{
	TpFix& f = l_Tp.at(name);
	std::ostringstream o;
	o << "tp " << name << " segs=";
	Array::Ptr segs = f.tp->GetSegments();
	bool any = false;
	if (segs) {
		ObjectLock olock(segs);
		for (const Dictionary::Ptr& sg : segs) {
			if (any) o << ",";
			o << Num(sg->Get("begin")) << "-" << Num(sg->Get("end"));
			any = true;
		}
	}
	if (!any) o << "-";
	o << " vb=" << Num(f.tp->GetValidBegin()) << " ve=" << Num(f.tp->GetValidEnd()) << " in=";
	if (l_Pts.empty()) o << "-";
	for (double t : l_Pts) o << (f.tp->IsInside(t) ? "1" : "0");
	return o.str();
}

TpFix& Get(const Args& a) { auto it = l_Tp.find(a.str("name")); if (it == l_Tp.end()) throw std::runtime_error("no such period"); return it->second; }

struct TpCaseEnd {
	TpCaseEnd() {
		RegisterCaseEnd([]() {
			for (auto& kv : l_Tp) { kv.second.tp->SetActive(false, true); kv.second.tp->Unregister(); }
			l_Tp.clear();
			l_Pts.clear();
			l_Order.clear();
		});
	}
} l_TpCaseEnd;

}

// tp_pts t1,t2,...  : the probe instants of this case
VOP(tp_pts)
{
	l_Pts.clear();
	for (auto& s : SplitC(a.pos.at(0), ',')) l_Pts.push_back(std::stod(s));
}

// tp_tz z=<TZ> base=<off> tab=<t:off,...> lo=<t> hi=<t> : switch the process time zone; check libc against the table
VOP(tp_tz)
{
	setenv("TZ", a.str("z", "UTC").c_str(), 1);
	tzset();
	std::vector<std::pair<long, long>> tab;
	for (auto& s : SplitC(a.str("tab", "-"), ',')) {
		auto c = s.find(':');
		tab.push_back({ std::stol(s.substr(0, c)), std::stol(s.substr(c + 1)) });
	}
	long base = a.num("base", 0);
	auto off = [&](long t) { long o = base; for (auto& p : tab) if (p.first <= t) o = p.second; return o; };
	auto libc = [](long t) { time_t tt = t; tm r; localtime_r(&tt, &r); return (long)r.tm_gmtoff; };
	long lo = a.num("lo", 0), hi = a.num("hi", 0);
	long bad = -1;
	for (long t = lo; t <= hi && bad < 0; t += 3 * 3600) if (libc(t) != off(t)) bad = t;
	for (auto& p : tab) {
		if (bad >= 0) break;
		if (p.first < lo || p.first > hi) continue;
		if (libc(p.first) != off(p.first)) bad = p.first;
		else if (libc(p.first - 1) != off(p.first - 1)) bad = p.first - 1;
	}
	Out(bad < 0 ? "tp_tz ok" : "tp_tz libc-differs-from-table at=" + std::to_string(bad));
}

// tp_mk l=<L1,L2,...> : libc's mktime (tm_isdst = -1) for the local times L (seconds since the epoch "as if UTC"), in
// the zone set by tp_tz.  glibc starts its search from the offset of the previous successful call, which decides
// which of the two instants of a REPEATED local time it returns; every query is therefore preceded by a query for the
// local time two days earlier (offset in force before a nearby transition), which makes the answer deterministic.
VOP(tp_mk)
{
	auto mk = [](long L) { time_t l = L; tm g; gmtime_r(&l, &g); g.tm_isdst = -1; return (long)mktime(&g); };
	std::ostringstream o;
	o << "tp_mk r=";
	bool any = false;
	for (auto& s : SplitC(a.str("l", "-"), ',')) {
		long L = std::stol(s);
		mk(L - 2 * 86400);
		if (any) o << ",";
		o << mk(L);
		any = true;
	}
	if (!any) o << "-";
	Out(o.str());
}

namespace {
// a TimePeriod object as the config compiler leaves it (registered, not yet activated)
TpFix MakeTp(const std::string& name, const Args& a)
{
	TpFix f;
	f.tp = new TimePeriod();
	f.tp->SetName(RealName(name), true);
	f.own = std::make_shared<std::vector<std::pair<double, double>>>();
	auto own = f.own;
	f.tp->SetUpdate(new Function("vdrive#own", Function::Callback([own](const std::vector<Value>&) -> Value {
		Array::Ptr r = new Array();
		for (auto& p : *own) r->Add(new Dictionary({ { "begin", p.first }, { "end", p.second } }));
		return r;
	}), { "tp", "begin", "end" }, false, false), true);
	f.tp->SetPreferIncludes(a.num("prefer", 1) != 0, true);
	Array::Ptr inc = new Array(), exc = new Array();
	for (auto& n : SplitC(a.str("inc", "-"), ',')) inc->Add(String(RealName(n)));
	for (auto& n : SplitC(a.str("exc", "-"), ',')) exc->Add(String(RealName(n)));
	f.tp->SetIncludes(inc, true);
	f.tp->SetExcludes(exc, true);
	f.tp->Register();
	return f;
}
}

// tp_new name=<n> [prefer=0|1] [inc=a,b] [exc=c]
VOP(tp_new)
{
	std::string name = a.str("name");
	l_Tp[name] = MakeTp(name, a);
	l_Order.push_back(name);
}

// tp_reload name=<n> [prefer=0|1] [inc=a,b] [exc=c] : the daemon is restarted with a (possibly edited) configuration - what
// happens to ONE period: its state attributes go through the state file (the record ConfigObject::DumpObjects writes:
// JsonEncode of { type, name, update = Serialize(object, FAState) }), the old object is gone, a NEW object of the same name
// is built from the new definition (the tp_range / tp_own lines that follow) and the REAL ConfigObject::RestoreObject puts the
// saved segments / valid_begin / valid_end into it (JsonDecodeTrusted + Deserialize(.., FAState)).  The object is not started
// (tp_start does that); it takes its place at the end of the creation order.
VOP(tp_reload)
{
	std::string name = a.str("name");
	TpFix& old = Get(a);
	String json = JsonEncode(new Dictionary({
		{ "type", "TimePeriod" },
		{ "name", old.tp->GetName() },
		{ "update", Serialize(old.tp, FAState) }
	}));
	old.tp->SetActive(false, true);
	old.tp->Unregister();
	l_Tp.erase(name);
	l_Order.erase(std::remove(l_Order.begin(), l_Order.end(), name), l_Order.end());
	l_Tp[name] = MakeTp(name, a);
	l_Order.push_back(name);
	ConfigObject::RestoreObject(json, FAState);
	Out(StateLine(name));
}

// tp_own name=<n> segs=b-e,b-e : what the (harness) update function returns from now on
VOP(tp_own)
{
	TpFix& f = Get(a);
	f.own->clear();
	for (auto& s : SplitC(a.str("segs", "-"), ',')) f.own->push_back(ParseSeg(s));
}

// tp_range name=<n> k=<hex day definition> v=<hex time ranges> [ast=...] : add a ranges entry, update = LegacyTimePeriod
VOP(tp_range)
{
	TpFix& f = Get(a);
	if (!f.ranges) {
		f.ranges = new Dictionary();
		f.tp->SetRanges(f.ranges, true);
		f.tp->SetUpdate(new Function("LegacyTimePeriod", LegacyTimePeriod::ScriptFunc, { "tp", "begin", "end" }), true);
	}
	f.ranges->Set(HexDec(a.str("k")), String(HexDec(a.str("v"))));
}

VOP(tp_add)
{
	TpFix& f = Get(a);
	{ ObjectLock olock(f.tp); f.tp->AddSegment(a.dbl("b"), a.dbl("e")); }
	Out(StateLine(a.str("name")));
}

VOP(tp_rm)
{
	TpFix& f = Get(a);
	{ ObjectLock olock(f.tp); f.tp->RemoveSegment(a.dbl("b"), a.dbl("e")); }
	Out(StateLine(a.str("name")));
}

VOP(tp_purge)
{
	TpFix& f = Get(a);
	{ ObjectLock olock(f.tp); f.tp->PurgeSegments(a.dbl("t")); }
	Out(StateLine(a.str("name")));
}

VOP(tp_upd)
{
	TpFix& f = Get(a);
	f.tp->UpdateRegion(a.dbl("b"), a.dbl("e"), a.num("clear", 1) != 0);
	Out(StateLine(a.str("name")));
}

// tp_start name=<n> : activation of the period under the virtual clock, the way ConfigItem::ActivateItems /
// ConfigObject::Activate do it: PreActivate (active = true), then the REAL TimePeriod::Start() under the object's lock.
// Start() also creates the process-wide 5-minute update timer on its first call; its expiry time is taken from the
// virtual clock (year 2033 and later) while the timer thread waits on the system clock, so it never fires on its own -
// tp_timer calls the handler.
VOP(tp_start)
{
	TpFix& f = Get(a);
	f.tp->SetActive(true, true);
	{
		ObjectLock olock(f.tp);
		f.tp->Start(false);
	}
	Out(StateLine(a.str("name")));
}

// tp_timer : one expiry of the 5-minute update timer - the REAL TimePeriod::UpdateTimerHandler() (all active periods, in
// the order ConfigType hands them out = registration order); one state line per started period, in that order
VOP(tp_timer)
{
	TimePeriod::UpdateTimerHandler();
	for (auto& n : l_Order) {
		if (l_Tp.at(n).tp->IsActive())
			Out(StateLine(n));
	}
}

// tp_now name=<n> : the is_inside attribute under the virtual clock
VOP(tp_now)
{
	TpFix& f = Get(a);
	Out(std::string("tp_now ") + a.str("name") + " is_inside=" + (f.tp->GetIsInside() ? "1" : "0"));
}

namespace {
struct TpNullUtils : public ValidationUtils {
	bool ValidateName(const String&, const String&) const override { return true; }
};
}

// tp_parse k=<hex day definition> [v=<hex time ranges>] [limit=<s>] [ast=...] : what config validation does with this ranges entry
// (TimePeriod::ValidateRanges -> LegacyTimePeriod::ParseTimeRange), in a forked child under a watchdog:
// res=ok | rejected (ValidationError) | hang (still running after <limit> seconds of real time) | crash
VOP(tp_parse)
{
	std::string def = a.str("k", "-") == "-" ? std::string() : HexDec(a.str("k"));
	std::string trs = a.str("v", "").empty() ? std::string("00:00-24:00") : (a.str("v") == "-" ? std::string() : HexDec(a.str("v")));
	unsigned limit = (unsigned)a.num("limit", 3);
	pid_t pid = fork();
	if (pid < 0) throw std::runtime_error("fork failed");
	if (pid == 0) {
		signal(SIGALRM, SIG_DFL);
		alarm(limit);
		int rc = 0;
		try {
			TimePeriod::Ptr tp = new TimePeriod();
			Dictionary::Ptr r = new Dictionary({ { String(def), String(trs) } });
			TpNullUtils utils;
			tp->ValidateRanges(Lazy<Dictionary::Ptr>(r), utils);
		} catch (...) {
			rc = 3;
		}
		_exit(rc);
	}
	int st = 0;
	waitpid(pid, &st, 0);
	std::string res = "crash";
	if (WIFEXITED(st) && WEXITSTATUS(st) == 0) res = "ok";
	else if (WIFEXITED(st) && WEXITSTATUS(st) == 3) res = "rejected";
	else if (WIFSIGNALED(st) && WTERMSIG(st) == SIGALRM) res = "hang";
	Out("tp_parse res=" + res);
}
