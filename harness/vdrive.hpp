// vdrive: script-driven harness that executes operation scripts against the REAL Icinga 2
// objects (object libraries rebuilt from /repo's working tree with -DICINGA2_VERIF).
// One op per line: "<op> tok tok key=value ...".  Every observation is one canonical output line.
#ifndef VDRIVE_HPP
#define VDRIVE_HPP

#include <string>
#include <vector>
#include <map>
#include <functional>
#include <sstream>
#include <iostream>

struct Args {
	std::vector<std::string> pos;               // positional tokens (after the op name)
	std::map<std::string, std::string> kv;      // key=value tokens
	bool has(const std::string& k) const { return kv.count(k) > 0; }
	std::string str(const std::string& k, const std::string& d = "") const { auto it = kv.find(k); return it == kv.end() ? d : it->second; }
	long num(const std::string& k, long d = 0) const { auto it = kv.find(k); return it == kv.end() ? d : std::stol(it->second); }
	double dbl(const std::string& k, double d = 0) const { auto it = kv.find(k); return it == kv.end() ? d : std::stod(it->second); }
};

using OpFn = std::function<void(const Args&)>;
void RegisterOp(const std::string& name, OpFn fn);
// hooks run at "case"/"end" boundaries (modules clean their per-case objects there)
void RegisterCaseEnd(std::function<void()> fn);

bool ObsOn(const std::string& prefix);         // is this event class observed ("obs" directive)
void Out(const std::string& line);              // one observation line
void Heartbeat();                                // see main.cpp: an op waiting legitimately without output
std::string ScratchDir();                       // harness-owned scratch directory
long CaseId();
std::string HexEnc(const std::string& s);
std::string HexDec(const std::string& s);
void LoadConfig(const std::string& text);       // compile + commit + activate config text (throws)
void DrainThreadPool();                         // wait until queued async callbacks have run

struct OpRegistrar { OpRegistrar(const char *n, OpFn f) { RegisterOp(n, f); } };
#define VOP(name) static void vop_##name(const Args& a); static OpRegistrar vopreg_##name(#name, vop_##name); static void vop_##name(const Args& a)

#endif
