// C11 cluster routing fixture: real Zone/Endpoint/Host objects from config text, a real ApiListener
// (no PKI, no sockets), real JsonRpcConnection objects over unconnected streams on a harness-owned
// io_context as "connected peers".  One rt_step = set the local identity and the connectivity row,
// let a message arrive (or originate locally) and run the real ApiListener::SyncRelayMessage;
// observe the outgoing queues of the connections, the endpoints' local log positions and whether
// the replay log file grew.
#include "vdrive.hpp"
#include "base/utility.hpp"
#include "base/logger.hpp"
#include "base/configtype.hpp"
#include "base/json.hpp"
#include "base/tlsstream.hpp"
#include "base/shared.hpp"
#include "config/configitem.hpp"
#include "icinga/host.hpp"
#include "icinga/checkcommand.hpp"
#include "remote/apilistener.hpp"
#include "remote/apifunction.hpp"
#include "remote/endpoint.hpp"
#include "remote/zone.hpp"
#include "remote/jsonrpcconnection.hpp"
#include "remote/messageorigin.hpp"
#include <boost/asio.hpp>
#include <boost/asio/ssl.hpp>
#include <sys/stat.h>
#include <algorithm>
#include <deque>
#include <set>

using namespace icinga;

static boost::asio::io_context l_Io;
static boost::asio::ssl::context *l_Ssl = nullptr;
static ApiListener::Ptr l_Listener;
static std::vector<int> l_ZoneIds;                 // zones of the current case
static std::map<int, std::vector<int>> l_ZoneEps;  // zone -> endpoint ids
static std::map<int, bool> l_ZoneGlobal;
static std::vector<ConfigObject::Ptr> l_Objects;   // everything created for the case, removal order
static bool l_Init = false;

// state captured by the verif::Relay handler (called synchronously from MessageHandler)
static std::string l_SeenFromZone;
static bool l_HandlerRan = false;
static ConfigObject::Ptr l_HandlerSecobj;
static bool l_HandlerLog = true;
static bool l_HandlerAccess = false;     // rt_net: apply the event handlers' CanAccessObject test before processing
static bool l_HandlerAccepted = false;

static std::string EpName(int e) { char b[16]; snprintf(b, sizeof b, "e%03d", e); return b; }
static std::string ZName(int z) { return "z" + std::to_string(z); }
static int EpId(const String& n) { return std::stoi(n.SubStr(1).GetData()); }
static int ZId(const String& n) { return std::stoi(n.SubStr(1).GetData()); }

static std::vector<std::string> Split(const std::string& s, char sep)
{
	std::vector<std::string> r;
	std::string cur;
	for (char ch : s) { if (ch == sep) { r.push_back(cur); cur.clear(); } else cur += ch; }
	r.push_back(cur);
	return r;
}

static std::vector<int> IdList(const std::string& s)
{
	std::vector<int> r;
	if (s.empty() || s == "-") return r;
	for (auto& t : Split(s, '.')) r.push_back(std::stoi(t));
	return r;
}

static Value RelayHandler(const MessageOrigin::Ptr& origin, const Dictionary::Ptr& params)
{
	l_HandlerRan = true;
	l_SeenFromZone = origin->FromZone ? std::string(origin->FromZone->GetName().GetData()) : "-";
	if (l_HandlerAccess) {
		// what every event handler in clusterevents.cpp does before it processes and re-relays
		if (origin->FromZone && !origin->FromZone->CanAccessObject(l_HandlerSecobj))
			return Empty;
		l_HandlerAccepted = true;
	}
	// what every event handler in clusterevents.cpp does: a fresh message, relayed with the origin it was given
	Dictionary::Ptr message = new Dictionary({ { "jsonrpc", "2.0" }, { "method", "verif::Relay" }, { "params", params } });
	l_Listener->SyncRelayMessage(origin, l_HandlerSecobj, message, l_HandlerLog);
	return Empty;
}

static void InitOnce()
{
	if (l_Init) return;
	l_Init = true;
	l_Ssl = new boost::asio::ssl::context(boost::asio::ssl::context::tls);
	LoadConfig("object CheckCommand \"rtdummy\" { command = [ \"/bin/true\" ] }\n");
	l_Listener = new ApiListener();
	ApiListener::m_Instance = l_Listener;
	{
		std::unique_lock<std::mutex> lock(l_Listener->m_LogLock);
		l_Listener->OpenLogFile();
	}
	ApiFunction::Register("verif::Relay", new ApiFunction(RelayHandler));
}

static void RemoveObject(const ConfigObject::Ptr& obj)
{
	if (!obj) return;
	Type::Ptr type = obj->GetReflectionType();
	String name = obj->GetName();
	try { obj->Deactivate(true); } catch (...) {}
	obj->Unregister();
	ConfigItem::Ptr item = ConfigItem::GetByTypeAndName(type, name);
	if (item) item->Unregister();
}

static void ClearClients()
{
	for (const Endpoint::Ptr& ep : ConfigType::GetObjectsByType<Endpoint>()) {
		std::unique_lock<std::mutex> lock(ep->m_ClientsLock);
		ep->m_Clients.clear();
	}
}

static void Cleanup()
{
	if (!l_Init) return;
	ClearClients();
	l_Listener->m_LocalEndpoint = nullptr;
	for (auto it = l_Objects.rbegin(); it != l_Objects.rend(); ++it) RemoveObject(*it);
	l_Objects.clear();
	l_ZoneIds.clear(); l_ZoneEps.clear(); l_ZoneGlobal.clear();
}

// rt_topo z0=<parent|->,<g|n>,<e.e|-> z1=...
VOP(rt_topo)
{
	InitOnce();
	Cleanup();
	std::ostringstream c;
	std::vector<std::string> znames, enames, hnames;
	for (int z = 0; a.has("z" + std::to_string(z)); z++) {
		auto f = Split(a.str("z" + std::to_string(z)), ',');
		if (f.size() != 3) throw std::runtime_error("bad zone spec");
		std::vector<int> eps = IdList(f[2]);
		for (int e : eps) { c << "object Endpoint \"" << EpName(e) << "\" { }\n"; enames.push_back(EpName(e)); }
		c << "object Zone \"" << ZName(z) << "\" {\n";
		if (f[0] != "-") c << "  parent = \"" << ZName(std::stoi(f[0])) << "\"\n";
		c << "  global = " << (f[1] == "g" ? "true" : "false") << "\n  endpoints = [ ";
		for (size_t i = 0; i < eps.size(); i++) c << (i ? ", " : "") << "\"" << EpName(eps[i]) << "\"";
		c << " ]\n}\n";
		// the security object of the event: a Host in that zone (hosts cannot live in global zones: a CheckCommand there)
		if (f[1] == "g")
			c << "object CheckCommand \"rh" << z << "\" {\n  command = [ \"/bin/true\" ]\n  zone = \"" << ZName(z) << "\"\n}\n";
		else
			c << "object Host \"rh" << z << "\" {\n  check_command = \"rtdummy\"\n  enable_active_checks = false\n  zone = \"" << ZName(z) << "\"\n}\n";
		znames.push_back(ZName(z)); hnames.push_back("rh" + std::to_string(z));
		l_ZoneIds.push_back(z); l_ZoneEps[z] = eps; l_ZoneGlobal[z] = (f[1] == "g");
	}
	if (getenv("RT_DEBUG")) { Logger::EnableConsoleLog(); std::cerr << c.str(); }
	LoadConfig(c.str());
	for (auto& n : enames) l_Objects.push_back(Endpoint::GetByName(n));
	for (auto& n : znames) l_Objects.push_back(Zone::GetByName(n));
	for (size_t i = 0; i < hnames.size(); i++)
		l_Objects.push_back(l_ZoneGlobal[l_ZoneIds[i]] ? ConfigObject::Ptr(CheckCommand::GetByName(hnames[i])) : ConfigObject::Ptr(Host::GetByName(hnames[i])));
	for (auto& o : l_Objects) if (!o) throw std::runtime_error("topology object missing");
}

static long FileSize(const String& path)
{
	struct stat sb;
	if (stat(path.CStr(), &sb) < 0) return 0;
	return (long)sb.st_size;
}

static long LogSize()
{
	// flush by closing; the file is re-opened (append) right away
	std::unique_lock<std::mutex> lock(l_Listener->m_LogLock);
	l_Listener->CloseLogFile();
	long s = FileSize(ApiListener::GetApiDir() + "log/current");
	l_Listener->OpenLogFile();
	return s;
}

static JsonRpcConnection::Ptr MakeClient(const std::string& identity, bool authenticated)
{
	Shared<AsioTlsStream>::Ptr stream = Shared<AsioTlsStream>::Make(l_Io, *l_Ssl);
	return new JsonRpcConnection(identity, authenticated, stream, RoleServer, l_Io);
}

static std::string Canon(const std::vector<int>& eps, int lz)
{
	// local-zone endpoints by name, foreign zones as "z<k>*<count>": which endpoint of a foreign zone is
	// chosen depends on pointer order, so it is not part of the canonical line
	std::vector<std::string> parts;
	std::map<int, int> perZone;
	for (int e : eps) {
		Endpoint::Ptr ep = Endpoint::GetByName(EpName(e));
		int z = ZId(ep->GetZone()->GetName());
		if (z == lz) parts.push_back(EpName(e)); else perZone[z]++;
	}
	for (auto& kv : perZone) parts.push_back(ZName(kv.first) + "*" + std::to_string(kv.second));
	std::sort(parts.begin(), parts.end());
	std::string r;
	for (auto& p : parts) { if (!r.empty()) r += ","; r += p; }
	return r.empty() ? "-" : r;
}

static std::string Names(std::vector<int> eps)
{
	std::sort(eps.begin(), eps.end());
	std::string r;
	for (int e : eps) { if (!r.empty()) r += "."; r += std::to_string(e); }
	return r.empty() ? "-" : r;
}

// rt_step me=<e> conn=<e.e|-> old=<e.e|-> via=local|recv|direct|anon from=<e> oz=<z|-> tz=<z|-> sec=host|zone log=0|1
//   local : SyncRelayMessage(nullptr, ...)                          (event originated here)
//   recv  : connection(from)->MessageHandler(message with originZone=oz) -> verif::Relay handler -> SyncRelayMessage(origin built by the real code)
//   direct: SyncRelayMessage with a hand-made MessageOrigin {FromClient = connection(from), FromZone = oz}
//   anon  : like recv, but the connection is an unauthenticated one (no endpoint)
VOP(rt_step)
{
	int me = a.num("me");
	Endpoint::Ptr local = Endpoint::GetByName(EpName(me));
	if (!local) throw std::runtime_error("unknown local endpoint");
	l_Listener->SetIdentity(EpName(me));
	l_Listener->m_LocalEndpoint = local;
	int lz = ZId(local->GetZone()->GetName());

	ClearClients();
	double now = Utility::GetTime();
	std::map<int, JsonRpcConnection::Ptr> newest, stale;
	for (int e : IdList(a.str("conn", "-"))) {
		Endpoint::Ptr ep = Endpoint::GetByName(EpName(e));
		if (!ep) throw std::runtime_error("unknown endpoint in conn");
		JsonRpcConnection::Ptr cl = MakeClient(EpName(e), true);
		newest[e] = cl;
		std::unique_lock<std::mutex> lock(ep->m_ClientsLock);
		ep->m_Clients.insert(cl);
	}
	for (int e : IdList(a.str("old", "-"))) {
		// a second, older connection of an endpoint: SyncSendMessage must use the newest only
		if (!newest.count(e)) continue;
		Endpoint::Ptr ep = Endpoint::GetByName(EpName(e));
		JsonRpcConnection::Ptr cl = MakeClient(EpName(e), true);
		cl->m_Timestamp = now - 30;
		stale[e] = cl;
		std::unique_lock<std::mutex> lock(ep->m_ClientsLock);
		ep->m_Clients.insert(cl);
	}
	for (const Endpoint::Ptr& ep : ConfigType::GetObjectsByType<Endpoint>()) {
		ep->SetLocalLogPosition(0);
		ep->SetRemoteLogPosition(0);
	}

	ConfigObject::Ptr secobj;
	std::string tz = a.str("tz", "-");
	if (tz != "-") {
		if (a.str("sec", "host") == "zone") secobj = Zone::GetByName(ZName(std::stoi(tz)));
		else if (l_ZoneGlobal[std::stoi(tz)]) secobj = CheckCommand::GetByName("rh" + tz);
		else secobj = Host::GetByName("rh" + tz);
		if (!secobj) throw std::runtime_error("unknown target zone");
	}
	bool log = a.num("log", 1) != 0;
	std::string via = a.str("via", "local");
	std::string oz = a.str("oz", "-");

	long before = LogSize();
	std::string fzSeen = "-";
	Dictionary::Ptr params = new Dictionary({ { "case", (double)CaseId() } });

	if (via == "local") {
		Dictionary::Ptr message = new Dictionary({ { "jsonrpc", "2.0" }, { "method", "verif::Relay" }, { "params", params } });
		l_Listener->SyncRelayMessage(nullptr, secobj, message, log);
	} else {
		JsonRpcConnection::Ptr client;
		if (via == "anon") {
			client = MakeClient("anonymous-peer", false);
		} else {
			int from = a.num("from");
			auto it = newest.find(from);
			client = (it != newest.end()) ? it->second : MakeClient(EpName(from), true);
		}
		if (via == "direct") {
			MessageOrigin::Ptr origin = new MessageOrigin();
			origin->FromClient = client;
			if (oz != "-") origin->FromZone = Zone::GetByName(ZName(std::stoi(oz)));
			fzSeen = origin->FromZone ? std::string(origin->FromZone->GetName().GetData()) : "-";
			Dictionary::Ptr message = new Dictionary({ { "jsonrpc", "2.0" }, { "method", "verif::Relay" }, { "params", params } });
			l_Listener->SyncRelayMessage(origin, secobj, message, log);
		} else {
			Dictionary::Ptr message = new Dictionary({ { "jsonrpc", "2.0" }, { "method", "verif::Relay" }, { "params", params } });
			if (oz != "-") message->Set("originZone", String(ZName(std::stoi(oz))));
			l_HandlerRan = false; l_HandlerSecobj = secobj; l_HandlerLog = log; l_SeenFromZone = "-";
			client->MessageHandler(message);
			l_HandlerSecobj = nullptr;
			if (!l_HandlerRan) { Out("rt handler-not-run"); return; }
			fzSeen = l_SeenFromZone;
		}
	}

	// SendMessage posts to the connection's strand; run the posted handlers on this thread
	l_Io.restart();
	l_Io.poll();
	long after = LogSize();

	std::vector<int> sent, skipped;
	int dup = 0, staleMsgs = 0, badOz = 0;
	std::string ozOut = "-";
	bool ozSet = false;
	for (auto& kv : newest) {
		auto& q = kv.second->m_OutgoingMessagesQueue;
		if (q.empty()) continue;
		sent.push_back(kv.first);
		if (q.size() > 1) dup += (int)q.size() - 1;
		for (const String& js : q) {
			Dictionary::Ptr m = JsonDecode(js);
			std::string o = m->Contains("originZone") ? std::string(((String)m->Get("originZone")).GetData()) : "-";
			if (!ozSet) { ozOut = o; ozSet = true; } else if (o != ozOut) badOz++;
			if ((double)m->Get("ts") != now) badOz++;
		}
	}
	for (auto& kv : stale) staleMsgs += (int)kv.second->m_OutgoingMessagesQueue.size();
	for (const Endpoint::Ptr& ep : ConfigType::GetObjectsByType<Endpoint>()) {
		if (ep->GetLocalLogPosition() == now) skipped.push_back(EpId(ep->GetName()));
	}

	std::ostringstream o;
	o << "rt fz=" << fzSeen << " sent=" << Canon(sent, lz) << " skip=" << Canon(skipped, lz)
	  << " persist=" << (after > before ? 1 : 0) << " ozout=" << (sent.empty() ? "-" : ozOut)
	  << " dup=" << dup << " stale=" << staleMsgs << " bad=" << badOz;
	Out(o.str());
	Out("rtd sent=" + Names(sent) + " skip=" + Names(skipped) + " persist=" + (after > before ? "1" : "0"));
	ClearClients();
}

// rt_net s=<e> tz=<z> links=<a-b.c-d|-> sched=fifo|lifo|rnd seed=<n> mode=relay|nextcheck
// One event, the whole network, real code at every node: the event originates at endpoint s (about the security
// object of zone tz); every message the real SyncRelayMessage puts on a connection's outgoing queue is kept in flight
// (the queued JSON itself) and later delivered, in the chosen schedule, to the real JsonRpcConnection::MessageHandler
// of the receiving node (identity, local endpoint and connectivity row switched per delivery; connectivity = the
// symmetric link set).  mode=relay: the registered verif::Relay handler (CanAccessObject test, then SyncRelayMessage
// with the origin the real code built).  mode=nextcheck: the REAL handler chain event::SetNextCheck ->
// ClusterEvents::NextCheckChangedAPIHandler -> Checkable::SetNextCheck -> OnNextCheckChanged ->
// ClusterEvents::NextCheckChangedHandler -> ApiListener::RelayMessage (asynchronous relay queue, joined) ->
// SyncRelayMessage; "processed" = the handler changed the host's next_check.
VOP(rt_net)
{
	int s = a.num("s");
	std::string tz = a.str("tz", "-");
	std::string mode = a.str("mode", "relay");
	std::string sched = a.str("sched", "fifo");
	unsigned long rng = (unsigned long)a.num("seed", 1) * 2654435761UL + 12345UL;
	if (tz == "-") throw std::runtime_error("rt_net needs a target zone");

	std::map<int, std::set<int>> conn;
	std::string links = a.str("links", "-");
	if (links != "-" && !links.empty()) {
		for (auto& p : Split(links, '.')) {
			auto ab = Split(p, '-');
			if (ab.size() != 2) throw std::runtime_error("bad link");
			int x = std::stoi(ab[0]), y = std::stoi(ab[1]);
			if (x == y) continue;
			conn[x].insert(y); conn[y].insert(x);
		}
	}

	ConfigObject::Ptr secobj;
	Host::Ptr host;
	if (l_ZoneGlobal[std::stoi(tz)]) secobj = CheckCommand::GetByName("rh" + tz);
	else { host = Host::GetByName("rh" + tz); secobj = host; }
	if (!secobj) throw std::runtime_error("unknown target zone");
	if (mode == "nextcheck" && !host) throw std::runtime_error("mode=nextcheck needs a host target");

	struct Msg { int from; int to; Dictionary::Ptr json; };
	std::deque<Msg> q;
	std::vector<int> proc;
	int deliv = 0;
	size_t neps = 0;
	for (auto& kv : l_ZoneEps) neps += kv.second.size();
	double now = Utility::GetTime();
	double value = now + 600 + (double)(CaseId() % 97);

	std::map<int, JsonRpcConnection::Ptr> newest;
	auto setup = [&](int me) {
		Endpoint::Ptr local = Endpoint::GetByName(EpName(me));
		if (!local) throw std::runtime_error("unknown endpoint");
		l_Listener->SetIdentity(EpName(me));
		l_Listener->m_LocalEndpoint = local;
		ClearClients();
		newest.clear();
		for (int e : conn[me]) {
			Endpoint::Ptr ep = Endpoint::GetByName(EpName(e));
			if (!ep) throw std::runtime_error("unknown endpoint in links");
			JsonRpcConnection::Ptr cl = MakeClient(EpName(e), true);
			newest[e] = cl;
			std::unique_lock<std::mutex> lock(ep->m_ClientsLock);
			ep->m_Clients.insert(cl);
		}
		for (const Endpoint::Ptr& ep : ConfigType::GetObjectsByType<Endpoint>()) {
			ep->SetLocalLogPosition(0);
			ep->SetRemoteLogPosition(0);
		}
	};
	auto collect = [&](int me) {
		l_Listener->m_RelayQueue.Join();
		l_Io.restart();
		l_Io.poll();
		for (auto& kv : newest)
			for (const String& js : kv.second->m_OutgoingMessagesQueue)
				q.push_back(Msg{ me, kv.first, JsonDecode(js) });
		ClearClients();
		newest.clear();
	};

	bool wasActive = l_Listener->IsActive();
	try {
		if (mode == "nextcheck") l_Listener->SetActive(true, true);
		// the event originates at s
		setup(s);
		if (mode == "nextcheck") {
			host->SetNextCheck(0, true);
			host->SetNextCheck(value, false, Empty);
		} else {
			Dictionary::Ptr params = new Dictionary({ { "case", (double)CaseId() } });
			Dictionary::Ptr message = new Dictionary({ { "jsonrpc", "2.0" }, { "method", "verif::Relay" }, { "params", params } });
			l_Listener->SyncRelayMessage(nullptr, secobj, message, false);
		}
		collect(s);
		proc.push_back(s);

		size_t guard = 4 * neps + 16;
		while (!q.empty() && (size_t)deliv < guard) {
			size_t idx = 0;
			if (sched == "lifo") idx = q.size() - 1;
			else if (sched == "rnd") { rng = rng * 6364136223846793005UL + 1442695040888963407UL; idx = (size_t)((rng >> 33) % q.size()); }
			Msg m = q[idx];
			q.erase(q.begin() + idx);
			deliv++;
			setup(m.to);
			JsonRpcConnection::Ptr client;
			auto it = newest.find(m.from);
			client = (it != newest.end()) ? it->second : MakeClient(EpName(m.from), true);
			bool processed = false;
			if (mode == "nextcheck") {
				host->SetNextCheck(0, true);
				client->MessageHandler(m.json);
				l_Listener->m_RelayQueue.Join();
				processed = (host->GetNextCheck() == value);
			} else {
				l_HandlerRan = false; l_HandlerAccepted = false; l_HandlerAccess = true;
				l_HandlerSecobj = secobj; l_HandlerLog = false; l_SeenFromZone = "-";
				client->MessageHandler(m.json);
				processed = l_HandlerAccepted;
				l_HandlerAccess = false; l_HandlerSecobj = nullptr;
			}
			collect(m.to);
			if (processed) proc.push_back(m.to);
		}
	} catch (...) {
		l_HandlerAccess = false; l_HandlerSecobj = nullptr;
		l_Listener->m_RelayQueue.Join();
		if (mode == "nextcheck") l_Listener->SetActive(wasActive, true);
		ClearClients();
		throw;
	}
	l_Listener->m_RelayQueue.Join();
	if (mode == "nextcheck") l_Listener->SetActive(wasActive, true);

	std::string p;
	for (int e : proc) { if (!p.empty()) p += "."; p += std::to_string(e); }
	Out("rtn done");
	Out("rtnd deliv=" + std::to_string(deliv) + " left=" + std::to_string(q.size()) + " proc=" + (p.empty() ? "-" : p));
}

// rt_netm s=<e.e.e> ts=<d.d.d> tz=<z> links=<..> sched=fifo|lifo|rnd seed=<n> mode=relay|nextcheck ilv=0|1 tick=0|1
// SEVERAL distinct events in one network, real code at every node (as rt_net), and the receivers' "ignore old messages"
// test live: every node keeps its own Endpoint::remote_log_position per sending endpoint across deliveries (rt_net resets
// them: one event cannot meet its own time stamp twice on one connection).  Event k originates at endpoint s[k] when the
// virtual clock reads base+ts[k] (equal values = two events relayed within one clock tick; a smaller value = the clock was
// stepped back); every relay stamps the message with the clock of that moment (the real SyncRelayMessage does), tick=1
// advances the clock by one second per delivery.  ilv=1: all events originate first, then deliveries are interleaved;
// ilv=0: each event runs to quiescence before the next originates.  A connection is a FIFO byte stream: the schedule picks
// a CONNECTION that has something in flight (oldest message / newest message / seeded random) and delivers that
// connection's oldest message.  Output: "rtm done" (compared), then for the oracle "rtmd left= log=<from>-<to>-<ev>-<ts
// offset>-<handler ran: 0|1, 2 = not observable in mode=nextcheck>..." and per event "rtme ev= s= deliv= proc=".
VOP(rt_netm)
{
	std::vector<int> ss = IdList(a.str("s", "-"));
	std::vector<int> tso = IdList(a.str("ts", "-"));
	std::string tz = a.str("tz", "-");
	std::string mode = a.str("mode", "relay");
	std::string sched = a.str("sched", "fifo");
	bool ilv = a.num("ilv", 1) != 0;
	bool tick = a.num("tick", 0) != 0 && ilv;   // ticking while events still originate at fixed offsets would step the clock back
	unsigned long rng = (unsigned long)a.num("seed", 1) * 2654435761UL + 12345UL;
	if (tz == "-" || ss.empty() || ss.size() != tso.size()) throw std::runtime_error("rt_netm needs tz, s and ts of equal length");
	size_t nev = ss.size();

	std::map<int, std::set<int>> conn;
	std::string links = a.str("links", "-");
	if (links != "-" && !links.empty()) {
		for (auto& p : Split(links, '.')) {
			auto ab = Split(p, '-');
			if (ab.size() != 2) throw std::runtime_error("bad link");
			int x = std::stoi(ab[0]), y = std::stoi(ab[1]);
			if (x == y) continue;
			conn[x].insert(y); conn[y].insert(x);
		}
	}

	ConfigObject::Ptr secobj;
	Host::Ptr host;
	if (l_ZoneGlobal[std::stoi(tz)]) secobj = CheckCommand::GetByName("rh" + tz);
	else { host = Host::GetByName("rh" + tz); secobj = host; }
	if (!secobj) throw std::runtime_error("unknown target zone");
	if (mode == "nextcheck" && !host) throw std::runtime_error("mode=nextcheck needs a host target");

	struct Msg { int from; int to; int ev; Dictionary::Ptr json; };
	std::deque<Msg> q;
	std::vector<std::vector<int>> proc(nev);
	std::vector<int> deliv(nev, 0);
	std::ostringstream dlog;
	bool firstLog = true;
	size_t neps = 0;
	for (auto& kv : l_ZoneEps) neps += kv.second.size();
	double base = Utility::GetTime();
	double clock = base;
	double value = base + 600 + (double)(CaseId() % 97);
	std::map<std::pair<int, int>, double> rlp;   // (node, sending endpoint) -> that node's remote_log_position for it

	std::map<int, JsonRpcConnection::Ptr> newest;
	auto setup = [&](int me) {
		Endpoint::Ptr local = Endpoint::GetByName(EpName(me));
		if (!local) throw std::runtime_error("unknown endpoint");
		l_Listener->SetIdentity(EpName(me));
		l_Listener->m_LocalEndpoint = local;
		ClearClients();
		newest.clear();
		for (int e : conn[me]) {
			Endpoint::Ptr ep = Endpoint::GetByName(EpName(e));
			if (!ep) throw std::runtime_error("unknown endpoint in links");
			JsonRpcConnection::Ptr cl = MakeClient(EpName(e), true);
			newest[e] = cl;
			std::unique_lock<std::mutex> lock(ep->m_ClientsLock);
			ep->m_Clients.insert(cl);
		}
		for (const Endpoint::Ptr& ep : ConfigType::GetObjectsByType<Endpoint>()) {
			ep->SetLocalLogPosition(0);
			auto it = rlp.find({ me, EpId(ep->GetName()) });
			ep->SetRemoteLogPosition(it == rlp.end() ? 0 : it->second);
		}
	};
	auto collect = [&](int me, int ev) {
		l_Listener->m_RelayQueue.Join();
		l_Io.restart();
		l_Io.poll();
		for (auto& kv : newest)
			for (const String& js : kv.second->m_OutgoingMessagesQueue)
				q.push_back(Msg{ me, kv.first, ev, JsonDecode(js) });
		// this node's log positions survive until its next turn
		for (const Endpoint::Ptr& ep : ConfigType::GetObjectsByType<Endpoint>()) {
			double p = ep->GetRemoteLogPosition();
			if (p != 0) rlp[{ me, EpId(ep->GetName()) }] = p;
		}
		ClearClients();
		newest.clear();
	};
	auto originate = [&](size_t k) {
		clock = base + tso[k];
		Utility::VerifSetTime(clock);
		setup(ss[k]);
		if (mode == "nextcheck") {
			host->SetNextCheck(0, true);
			host->SetNextCheck(value + (double)k, false, Empty);
		} else {
			Dictionary::Ptr params = new Dictionary({ { "case", (double)CaseId() }, { "ev", (double)k } });
			Dictionary::Ptr message = new Dictionary({ { "jsonrpc", "2.0" }, { "method", "verif::Relay" }, { "params", params } });
			l_Listener->SyncRelayMessage(nullptr, secobj, message, false);
		}
		collect(ss[k], (int)k);
		proc[k].push_back(ss[k]);
	};
	size_t total = 0, guard = nev * (4 * neps + 16);
	auto drain = [&]() {
		while (!q.empty() && total < guard) {
			size_t pick = 0;
			if (sched == "lifo") pick = q.size() - 1;
			else if (sched == "rnd") { rng = rng * 6364136223846793005UL + 1442695040888963407UL; pick = (size_t)((rng >> 33) % q.size()); }
			// the oldest message of the picked message's connection
			size_t idx = pick;
			for (size_t i = 0; i < pick; i++)
				if (q[i].from == q[pick].from && q[i].to == q[pick].to) { idx = i; break; }
			Msg m = q[idx];
			q.erase(q.begin() + idx);
			total++;
			deliv[m.ev]++;
			if (tick) { clock += 1; Utility::VerifSetTime(clock); }
			setup(m.to);
			JsonRpcConnection::Ptr client;
			auto it = newest.find(m.from);
			client = (it != newest.end()) ? it->second : MakeClient(EpName(m.from), true);
			bool processed = false;
			int ran = 2;
			if (mode == "nextcheck") {
				host->SetNextCheck(0, true);
				client->MessageHandler(m.json);
				l_Listener->m_RelayQueue.Join();
				processed = (host->GetNextCheck() == value + (double)m.ev);
			} else {
				l_HandlerRan = false; l_HandlerAccepted = false; l_HandlerAccess = true;
				l_HandlerSecobj = secobj; l_HandlerLog = false; l_SeenFromZone = "-";
				client->MessageHandler(m.json);
				processed = l_HandlerAccepted;
				ran = l_HandlerRan ? 1 : 0;
				l_HandlerAccess = false; l_HandlerSecobj = nullptr;
			}
			double mts = m.json->Contains("ts") ? (double)m.json->Get("ts") : base;
			dlog << (firstLog ? "" : ".") << m.from << "-" << m.to << "-" << m.ev << "-" << (long)(mts - base) << "-" << ran;
			firstLog = false;
			collect(m.to, m.ev);
			if (processed) proc[m.ev].push_back(m.to);
		}
	};

	bool wasActive = l_Listener->IsActive();
	try {
		if (mode == "nextcheck") l_Listener->SetActive(true, true);
		for (size_t k = 0; k < nev; k++) {
			originate(k);
			if (!ilv) drain();
		}
		drain();
	} catch (...) {
		l_HandlerAccess = false; l_HandlerSecobj = nullptr;
		l_Listener->m_RelayQueue.Join();
		if (mode == "nextcheck") l_Listener->SetActive(wasActive, true);
		ClearClients();
		Utility::VerifSetTime(base);
		throw;
	}
	l_Listener->m_RelayQueue.Join();
	if (mode == "nextcheck") l_Listener->SetActive(wasActive, true);
	for (const Endpoint::Ptr& ep : ConfigType::GetObjectsByType<Endpoint>()) ep->SetRemoteLogPosition(0);
	Utility::VerifSetTime(base);

	Out("rtm done");
	Out("rtmd left=" + std::to_string(q.size()) + " log=" + (firstLog ? std::string("-") : dlog.str()));
	for (size_t k = 0; k < nev; k++) {
		std::string p;
		for (int e : proc[k]) { if (!p.empty()) p += "."; p += std::to_string(e); }
		Out("rtme ev=" + std::to_string(k) + " s=" + std::to_string(ss[k]) + " deliv=" + std::to_string(deliv[k]) + " proc=" + (p.empty() ? "-" : p));
	}
}

// rt_reload order=<z.z.z>: run Zone::OnAllConfigLoaded again for every zone in the given activation order
// (top-down, bottom-up, random), starting from zones that have not resolved anything yet, then report
// GetParent() and GetAllParentsRaw() of every zone.  Later rt_step ops route over the chains built here.
VOP(rt_reload)
{
	std::vector<int> order = IdList(a.str("order", "-"));
	for (int z : l_ZoneIds) {
		Zone::Ptr zone = Zone::GetByName(ZName(z));
		zone->m_Parent = nullptr;
		zone->m_AllParents.clear();
	}
	for (const Endpoint::Ptr& ep : ConfigType::GetObjectsByType<Endpoint>()) ep->m_Zone = nullptr;
	bool failed = false;
	for (int z : order) {
		Zone::Ptr zone = Zone::GetByName(ZName(z));
		if (!zone) throw std::runtime_error("unknown zone in order");
		try { zone->OnAllConfigLoaded(); } catch (const std::exception&) { failed = true; break; }
	}
	if (failed) { Out("rtl error"); return; }
	std::ostringstream o;
	o << "rtl";
	for (int z : order) {
		Zone::Ptr zone = Zone::GetByName(ZName(z));
		Zone::Ptr par = zone->GetParent();
		o << " z" << z << "=" << (par ? std::to_string(ZId(par->GetName())) : std::string("-")) << ":";
		std::vector<Zone::Ptr> all = zone->GetAllParentsRaw();
		if (all.empty()) o << "-";
		for (size_t i = 0; i < all.size(); i++) o << (i ? "." : "") << ZId(all[i]->GetName());
	}
	Out(o.str());
}

static struct RtCaseEnd {
	RtCaseEnd() { RegisterCaseEnd([]() { Cleanup(); }); }
} l_RtCaseEnd;
