// C17 fixture: the REAL ConfigWriter, ConfigCompiler and ConfigObjectUtility::CreateObject/DeleteObject
// in the scratch `_api` package.  Observations: emitted bytes, values read back through the reflection
// API, registry (objects / config items), files below api/packages/_api, a digest of the global
// namespace and of all other objects.  Never log text.
#include "vdrive.hpp"
#include "base/utility.hpp"
#include "base/configwriter.hpp"
#include "base/configtype.hpp"
#include "base/serializer.hpp"
#include "base/json.hpp"
#include "base/namespace.hpp"
#include "base/scriptglobal.hpp"
#include "base/scriptframe.hpp"
#include "base/function.hpp"
#include "base/exception.hpp"
#include "config/configcompiler.hpp"
#include "config/configitem.hpp"
#include "config/expression.hpp"
#include "remote/configobjectutility.hpp"
#include "remote/configpackageutility.hpp"
#include "icinga/host.hpp"
#include "icinga/service.hpp"
#include <cstdio>
#include <fstream>
#include <cstring>
#include <set>
#include <map>

using namespace icinga;

// ---------------------------------------------------------------- value codec (script tokens)
//   V := n | t | f | d DEC ; | s HEX ; | a V* ; | o (HEX : V)* ;
static Value CwDec(const std::string& s, size_t& p)
{
	if (p >= s.size()) throw std::runtime_error("cw value: truncated");
	char c = s[p++];
	switch (c) {
	case 'n': return Empty;
	case 't': return true;
	case 'f': return false;
	case 'd': {
		size_t e = s.find(';', p);
		std::string d = s.substr(p, e - p);
		p = e + 1;
		return strtod(d.c_str(), nullptr);
	}
	case 's': {
		size_t e = s.find(';', p);
		std::string h = s.substr(p, e - p);
		p = e + 1;
		return String(HexDec(h.empty() ? "-" : h));
	}
	case 'a': {
		ArrayData items;
		while (s.at(p) != ';') items.push_back(CwDec(s, p));
		p++;
		return new Array(std::move(items));
	}
	case 'o': {
		Dictionary::Ptr d = new Dictionary();
		while (s.at(p) != ';') {
			size_t e = s.find(':', p);
			std::string h = s.substr(p, e - p);
			p = e + 1;
			Value v = CwDec(s, p);
			d->Set(HexDec(h.empty() ? "-" : h), v);
		}
		p++;
		return d;
	}
	}
	throw std::runtime_error("cw value: bad tag");
}

static Value CwDecode(const std::string& s) { size_t p = 0; return CwDec(s, p); }

static std::string HexOrEmpty(const std::string& s) { return s.empty() ? "" : HexEnc(s); }

// numbers read back: the shortest fixed notation with at least six decimals that reads back as the same double
// (computed here independently of ConfigWriter), trailing zeros stripped
static std::string CwNum(double d)
{
	if (d != d) return "dnan;";
	if (d - d != 0) return d > 0 ? "dinf;" : "d-inf;";
	static char buf[2400];
	for (int p = 6; p <= 1100; p++) {
		snprintf(buf, sizeof(buf), "%.*f", p, d);
		if (strtod(buf, nullptr) == d) break;
	}
	std::string r = buf;
	while (!r.empty() && r.back() == '0') r.pop_back();
	if (!r.empty() && r.back() == '.') r.pop_back();
	if (r == "-0") r = "0";
	return "d" + r + ";";
}

static std::string CwEnc(const Value& v)
{
	if (v.IsString()) return "s" + HexOrEmpty(v.Get<String>().GetData()) + ";";     // before IsEmpty(): "" counts as empty
	if (v.IsEmpty()) return "n";
	if (v.IsBoolean()) return v.ToBool() ? "t" : "f";
	if (v.IsNumber()) return CwNum(v);
	if (v.IsObjectType<Array>()) {
		Array::Ptr a = v;
		std::string r = "a";
		ObjectLock l(a);
		for (const Value& i : a) r += CwEnc(i);
		return r + ";";
	}
	if (v.IsObjectType<Dictionary>()) {
		Dictionary::Ptr d = v;
		std::string r = "o";
		ObjectLock l(d);
		for (const Dictionary::Pair& kv : d) r += HexOrEmpty(kv.first.GetData()) + ":" + CwEnc(kv.second);
		return r + ";";
	}
	return "x";      // some other object: never produced by the writer skeleton
}

static std::vector<std::string> SplitComma(const std::string& s)
{
	std::vector<std::string> r;
	if (s.empty() || s == "-") return r;
	size_t p = 0;
	while (true) {
		size_t e = s.find(',', p);
		r.push_back(s.substr(p, e == std::string::npos ? e : e - p));
		if (e == std::string::npos) break;
		p = e + 1;
	}
	return r;
}

// ---------------------------------------------------------------- writer tie
VOP(cw_str)
{
	std::ostringstream o;
	ConfigWriter::EmitString(o, String(HexDec(a.str("s", "-"))));
	Out("cw_str " + HexEnc(o.str()));
}

VOP(cw_id)
{
	std::ostringstream o;
	try {
		ConfigWriter::EmitIdentifier(o, String(HexDec(a.str("s", "-"))), a.num("ia", 1) != 0);
		Out("cw_id " + HexEnc(o.str()));
	} catch (const std::exception&) {
		Out("cw_id EXC");
	}
}

VOP(cw_val)
{
	std::ostringstream o;
	ConfigWriter::EmitValue(o, (int)a.num("ind", 2), CwDecode(a.str("v", "n")));
	Out("cw_val " + HexEnc(o.str()));
}

static Array::Ptr Templates(const Args& a)
{
	if (!a.has("tmpl")) return nullptr;
	ArrayData t;
	for (auto& h : SplitComma(a.str("tmpl"))) t.push_back(String(HexDec(h)));
	return new Array(std::move(t));
}

VOP(cw_item)
{
	Type::Ptr type = Type::GetByName(a.str("type", "Host"));
	Dictionary::Ptr attrs = a.has("attrs") ? Dictionary::Ptr(CwDecode(a.str("attrs"))) : nullptr;
	try {
		String cfg = ConfigObjectUtility::CreateObjectConfig(type, String(HexDec(a.str("name", "-"))), a.num("ign", 0) != 0, Templates(a), attrs);
		Out("cw_item " + HexEnc(cfg.GetData()));
	} catch (const std::exception&) {
		Out("cw_item EXC");
	}
}

// ---------------------------------------------------------------- lexer / literal parser tie
// compile `x = <literal text>` with the real ConfigCompiler, evaluate in a fresh frame, read x back
static void RoundTrip(const char *tag, const std::string& lit)
{
	std::string text = "x = " + lit + "\n";
	try {
		std::unique_ptr<Expression> expr = ConfigCompiler::CompileText("<cw>", text);
		if (!expr) { Out(std::string(tag) + " ERR"); return; }
		Dictionary::Ptr self = new Dictionary();
		ScriptFrame frame(true, self);
		expr->Evaluate(frame);
		ObjectLock l(self);
		if (self->GetLength() != 1 || !self->Contains("x")) { Out(std::string(tag) + " EXTRA " + CwEnc(self)); return; }
		Out(std::string(tag) + " " + CwEnc(self->Get("x")));
	} catch (const std::exception&) {
		Out(std::string(tag) + " ERR");
	}
}

VOP(cw_rt)
{
	std::ostringstream o;
	ConfigWriter::EmitValue(o, (int)a.num("ind", 2), CwDecode(a.str("v", "n")));
	RoundTrip("cw_rt", o.str());
}

VOP(cw_rtraw)
{
	RoundTrip("cw_rtraw", HexDec(a.str("t", "-")));
}

// ---------------------------------------------------------------- create / delete transactions
struct Tracked { std::string type; std::string name; };
static std::vector<Tracked> l_Tracked;
static std::string l_GlobalsBase, l_OthersBase;
static bool l_CwInit = false;
static std::set<std::pair<std::string, std::string>> l_BaseObjects;     // every object that existed when the case began
static bool l_BaseTaken = false;
static std::set<std::string> l_BaseFiles;      // object files that existed when the case began
static std::map<std::string, size_t> l_PkgFiles;       // file deployed through ANOTHER package -> index of the tracked object it declares
static std::set<std::string> l_PkgDirs;                // package directories this case created

static void DigestValue(std::ostringstream& o, const Value& v, int depth)
{
	if (v.IsObjectType<Namespace>()) {
		if (depth > 3) { o << "<ns>"; return; }
		Namespace::Ptr ns = v;
		ObjectLock l(ns);
		o << "{";
		for (const Namespace::Pair& kv : ns) { o << kv.first << "="; DigestValue(o, kv.second.Val, depth + 1); o << ";"; }
		o << "}";
	} else if (v.IsObjectType<Function>() || v.IsObjectType<Type>()) {
		o << "<obj>";
	} else if (v.IsObject() && !v.IsObjectType<Array>() && !v.IsObjectType<Dictionary>()) {
		o << "<" << v.Get<Object::Ptr>()->GetReflectionType()->GetName() << ">";
	} else {
		try { o << JsonEncode(v); } catch (...) { o << "<unenc>"; }
	}
}

static std::string GlobalsDigest()
{
	std::ostringstream o;
	DigestValue(o, ScriptGlobal::GetGlobals(), 0);
	return o.str();
}

static bool IsTracked(const std::string& t, const std::string& n)
{
	for (auto& x : l_Tracked) if (x.type == t && x.name == n) return true;
	return false;
}

// config attributes of every object that is not one of the tracked (type, name) pairs
static std::string OthersDigest()
{
	std::ostringstream o;
	for (const Type::Ptr& type : Type::GetAllTypes()) {
		auto *ct = dynamic_cast<ConfigType *>(type.get());
		if (!ct) continue;
		std::vector<std::string> parts;
		for (const ConfigObject::Ptr& obj : ct->GetObjects()) {
			if (IsTracked(type->GetName().GetData(), obj->GetName().GetData())) continue;
			Dictionary::Ptr d = Serialize(obj, FAConfig);
			parts.push_back(obj->GetName().GetData() + "=" + (obj->IsActive() ? "A" : "a") + JsonEncode(d).GetData());
		}
		std::sort(parts.begin(), parts.end());
		o << type->GetName() << ":";
		for (auto& p : parts) o << p << "|";
	}
	return o.str();
}

static void Track(const std::string& t, const std::string& n)
{
	if (!IsTracked(t, n)) { l_Tracked.push_back({t, n}); l_OthersBase = OthersDigest(); }
}

// every object file below ANY config package: <packages>/<name>/<stage>/conf.d/**.conf (not only the _api package:
// neither CreateObject nor DeleteObject may touch the stage of another package)
static std::vector<std::string> ObjectFiles()
{
	std::vector<std::string> files;
	String dir = ConfigPackageUtility::GetPackageDir();
	Utility::GlobRecursive(dir, "*", [&files](const String& p) {
		// the stage's own include.conf / active.conf are not object files
		if (p.GetLength() > 5 && p.SubStr(p.GetLength() - 5) == ".conf" && p.Contains("/conf.d/")) files.push_back(p.GetData());
	}, GlobFile);
	std::sort(files.begin(), files.end());
	return files;
}

static std::string ReadFileBytes(const std::string& path)
{
	std::ifstream f(path, std::ios::binary);
	std::ostringstream o;
	o << f.rdbuf();
	return o.str();
}

// FNV-1a, 64 bit - a digest of the file's bytes (the model prints the same digest of the text it generated)
static std::string Fnv64(const std::string& s)
{
	unsigned long long h = 0xcbf29ce484222325ULL;
	for (unsigned char c : s) { h ^= c; h *= 0x100000001b3ULL; }
	char buf[20];
	snprintf(buf, sizeof(buf), "%016llx", h);
	return buf;
}

static std::string TrackedPath(const Tracked& x)
{
	try { return ConfigObjectUtility::ComputeNewObjectConfigPath(Type::GetByName(x.type), x.name).GetData(); } catch (...) { return ""; }
}

// the file tree: the files of the tracked (type, name) pairs in tracking order as T<index>:<digest>, then every
// other file as ?<hex of the path below the package>:<digest>
static std::string FileTree(size_t& count)
{
	std::vector<std::string> files;
	for (auto& p : ObjectFiles()) if (!l_BaseFiles.count(p)) files.push_back(p);      // files this case did not find in place
	count = files.size();
	std::set<std::string> left(files.begin(), files.end());
	std::string r;
	for (size_t i = 0; i < l_Tracked.size(); i++) {
		std::string p = TrackedPath(l_Tracked[i]);
		if (p.empty() || !left.count(p)) continue;
		bool dup = false;       // two tracked names with one path (cannot happen with an injective EscapeName): listed once
		for (size_t j = 0; j < i; j++) if (TrackedPath(l_Tracked[j]) == p) dup = true;
		if (dup) continue;
		r += (r.empty() ? "" : ",") + ("T" + std::to_string(i)) + ":" + Fnv64(ReadFileBytes(p));
	}
	for (size_t i = 0; i < l_Tracked.size(); i++) left.erase(TrackedPath(l_Tracked[i]));
	// files deployed through other packages, in tracking order of the object they declare: P<index>:<digest>
	for (size_t i = 0; i < l_Tracked.size(); i++)
		for (auto& kv : l_PkgFiles)
			if (kv.second == i && left.count(kv.first)) {
				r += (r.empty() ? "" : ",") + ("P" + std::to_string(i)) + ":" + Fnv64(ReadFileBytes(kv.first));
				left.erase(kv.first);
			}
	std::string base = (ConfigPackageUtility::GetPackageDir() + "/_api/").GetData();
	for (auto& p : left)
		r += (r.empty() ? "" : ",") + ("?" + HexEnc(p.compare(0, base.size(), base) == 0 ? p.substr(base.size()) : p)) + ":" + Fnv64(ReadFileBytes(p));
	return r.empty() ? "-" : r;
}

static void CwInitOnce()
{
	if (l_CwInit) return;
	l_CwInit = true;
	LoadConfig("object CheckCommand \"cwcmd\" { command = [ \"/bin/true\" ] }\n"
		"object NotificationCommand \"cwncmd\" { command = [ \"/bin/true\" ] }\n"
		"object User \"cwuser\" { }\n"
		"template Host \"cwtmpl\" { notes = \"from-template\" }\n");
}

static size_t CountAllObjects()
{
	size_t n = 0;
	for (const Type::Ptr& type : Type::GetAllTypes()) {
		auto *ct = dynamic_cast<ConfigType *>(type.get());
		if (ct) n += ct->GetObjects().size();
	}
	return n;
}

static void CaseBegin()
{
	CwInitOnce();
	if (!l_BaseTaken) {
		l_BaseTaken = true;
		l_BaseObjects.clear();
		l_BaseFiles.clear();
		for (auto& p : ObjectFiles()) l_BaseFiles.insert(p);
		for (const Type::Ptr& type : Type::GetAllTypes()) {
			auto *ct = dynamic_cast<ConfigType *>(type.get());
			if (!ct) continue;
			for (const ConfigObject::Ptr& obj : ct->GetObjects()) l_BaseObjects.insert({type->GetName().GetData(), obj->GetName().GetData()});
		}
	}
	if (l_GlobalsBase.empty()) { l_GlobalsBase = GlobalsDigest(); l_OthersBase = OthersDigest(); }
}

static std::string ShortName(const std::string& full)
{
	size_t p = full.rfind('!');
	return p == std::string::npos ? full : full.substr(p + 1);
}

// one entry per tracked (type, name): object / active / package / config item / file; then the number of objects
// created since the case began, the number of object files, the file tree, globals, other objects
static std::string StoreLine()
{
	std::ostringstream o;
	size_t nobj = CountAllObjects() - l_BaseObjects.size();
	for (auto& x : l_Tracked) {
		Type::Ptr type = Type::GetByName(x.type);
		auto *ct = dynamic_cast<ConfigType *>(type.get());
		ConfigObject::Ptr obj = ct->GetObject(x.name);
		ConfigItem::Ptr item = ConfigItem::GetByTypeAndName(type, x.name);
		bool unnamed = false;
		if (dynamic_cast<NameComposer *>(type.get()))
			for (auto& it : ConfigItem::m_UnnamedItems) if (it->GetType() == type && it->GetName() == String(ShortName(x.name))) unnamed = true;
		bool file = false;
		try { file = Utility::PathExists(ConfigObjectUtility::ComputeNewObjectConfigPath(type, x.name)); } catch (...) {}
		o << " " << x.type << ":" << HexEnc(x.name) << "=" << (obj ? (obj->IsActive() ? "A" : "o") : "-")
			<< (obj ? (obj->GetPackage() == "_api" ? "r" : "s") : "-") << ((item || unnamed) ? "i" : "-") << (file ? "f" : "-");
	}
	size_t nfiles = 0;
	std::string tree = FileTree(nfiles);
	o << " nobj=" << nobj << " nfiles=" << nfiles << " files=" << tree;
	o << " g=" << (GlobalsDigest() == l_GlobalsBase ? "same" : "CHANGED");
	o << " others=" << (OthersDigest() == l_OthersBase ? "same" : "CHANGED");
	return o.str();
}

static Value ReadPath(const ConfigObject::Ptr& obj, const String& key)
{
	std::vector<String> tokens = key.Split(".");
	Value cur = obj->GetFieldByName(tokens[0], false, DebugInfo());
	for (size_t i = 1; i < tokens.size(); i++) {
		if (!cur.IsObjectType<Dictionary>()) return "<no-such-path>";
		Dictionary::Ptr d = cur;
		if (!d->Contains(tokens[i])) return "<no-such-path>";
		cur = d->Get(tokens[i]);
	}
	return cur;
}

VOP(cw_create)
{
	CaseBegin();
	std::string tn = a.str("type", "Host"), name = HexDec(a.str("name", "-"));
	Type::Ptr type = Type::GetByName(tn);
	Track(tn, name);
	Dictionary::Ptr attrs = a.has("attrs") ? Dictionary::Ptr(CwDecode(a.str("attrs"))) : nullptr;
	Array::Ptr errors = new Array(), diag = new Array();
	std::string res;
	try {
		String cfg = ConfigObjectUtility::CreateObjectConfig(type, name, a.num("ign", 0) != 0, Templates(a), attrs);
		bool ok = ConfigObjectUtility::CreateObject(type, name, cfg, errors, diag);
		res = ok ? "ok" : "fail";
	} catch (const std::exception&) {
		res = "fail";       // the HTTP handler turns exceptions into an error response as well
	}
	if (tn == "ScheduledDowntime") DrainThreadPool();      // ScheduledDowntime::Start queues CreateNextDowntime
	std::ostringstream o;
	o << "cw_create res=" << res;
	auto *ct = dynamic_cast<ConfigType *>(type.get());
	ConfigObject::Ptr obj = ct->GetObject(name);
	if (res == "ok" && obj && attrs) {
		std::string r = "o";
		ObjectLock l(attrs);
		for (const Dictionary::Pair& kv : attrs) {
			Value v;
			try { v = ReadPath(obj, kv.first); } catch (...) { v = "<exc>"; }
			r += HexOrEmpty(kv.first.GetData()) + ":" + CwEnc(v);
		}
		o << " attrs=" << r << ";";
	}
	if (res == "ok" && obj && type->GetFieldId("vars") >= 0) {
		Value vars;
		try { vars = obj->GetFieldByName("vars", false, DebugInfo()); } catch (...) { vars = "<exc>"; }
		o << " vars=" << CwEnc(vars);
	}
	o << StoreLine();
	Out(o.str());
}

static std::string Quoted(const std::string& s)
{
	std::ostringstream q;
	ConfigWriter::EmitString(q, String(s));
	return q.str();
}

// an object that was NOT created at runtime (config text, package != _api)
// pkg=<hex name> text=<hex>: the declaration is DEPLOYED as a file of a stage of the config package with that name
// (<packages>/<name>/cwstage/conf.d/p<index>.conf; for the name `_api` itself: the path a runtime object of that name
// has) and compiled with that package, the way the daemon loads the active stage of every package at start-up.
static void LoadFromPackage(const std::string& tn, const std::string& name, const std::string& pkg, const std::string& text)
{
	size_t idx = 0;
	for (size_t i = 0; i < l_Tracked.size(); i++) if (l_Tracked[i].type == tn && l_Tracked[i].name == name) idx = i;
	Type::Ptr type = Type::GetByName(tn);
	auto *ct = dynamic_cast<ConfigType *>(type.get());
	if (ct->GetObject(name)) { Out("cw_static res=fail" + StoreLine()); return; }
	String path;
	if (pkg == "_api")
		path = ConfigObjectUtility::ComputeNewObjectConfigPath(type, name);
	else {
		String pdir = ConfigPackageUtility::GetPackageDir() + "/" + pkg;
		l_PkgDirs.insert(pdir.GetData());
		path = pdir + "/cwstage/conf.d/p" + std::to_string(idx) + ".conf";
	}
	if (Utility::PathExists(path)) { Out("cw_static res=fail" + StoreLine()); return; }
	Utility::MkDirP(Utility::DirName(path), 0700);
	{ std::ofstream f(path.GetData(), std::ios::binary | std::ios::trunc); f << text; }
	if (pkg != "_api") l_PkgFiles[path.GetData()] = idx;
	bool ok = false;
	try {
		String p = path, k = pkg;
		ok = ConfigItem::RunWithActivationContext(new Function("<cw_pkg>", [p, k]() {
			std::unique_ptr<Expression> expr = ConfigCompiler::CompileFile(p, String(), k);
			expr->Evaluate(*ScriptFrame::GetCurrentFrame());
		}));
	} catch (const std::exception&) { ok = false; }
	if (!ok) { try { Utility::Remove(path); } catch (...) {} l_PkgFiles.erase(path.GetData()); }
	if (tn == "ScheduledDowntime") DrainThreadPool();
	Out(std::string("cw_static res=") + (ok ? "ok" : "fail") + StoreLine());
}

VOP(cw_static)
{
	CaseBegin();
	std::string tn = a.str("type", "Host"), name = HexDec(a.str("name", "-"));
	Track(tn, name);
	if (a.has("pkg")) { LoadFromPackage(tn, name, HexDec(a.str("pkg", "-")), HexDec(a.str("text", "-"))); return; }
	std::vector<std::string> parts;
	{
		size_t p = 0;
		while (true) {
			size_t e = name.find('!', p);
			parts.push_back(name.substr(p, e == std::string::npos ? e : e - p));
			if (e == std::string::npos) break;
			p = e + 1;
		}
	}
	bool composite = dynamic_cast<NameComposer *>(Type::GetByName(tn).get()) != nullptr;
	std::ostringstream c;
	c << "object " << tn << " " << Quoted(composite ? parts.back() : name) << " {\n";
	if (tn == "Host" || tn == "Service") c << "  check_command = \"cwcmd\"\n  enable_active_checks = false\n";
	if (tn == "CheckCommand" || tn == "NotificationCommand" || tn == "EventCommand") c << "  command = [ \"/bin/true\" ]\n";
	if (composite) {
		std::string hk = tn == "Dependency" ? "child_host_name" : "host_name", sk = tn == "Dependency" ? "child_service_name" : "service_name";
		c << "  " << hk << " = " << Quoted(parts[0]) << "\n";
		if (tn != "Service" && parts.size() > 2) c << "  " << sk << " = " << Quoted(parts[1]) << "\n";
	}
	if (tn == "Notification") c << "  command = \"cwncmd\"\n  users = [ \"cwuser\" ]\n";
	if (tn == "Dependency") c << "  parent_host_name = " << Quoted(a.has("parent") ? HexDec(a.str("parent")) : parts[0]) << "\n";
	if (tn == "Comment") c << "  author = \"cw\"\n  text = \"t\"\n";
	if (tn == "Downtime") c << "  author = \"cw\"\n  comment = \"c\"\n  start_time = 2100000000\n  end_time = 2100003600\n";
	if (tn == "ScheduledDowntime") c << "  author = \"cw\"\n  comment = \"c\"\n  ranges = { }\n";
	c << "}\n";
	std::string res = "ok";
	try { LoadConfig(c.str()); } catch (const std::exception&) { res = "fail"; }
	if (tn == "ScheduledDowntime") DrainThreadPool();
	Out("cw_static res=" + res + StoreLine());
}

VOP(cw_delete)
{
	CaseBegin();
	std::string tn = a.str("type", "Host"), name = HexDec(a.str("name", "-"));
	Type::Ptr type = Type::GetByName(tn);
	Track(tn, name);
	auto *ct = dynamic_cast<ConfigType *>(type.get());
	ConfigObject::Ptr obj = ct->GetObject(name);
	std::string res;
	if (!obj) res = "nosuch";       // the handler answers 404 before reaching DeleteObject
	else {
		Array::Ptr errors = new Array(), diag = new Array();
		try { res = ConfigObjectUtility::DeleteObject(obj, a.num("cascade", 0) != 0, errors, diag) ? "ok" : "fail"; }
		catch (const std::exception&) { res = "fail"; }
	}
	Out("cw_delete res=" + res + StoreLine());
}

// scratch global the injection payloads try to change (non-constant, so that an assignment would succeed)
VOP(cw_global)
{
	CaseBegin();
	ScriptGlobal::Set(String(a.str("name", "CwProbe")), Value(String(a.str("val", "initial"))));
	l_GlobalsBase = GlobalsDigest();
	Out("cw_global ok");
}

// removal order at the end of a case: objects that refer to others first
static int TypeRank(const std::string& t)
{
	if (t == "Notification" || t == "Dependency" || t == "ScheduledDowntime" || t == "Comment" || t == "Downtime") return 0;
	if (t == "Service") return 1;
	if (t == "Host" || t == "User") return 2;
	return 3;
}

static void RemoveObject(const Type::Ptr& type, const ConfigObject::Ptr& obj)
{
	String path = obj->GetPackage() == "_api" ? ConfigObjectUtility::GetExistingObjectConfigPath(obj) : String();
	try { obj->Deactivate(true); } catch (...) {}
	ConfigItem::Ptr item = ConfigItem::GetByTypeAndName(type, obj->GetName());
	if (item) item->Unregister(); else obj->Unregister();
	if (!path.IsEmpty()) try { Utility::Remove(path); } catch (...) {}
}


// What a restart does with the package, without restarting: every live _api object is recorded (config attributes),
// unregistered WITHOUT touching its file, then all object files of the stage are compiled with package "_api",
// evaluated, committed and activated in one activation context (as the daemon's config load does), and the resulting
// _api objects are compared with the record: load ok / objects that did not come back / objects that appeared /
// objects whose config attributes differ.  Only as the LAST operation of a case.
VOP(cw_restart)
{
	CaseBegin();
	// Only the _api package is reloaded.  A statically configured object created by this case would keep pointing at the
	// OLD instance of a run-time parent (its DependencyGraph edge could then never be removed): not emulated.
	for (auto& x : l_Tracked) {
		auto *ct = dynamic_cast<ConfigType *>(Type::GetByName(x.type).get());
		ConfigObject::Ptr obj = ct ? ct->GetObject(x.name) : nullptr;
		if (obj && obj->GetPackage() != "_api") { Out("cw_restart res=skipped"); return; }
	}
	std::map<std::pair<std::string, std::string>, std::string> before, after;
	auto snapshot = [](std::map<std::pair<std::string, std::string>, std::string>& m) {
		for (const Type::Ptr& type : Type::GetAllTypes()) {
			auto *ct = dynamic_cast<ConfigType *>(type.get());
			if (!ct) continue;
			for (const ConfigObject::Ptr& obj : ct->GetObjects()) {
				if (obj->GetPackage() != "_api") continue;
				Dictionary::Ptr d = Serialize(obj, FAConfig);
				m[{type->GetName().GetData(), obj->GetName().GetData()}] = JsonEncode(d).GetData();
			}
		}
	};
	snapshot(before);
	for (int rank = 0; rank < 4; rank++)
		for (const Type::Ptr& type : Type::GetAllTypes()) {
			auto *ct = dynamic_cast<ConfigType *>(type.get());
			if (!ct || TypeRank(type->GetName().GetData()) != rank) continue;
			for (const ConfigObject::Ptr& obj : ct->GetObjects()) {
				if (obj->GetPackage() != "_api") continue;
				try { obj->Deactivate(true); } catch (...) {}
				ConfigItem::Ptr item = ConfigItem::GetByTypeAndName(type, obj->GetName());
				if (item) item->Unregister(); else obj->Unregister();
			}
		}
	ConfigItem::m_UnnamedItems.clear();
	std::vector<std::string> files;
	for (auto& p : ObjectFiles()) if (!l_BaseFiles.count(p) && !l_PkgFiles.count(p)) files.push_back(p);
	bool ok = false;
	try {
		ok = ConfigItem::RunWithActivationContext(new Function("<cw_restart>", [files]() {
			for (auto& f : files) {
				std::unique_ptr<Expression> expr = ConfigCompiler::CompileFile(f, String(), "_api");
				expr->Evaluate(*ScriptFrame::GetCurrentFrame());
			}
		}));
	} catch (const std::exception&) { ok = false; }
	DrainThreadPool();
	snapshot(after);
	size_t missing = 0, extra = 0, changed = 0;
	for (auto& kv : before) { auto it = after.find(kv.first); if (it == after.end()) missing++; else if (it->second != kv.second) changed++; }
	for (auto& kv : after) if (!before.count(kv.first)) extra++;
	std::ostringstream o;
	o << "cw_restart res=" << (ok ? "ok" : "fail") << " missing=" << missing << " extra=" << extra << " changed=" << changed << " nfiles=" << files.size();
	Out(o.str());
}

static struct CwCaseEnd {
	CwCaseEnd() {
		RegisterCaseEnd([]() {
			if (!l_CwInit || !l_BaseTaken) return;
			// remove every object that did not exist when the case began (whatever created it), dependents first
			for (int rank = 0; rank < 4; rank++)
				for (const Type::Ptr& type : Type::GetAllTypes()) {
					auto *ct = dynamic_cast<ConfigType *>(type.get());
					if (!ct || TypeRank(type->GetName().GetData()) != rank) continue;
					for (const ConfigObject::Ptr& obj : ct->GetObjects())
						if (!l_BaseObjects.count({type->GetName().GetData(), obj->GetName().GetData()})) RemoveObject(type, obj);
				}
			// left-over items and files of the tracked names
			for (auto& x : l_Tracked) {
				Type::Ptr type = Type::GetByName(x.type);
				ConfigItem::Ptr item = ConfigItem::GetByTypeAndName(type, x.name);
				if (item && !l_BaseObjects.count({x.type, x.name})) item->Unregister();
			}
			for (auto& p : ObjectFiles()) if (!l_BaseFiles.count(p)) try { Utility::Remove(p); } catch (...) {}
			for (auto& d : l_PkgDirs) try { Utility::RemoveDirRecursive(d); } catch (...) {}
			l_PkgDirs.clear();
			l_PkgFiles.clear();
			ConfigItem::m_UnnamedItems.clear();
			l_Tracked.clear();
			l_GlobalsBase.clear();
			l_OthersBase.clear();
			l_BaseObjects.clear();
			l_BaseTaken = false;
			Namespace::Ptr g = ScriptGlobal::GetGlobals();
			for (const char *n : {"CwProbe", "CwProbe2"}) if (g->Contains(n)) g->Remove(n);
		});
	}
} l_CwCaseEnd;
