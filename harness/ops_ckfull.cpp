// Combined checkable fixture for C02 / C05 / C06: real Host/Service with a real parent host + Dependency
// (notification reachability), real Downtime and Comment objects (through ConfigObjectUtility), the real
// API action / external command entry points for acknowledgements, and the timer handlers called directly.
#include <string>
#include <vector>
#include <map>
#include <set>
#include <sstream>
#include <algorithm>
#include <boost/signals2.hpp>
#include <boost/thread/once.hpp>
#include "icinga/downtime.hpp"
#include "icinga/comment.hpp"
#include "icinga/checkable.hpp"
#include "vdrive.hpp"
#include "base/utility.hpp"
#include "base/timer.hpp"
#include "base/configtype.hpp"
#include "icinga/host.hpp"
#include "icinga/service.hpp"
#include "icinga/dependency.hpp"
#include "icinga/apiactions.hpp"
#include "icinga/externalcommandprocessor.hpp"
#include "remote/apilistener.hpp"
#include "remote/endpoint.hpp"
#include "remote/zone.hpp"
#include "remote/jsonrpcconnection.hpp"
#include "remote/messageorigin.hpp"
#include "icinga/clusterevents.hpp"

using namespace icinga;

extern void CkRemoveObject(const ConfigObject::Ptr& obj);

static Checkable::Ptr f_Ck;
static Host::Ptr f_Host, f_Parent;
static bool f_IsSvc = false;
static std::vector<std::string> f_Ev;
static std::map<long, String> f_DtName;
static std::map<String, long> f_DtId;
static bool f_Init = false;

static bool Mine(const Checkable::Ptr& c) { return f_Ck && c == f_Ck; }

static void InitOnce()
{
	if (f_Init) return;
	f_Init = true;
	LoadConfig("object CheckCommand \"vfdummy\" { command = [ \"/bin/true\" ] }\n");
	Checkable::OnStateChange.connect([](const Checkable::Ptr& c, const CheckResult::Ptr&, StateType t, const MessageOrigin::Ptr&) {
		if (Mine(c)) f_Ev.push_back(t == StateTypeHard ? "sc=H" : "sc=S");
	});
	Checkable::OnNewCheckResult.connect([](const Checkable::Ptr& c, const CheckResult::Ptr&, const MessageOrigin::Ptr&) {
		if (Mine(c)) f_Ev.push_back("ncr");
	});
	Checkable::OnNotificationsRequested.connect([](const Checkable::Ptr& c, NotificationType t, const CheckResult::Ptr&,
		const String&, const String&, const MessageOrigin::Ptr&) {
		if (Mine(c)) f_Ev.push_back("nr=" + std::to_string((int)t));
	});
	Checkable::OnAcknowledgementSet.connect([](const Checkable::Ptr& c, const String&, const String&, AcknowledgementType t,
		bool, bool, double, double, const MessageOrigin::Ptr&) {
		if (Mine(c)) f_Ev.push_back("ackset=" + std::to_string((int)t));
	});
	Checkable::OnAcknowledgementCleared.connect([](const Checkable::Ptr& c, const String&, double, const MessageOrigin::Ptr&) {
		if (Mine(c)) f_Ev.push_back("ackclr");
	});
	Downtime::OnDowntimeTriggered.connect([](const Downtime::Ptr& d) {
		auto it = f_DtId.find(d->GetName());
		if (it != f_DtId.end()) f_Ev.push_back("dttrig=" + std::to_string(it->second));
	});
	Downtime::OnDowntimeRemoved.connect([](const Downtime::Ptr& d) {
		auto it = f_DtId.find(d->GetName());
		if (it != f_DtId.end()) f_Ev.push_back("dtrem=" + std::to_string(it->second));
	});
}

static std::string T(double t) { std::ostringstream o; o << (long long)t; return o.str(); }

static std::string FullLine()
{
	std::ostringstream o;
	Host::Ptr host = dynamic_pointer_cast<Host>(f_Ck);
	Service::Ptr svc = dynamic_pointer_cast<Service>(f_Ck);
	long st, lh;
	if (host) { st = host->GetState(); lh = host->GetLastHardState(); }
	else { st = svc->GetState(); lh = svc->GetLastHardState(); }
	o << "st=" << st << " ty=" << (long)f_Ck->GetStateType() << " at=" << f_Ck->GetCheckAttempt() << " lh=" << lh;
	o << " ack=" << (long)f_Ck->GetAcknowledgementRaw() << " exp=" << T(f_Ck->GetAcknowledgementExpiry());
	o << " supp=" << f_Ck->GetSuppressedNotifications() << " sbs=" << (long)f_Ck->GetStateBeforeSuppression();
	o << " fl=" << (f_Ck->GetFlapping() ? 1 : 0);
	// downtimes sorted by script id
	std::vector<std::string> ds;
	for (auto& kv : f_DtName) {
		Downtime::Ptr d = Downtime::GetByName(kv.second);
		if (!d || !d->IsActive()) continue;
		ds.push_back(std::to_string(kv.first) + ":" + T(d->GetTriggerTime()));
	}
	o << " dts=";
	if (ds.empty()) o << "-";
	for (size_t i = 0; i < ds.size(); i++) o << (i ? "," : "") << ds[i];
	std::vector<std::string> cs;
	for (const Comment::Ptr& c : f_Ck->GetComments()) {
		if (c->GetEntryType() != CommentAcknowledgement) continue;
		cs.push_back(T(c->GetEntryTime()) + "/" + (c->GetPersistent() ? "1" : "0") + "/" + T(c->GetExpireTime()));
	}
	std::sort(cs.begin(), cs.end());
	o << " cms=";
	if (cs.empty()) o << "-";
	for (size_t i = 0; i < cs.size(); i++) o << (i ? "," : "") << cs[i];
	// opt-in observation class "tm": the REAL clean-up timer of every downtime:
	// tm=<id>:<Timer started>:<floor(due time)>:<downtime object paused>
	if (ObsOn("tm")) {
		for (auto& kv : f_DtName) {
			Downtime::Ptr d = Downtime::GetByName(kv.second);
			if (!d || !d->IsActive()) continue;
			Timer::Ptr t = d->m_CleanupTimer;
			f_Ev.push_back("tm=" + std::to_string(kv.first) + ":" + (t && t->m_Started ? "1" : "0") + ":" + T(t ? t->m_Next : 0) + ":" + (d->IsPaused() ? "1" : "0"));
		}
	}
	std::sort(f_Ev.begin(), f_Ev.end());
	for (auto& e : f_Ev) {
		std::string pfx = e.substr(0, e.find('='));
		if (!ObsOn(pfx)) continue;
		o << " " << e;
	}
	f_Ev.clear();
	return o.str();
}

VOP(ckf_new)
{
	InitOnce();
	std::string id = std::to_string(CaseId());
	std::string hn = "fh" + id, pn = "fp" + id;
	f_IsSvc = a.str("kind", "host") == "svc";
	std::ostringstream c;
	auto subj = [&]() {
		std::ostringstream o;
		o << "  check_command = \"vfdummy\"\n";
		o << "  enable_active_checks = " << (a.num("active", 0) ? "true" : "false") << "\n";
		o << "  max_check_attempts = " << a.num("max", 3) << "\n";
		o << "  volatile = " << (a.num("vol", 0) ? "true" : "false") << "\n";
		o << "  enable_flapping = " << (a.num("flap", 0) ? "true" : "false") << "\n";
		o << "  flapping_threshold_high = 30.05\n  flapping_threshold_low = 25.05\n";
		o << "  check_interval = " << a.num("ci", 300) << "\n  retry_interval = 60\n";
		return o.str();
	};
	c << "object Host \"" << pn << "\" {\n  check_command = \"vfdummy\"\n  enable_active_checks = false\n  max_check_attempts = 1\n}\n";
	if (f_IsSvc) {
		c << "object Host \"" << hn << "\" {\n  check_command = \"vfdummy\"\n  enable_active_checks = false\n}\n";
		c << "object Service \"s\" {\n  host_name = \"" << hn << "\"\n" << subj() << "}\n";
	} else {
		c << "object Host \"" << hn << "\" {\n" << subj() << "}\n";
	}
	c << "object Dependency \"fd" << id << "\" {\n  parent_host_name = \"" << pn << "\"\n  child_host_name = \"" << hn << "\"\n";
	if (f_IsSvc) c << "  child_service_name = \"s\"\n";
	c << "}\n";
	LoadConfig(c.str());
	ApiListener::UpdateObjectAuthority();
	f_Host = Host::GetByName(hn);
	f_Parent = Host::GetByName(pn);
	if (f_IsSvc) f_Ck = Service::GetByNamePair(hn, "s"); else f_Ck = f_Host;
	if (!f_Ck || !f_Parent) throw std::runtime_error("fixture not created");
	{
		ObjectLock olock(f_Ck);
		f_Ck->SetNextCheck(0);
	}
	f_Ev.clear();
	f_DtName.clear();
	f_DtId.clear();
}

static CheckResult::Ptr MkCr(long state)
{
	CheckResult::Ptr cr = new CheckResult();
	double now = Utility::GetTime();
	cr->SetState((ServiceState)state);
	cr->SetScheduleStart(now);
	cr->SetScheduleEnd(now);
	cr->SetExecutionStart(now);
	cr->SetExecutionEnd(now);
	cr->SetActive(false);
	cr->SetOutput("vdrive");
	return cr;
}

VOP(crf)
{
	CheckResult::Ptr cr = MkCr(a.num("state"));
	if (a.has("start")) { cr->SetExecutionStart(a.dbl("start")); cr->SetScheduleStart(a.dbl("start")); }
	if (a.has("end")) { cr->SetExecutionEnd(a.dbl("end")); cr->SetScheduleEnd(a.dbl("end")); }
	auto res = f_Ck->ProcessCheckResult(cr);
	if (res == Checkable::ProcessingResult::NewerCheckResultPresent) f_Ev.push_back("ref=5");
	Out("crf " + FullLine());
}

VOP(parent)
{
	f_Parent->ProcessCheckResult(MkCr(a.num("up") ? 0 : 2));
	Out("parent " + FullLine());
}

// C06: the cluster entry point.  The message is delivered as JsonRpcConnection::MessageHandler would deliver it for an
// authenticated endpoint of the LOCAL zone (HA peer): FromClient has an endpoint, FromZone stays null.
static MessageOrigin::Ptr ClusterOrigin()
{
	static JsonRpcConnection::Ptr conn;
	if (!conn) {
		LoadConfig("object Endpoint \"vfpeer\" { }\nobject Zone \"vfzone\" { endpoints = [ \"vfpeer\" ] }\n");
		conn = new JsonRpcConnection("vfpeer", true, nullptr, RoleServer);
		if (!conn->GetEndpoint()) throw std::runtime_error("cluster origin: endpoint not found");
	}
	MessageOrigin::Ptr origin = new MessageOrigin();
	origin->FromClient = conn;
	return origin;
}

static Dictionary::Ptr ClusterParams()
{
	Dictionary::Ptr params = new Dictionary({ { "host", f_Host->GetName() }, { "author", "vd" }, { "comment", "c" } });
	if (f_IsSvc) params->Set("service", "s");
	params->Set("change_time", Utility::GetTime());
	return params;
}

VOP(ack)
{
	std::string via = a.str("via", "api");
	bool sticky = a.num("sticky"), notify = a.num("notify"), pers = a.num("pers"), eg = a.num("eg");
	long long expiry = std::stoll(a.str("expiry", "0"));
	if (via == "cluster") {
		Dictionary::Ptr params = ClusterParams();
		params->Set("acktype", sticky ? 2 : 1);
		params->Set("notify", notify);
		params->Set("persistent", pers);
		params->Set("expiry", (double)expiry);
		ClusterEvents::AcknowledgementSetAPIHandler(ClusterOrigin(), params);
	} else if (via == "api") {
		Dictionary::Ptr params = new Dictionary({ { "author", "vd" }, { "comment", "c" } });
		params->Set("sticky", sticky);
		params->Set("notify", notify);
		params->Set("persistent", pers);
		if (eg) params->Set("expiry", (double)expiry);
		Dictionary::Ptr r = ApiActions::AcknowledgeProblem(f_Ck, params);
		if ((int)r->Get("code") != 200) f_Ev.push_back("ref=1");
	} else {
		std::ostringstream l;
		l << "[" << (long long)Utility::GetTime() << "] ";
		bool ex = via == "extexp";
		if (f_IsSvc) l << (ex ? "ACKNOWLEDGE_SVC_PROBLEM_EXPIRE;" : "ACKNOWLEDGE_SVC_PROBLEM;") << f_Host->GetName() << ";s;";
		else l << (ex ? "ACKNOWLEDGE_HOST_PROBLEM_EXPIRE;" : "ACKNOWLEDGE_HOST_PROBLEM;") << f_Host->GetName() << ";";
		l << (sticky ? 2 : 1) << ";" << (notify ? 1 : 0) << ";" << (pers ? 1 : 0) << ";";
		if (ex) l << expiry << ";";
		l << "vd;c";
		try {
			ExternalCommandProcessor::Execute(l.str());
		} catch (const std::exception&) {
			f_Ev.push_back("ref=1");
		}
	}
	Out("ack " + FullLine());
}

VOP(unack)
{
	if (a.str("via", "api") == "cluster") {
		ClusterEvents::AcknowledgementClearedAPIHandler(ClusterOrigin(), ClusterParams());
	} else if (a.str("via", "api") == "api") {
		Dictionary::Ptr params = new Dictionary({ { "author", "vd" } });
		ApiActions::RemoveAcknowledgement(f_Ck, params);
	} else {
		std::ostringstream l;
		l << "[" << (long long)Utility::GetTime() << "] ";
		if (f_IsSvc) l << "REMOVE_SVC_ACKNOWLEDGEMENT;" << f_Host->GetName() << ";s";
		else l << "REMOVE_HOST_ACKNOWLEDGEMENT;" << f_Host->GetName();
		ExternalCommandProcessor::Execute(l.str());
	}
	Out("unack " + FullLine());
}

VOP(ackread)
{
	long ack = f_Ck->GetAcknowledgement();
	bool handled = f_Ck->GetHandled();
	int depth = f_Ck->GetDowntimeDepth();
	std::ostringstream o;
	o << "ackread a=" << ack << " handled=" << (handled ? 1 : 0) << " depth=" << depth << " " << FullLine();
	Out(o.str());
}

VOP(cmtimer)
{
	Comment::CommentsExpireTimerHandler();
	Out("cmtimer " + FullLine());
}

VOP(dt_add)
{
	long id = a.num("id");
	Downtime::Ptr trig;
	if (a.num("trig")) {
		auto it = f_DtName.find(a.num("trig"));
		if (it != f_DtName.end()) trig = Downtime::GetByName(it->second);
	}
	String parent;
	if (a.num("parent")) {
		auto it = f_DtName.find(a.num("parent"));
		if (it != f_DtName.end()) parent = it->second;
	}
	String name = f_Ck->GetName() + "!vdt" + std::to_string(CaseId()) + "-" + std::to_string(id);
	f_DtName[id] = name;
	f_DtId[name] = id;
	Downtime::Ptr nd = Downtime::AddDowntime(f_Ck, "vd", "c", std::stod(a.str("start")), std::stod(a.str("end")), a.num("fixed") != 0,
		trig, std::stod(a.str("dur", "0")), a.num("owned") ? "vsd" : "", "", parent, name);
	// what the authority timer would do for the new object only (the subject's own pause state is scripted)
	nd->SetAuthority(true);
	Out("dt_add " + FullLine());
}

VOP(dt_remove)
{
	long id = a.num("id");
	auto it = f_DtName.find(id);
	std::string reason = a.str("reason", "user");
	DowntimeRemovalReason r = reason == "expired" ? DowntimeExpired : (reason == "owner" ? DowntimeRemovedByConfigOwner : DowntimeRemovedByUser);
	if (it != f_DtName.end()) {
		try {
			Downtime::RemoveDowntime(it->second, a.num("children") != 0, r, "vd");
		} catch (const invalid_downtime_removal_error&) {
			f_Ev.push_back("ref=4");
		}
	}
	Out("dt_remove " + FullLine());
}

// reproduction aid (no model counterpart, not used by any generator): what POST /v1/objects/downtimes/<name>
// {"attrs":{"triggers":[...]}} does - `triggers` is a [state] attribute without no_user_modify
VOP(dt_settriggers)
{
	auto it = f_DtName.find(a.num("id"));
	if (it != f_DtName.end()) {
		Downtime::Ptr d = Downtime::GetByName(it->second);
		ArrayData names;
		std::istringstream is(a.str("list", ""));
		std::string tok;
		while (std::getline(is, tok, ',')) {
			auto jt = f_DtName.find(std::stol(tok));
			if (jt != f_DtName.end()) names.push_back(jt->second);
		}
		if (d) d->ModifyAttribute("triggers", new Array(std::move(names)));
	}
	Out("dt_settriggers " + FullLine());
}

VOP(dt_pause)
{
	auto it = f_DtName.find(a.num("id"));
	if (it != f_DtName.end()) {
		Downtime::Ptr d = Downtime::GetByName(it->second);
		if (d) d->SetAuthority(a.num("p") == 0);
	}
	Out("dt_pause " + FullLine());
}

VOP(dt_starttimer)
{
	Downtime::DowntimesStartTimerHandler();
	Out("dt_starttimer " + FullLine());
}

VOP(dt_cleanup)
{
	auto it = f_DtName.find(a.num("id"));
	if (it != f_DtName.end()) {
		Downtime::Ptr d = Downtime::GetByName(it->second);
		// the timer pump: fire the clean-up timer only if the real Timer object exists, is started and is due
		// at the virtual time (what Timer::TimerThreadProc would do with a real clock)
		Timer::Ptr t = d ? d->m_CleanupTimer : nullptr;
		if (t && t->m_Started && t->m_Next <= Utility::GetTime())
			t->OnTimerExpired(t.get());
	}
	Out("dt_cleanup " + FullLine());
}

VOP(fire)
{
	f_Ck->FireSuppressedNotifications();
	Out("fire " + FullLine());
}

VOP(pause)
{
	f_Ck->SetAuthority(a.num("p") == 0);
	Out("pause " + FullLine());
}

VOP(nextcheck)
{
	{
		ObjectLock olock(f_Ck);
		f_Ck->SetNextCheck(std::stod(a.str("t")));
	}
	Out("nextcheck " + FullLine());
}

static struct CkfCaseEnd {
	CkfCaseEnd() {
		RegisterCaseEnd([]() {
			if (!f_Ck) return;
			Checkable::Ptr ck = f_Ck;
			f_Ck = nullptr;
			for (auto& kv : f_DtName) {
				Downtime::Ptr d = Downtime::GetByName(kv.second);
				if (d) { try { Downtime::RemoveDowntime(kv.second, false, DowntimeRemovedByConfigOwner, ""); } catch (...) {} }
			}
			for (const Comment::Ptr& c : ck->GetComments()) Comment::RemoveComment(c->GetName());
			for (const Dependency::Ptr& d : ConfigType::GetObjectsByType<Dependency>()) {
				if (d->GetChild() == ck) CkRemoveObject(d);
			}
			Host::Ptr h = f_Host, p = f_Parent;
			f_Host = nullptr; f_Parent = nullptr;
			for (const Service::Ptr& s : h->GetServices()) CkRemoveObject(s);
			CkRemoveObject(h);
			CkRemoveObject(p);
			f_Ev.clear(); f_DtName.clear(); f_DtId.clear();
		});
	}
} f_CkfCaseEnd;
