// C20 - wire codecs: the REAL NetString reader/writer (buffered StreamReadContext variant on a FIFO and the
// AsioTlsStream variants over a real TLS session on a socketpair) and the REAL JsonEncode/JsonDecode.
// Only API-visible behaviour is printed: returned strings/values, "an exception was thrown", the size of the
// carried buffer, how many bytes of the stream were left unread, and whether a single allocation larger than
// the declared limit was requested while reading.
#include "vdrive.hpp"
#include "base/netstring.hpp"
#include "base/fifo.hpp"
#include "base/stdiostream.hpp"
#include "base/configobject.hpp"
#include "base/json.hpp"
#include "base/array.hpp"
#include "base/dictionary.hpp"
#include "base/objectlock.hpp"
#include "base/tlsstream.hpp"
#include "base/io-engine.hpp"
#include "remote/jsonrpc.hpp"
#include <boost/asio.hpp>
#include <boost/asio/ssl.hpp>
#include <boost/asio/spawn.hpp>
#include <openssl/ssl.h>
#include <openssl/x509.h>
#include <openssl/evp.h>
#include <sys/socket.h>
#include <unistd.h>
#include <sys/wait.h>
#include <sys/time.h>
#include <signal.h>
#include <fstream>
#include <sstream>
#include <thread>
#include <atomic>
#include <cstring>
#include <cmath>
#include <new>

using namespace icinga;

// ---------------------------------------------------------------------------------------------------------
// largest single operator-new request while armed (the property speaks about allocation beyond the limit)
static std::atomic<size_t> l_MaxAlloc{0};
static std::atomic<bool> l_AllocArmed{false};

void *operator new(std::size_t n)
{
	if (l_AllocArmed.load(std::memory_order_relaxed)) {
		size_t cur = l_MaxAlloc.load(std::memory_order_relaxed);
		while (n > cur && !l_MaxAlloc.compare_exchange_weak(cur, n)) { }
	}
	void *p = std::malloc(n ? n : 1);
	if (!p) throw std::bad_alloc();
	return p;
}
void operator delete(void *p) noexcept { std::free(p); }
void operator delete(void *p, std::size_t) noexcept { std::free(p); }

// ---------------------------------------------------------------------------------------------------------
// buffered variant: FIFO + StreamReadContext, the consumer loop every caller runs
static FIFO::Ptr l_Fifo;
static std::unique_ptr<StreamReadContext> l_Ctx;
static long l_NsMax = -1;
static bool l_NsDead = false;

VOP(ns_new)
{
	l_Fifo = new FIFO();
	l_Ctx.reset(new StreamReadContext());
	l_NsMax = a.num("max", -1);
	l_NsDead = false;
}

static void Pump(const char *op)
{
	std::string items;
	bool err = false;
	int guard = 0;
	try {
		for (;;) {
			if (++guard > 1000000) { Out(std::string(op) + " LOOP"); return; }
			String s;
			StreamReadStatus st = NetString::ReadStringFromStream(l_Fifo, &s, *l_Ctx, false, l_NsMax);
			if (st == StatusNewItem) {
				if (!items.empty()) items += ",";
				items += HexEnc(s.GetData());
				continue;
			}
			if (st == StatusNeedData) {
				if (l_Fifo->IsDataAvailable()) continue;  // a fill takes at most 64 KiB + 4 KiB
				break;
			}
			break; // StatusEof
		}
	} catch (const std::exception&) {
		err = true;
		l_NsDead = true;
	}
	Out(std::string(op) + " items=" + (items.empty() ? "." : items) + " st=" + (err ? "err" : "need") + " size=" + std::to_string(l_Ctx->Size));
}

VOP(ns_feed)
{
	if (l_NsDead) { Out("ns_feed dead"); return; }
	std::string chunk = HexDec(a.pos.at(0));
	if (!chunk.empty()) l_Fifo->Write(chunk.data(), chunk.size());
	Pump("ns_feed");
}

VOP(ns_wfeed)
{
	if (l_NsDead) { Out("ns_wfeed dead"); return; }
	NetString::WriteStringToStream(l_Fifo, String(HexDec(a.pos.at(0))));
	Pump("ns_wfeed");
}

VOP(ns_write)
{
	std::ostringstream os;
	NetString::WriteStringToStream(os, String(HexDec(a.pos.at(0))));
	Out("ns_write " + HexEnc(os.str()));
}

// declares the frames the following raw feeds encode (for the oracle); no behaviour
VOP(ns_frames) { }

static struct NsCaseEnd {
	NsCaseEnd() { RegisterCaseEnd([]() { l_Fifo = nullptr; l_Ctx.reset(); l_NsDead = false; }); }
} l_NsCaseEnd;

// ---------------------------------------------------------------------------------------------------------
// buffered variant up to the END of the stream: the loop every production caller runs
//     for (;;) { srs = ReadStringFromStream(...); if (srs == StatusEof) break; if (srs != StatusNewItem) continue; handle }
// driven with a bound on the number of calls (a reader that never reports the end shows up as end=loop, not as a hang).
// mode=chunk: a Stream that hands the scripted chunks to StreamReadContext::FillFromStream one per fill and then is at EOF;
// mode=stdio: the real StdioStream over a std::istringstream; mode=file: the real StdioStream over a std::fstream of a
// temporary file (what RestoreObjects / ReplayLog / the CLI list readers use).
namespace {
class ChunkStream final : public Stream
{
public:
	explicit ChunkStream(std::vector<std::string> chunks) : m_Chunks(std::move(chunks)) { }
	size_t Read(void *buffer, size_t count) override
	{
		if (m_Idx >= m_Chunks.size()) return 0;
		const std::string& c = m_Chunks[m_Idx];
		size_t n = std::min(count, c.size() - m_Off);
		if (n && buffer) std::memcpy(buffer, c.data() + m_Off, n);
		m_Off += n;
		if (m_Off >= c.size()) { m_Idx++; m_Off = 0; }
		return n;
	}
	void Write(const void *, size_t) override { throw std::runtime_error("read-only"); }
	bool IsEof() const override { return m_Idx >= m_Chunks.size(); }
private:
	std::vector<std::string> m_Chunks;
	size_t m_Idx = 0, m_Off = 0;
};
}

static std::vector<std::string> SplitChunks(const std::string& hexlist);

static std::string TempFileWith(const std::string& content)
{
	char path[] = "/tmp/vdrive-c20-XXXXXX";
	int fd = mkstemp(path);
	if (fd < 0) throw std::runtime_error("mkstemp");
	size_t off = 0;
	while (off < content.size()) {
		ssize_t k = ::write(fd, content.data() + off, content.size() - off);
		if (k <= 0) { ::close(fd); ::unlink(path); throw std::runtime_error("write"); }
		off += (size_t)k;
	}
	::close(fd);
	return path;
}

// ns_eof max=<n> mode=chunk|stdio|file <hex>[,<hex>...]
VOP(ns_eof)
{
	long max = a.num("max", -1);
	std::string mode = a.str("mode", "chunk");
	std::vector<std::string> chunks = SplitChunks(a.pos.at(0));
	std::string whole;
	for (auto& c : chunks) whole += c;
	Stream::Ptr stream;
	std::stringstream iss;
	std::fstream fp;
	std::string path;
	if (mode == "chunk") {
		stream = new ChunkStream(chunks);
	} else if (mode == "stdio") {
		iss.str(whole);
		stream = new StdioStream(&iss, false);
	} else {
		path = TempFileWith(whole);
		fp.open(path.c_str(), std::ios_base::in | std::ios_base::binary);
		stream = new StdioStream(&fp, false);
	}
	StreamReadContext ctx;
	std::string items;
	std::string end = "loop";
	int sticky = -1;
	// the theorem's bound for the model is |input| + |fills| + 1 calls; the harness is deliberately more generous
	size_t bound = 4 * (whole.size() + chunks.size()) + 64;
	try {
		String message;
		for (size_t calls = 0; calls < bound; calls++) {
			StreamReadStatus srs = NetString::ReadStringFromStream(stream, &message, ctx, false, max);
			if (srs == StatusEof) { end = "eof"; break; }
			if (srs != StatusNewItem) continue;
			if (!items.empty()) items += ",";
			items += HexEnc(message.GetData());
		}
		if (end == "eof") {
			sticky = 1;
			size_t before = ctx.Size;
			for (int k = 0; k < 3; k++) {
				String m2;
				if (NetString::ReadStringFromStream(stream, &m2, ctx, false, max) != StatusEof || ctx.Size != before) sticky = 0;
			}
		}
	} catch (const std::exception&) {
		end = "err";
	}
	if (!path.empty()) { fp.close(); ::unlink(path.c_str()); }
	Out("ns_eof items=" + (items.empty() ? std::string(".") : items) + " end=" + end +
		" size=" + (end == "eof" ? std::to_string(ctx.Size) : std::string("-")) +
		" sticky=" + (sticky < 0 ? std::string("-") : std::to_string(sticky)));
}

// ns_restore <hex>: the production loop itself - ConfigObject::RestoreObjects on a file with this content, in a forked child
// with a CPU-time limit (a loop that never sees StatusEof spins; the child is killed and "hang" is reported)
VOP(ns_restore)
{
	std::string content = HexDec(a.pos.at(0));
	std::string path = TempFileWith(content);
	int pfd[2];
	if (pipe(pfd) != 0) throw std::runtime_error("pipe");
	pid_t pid = fork();
	if (pid == 0) {
		::close(pfd[0]);
		struct itimerval tv;
		std::memset(&tv, 0, sizeof tv);
		tv.it_value.tv_sec = 2;
		signal(SIGPROF, SIG_DFL);
		setitimer(ITIMER_PROF, &tv, nullptr);
		alarm(60);
		std::string res;
		try {
			ConfigObject::RestoreObjects(path, FAState);
			res = "done";
		} catch (const std::exception&) {
			res = "err";
		}
		(void)!write(pfd[1], res.data(), res.size());
		_exit(0);
	}
	::close(pfd[1]);
	char buf[64];
	ssize_t k;
	std::string got;
	while ((k = read(pfd[0], buf, sizeof buf)) > 0) got.append(buf, k);
	::close(pfd[0]);
	int status = 0;
	waitpid(pid, &status, 0);
	::unlink(path.c_str());
	std::string res;
	if (WIFEXITED(status) && WEXITSTATUS(status) == 0 && !got.empty()) res = got;
	else if (WIFSIGNALED(status) && (WTERMSIG(status) == SIGPROF || WTERMSIG(status) == SIGALRM)) res = "hang";
	else res = "crash status=" + std::to_string(WIFSIGNALED(status) ? WTERMSIG(status) : -WEXITSTATUS(status));
	Out("ns_restore " + res);
}

// ---------------------------------------------------------------------------------------------------------
// stream variant over a real TLS session (AsioTlsStream is a concrete type; there is no way to call
// NetString::ReadStringFromStream(const Shared<AsioTlsStream>::Ptr&, ...) without one)
static boost::asio::ssl::context& ServerCtx()
{
	static std::unique_ptr<boost::asio::ssl::context> ctx;
	if (!ctx) {
		ctx.reset(new boost::asio::ssl::context(boost::asio::ssl::context::tls_server));
		EVP_PKEY *pkey = EVP_EC_gen("P-256");
		X509 *x = X509_new();
		ASN1_INTEGER_set(X509_get_serialNumber(x), 1);
		X509_gmtime_adj(X509_getm_notBefore(x), -3600);
		X509_gmtime_adj(X509_getm_notAfter(x), 365 * 24 * 3600L);
		X509_set_pubkey(x, pkey);
		X509_NAME *name = X509_get_subject_name(x);
		X509_NAME_add_entry_by_txt(name, "CN", MBSTRING_ASC, (const unsigned char *)"vdrive-c20", -1, -1, 0);
		X509_set_issuer_name(x, name);
		X509_sign(x, pkey, EVP_sha256());
		SSL_CTX_use_certificate(ctx->native_handle(), x);
		SSL_CTX_use_PrivateKey(ctx->native_handle(), pkey);
	}
	return *ctx;
}

// client side: plain OpenSSL on the other end of the socketpair; one SSL_write per chunk, then close
static void ClientThread(int fd, std::vector<std::string> chunks, bool abrupt)
{
	SSL_CTX *c = SSL_CTX_new(TLS_client_method());
	SSL *s = SSL_new(c);
	SSL_set_fd(s, fd);
	if (SSL_connect(s) == 1) {
		for (auto& ch : chunks) {
			if (!ch.empty()) SSL_write(s, ch.data(), (int)ch.size());
		}
		// clean: close_notify, then the transport is closed; abrupt: the transport is closed in the middle of the TLS session
		if (!abrupt) SSL_shutdown(s);
	}
	SSL_free(s);
	SSL_CTX_free(c);
	::shutdown(fd, SHUT_WR);
	// wait until the server is done so that it never sees a reset instead of the end of stream
	char buf[256];
	while (::read(fd, buf, sizeof buf) > 0) { }
	::close(fd);
}

static std::vector<std::string> SplitChunks(const std::string& hexlist)
{
	std::vector<std::string> r;
	std::istringstream is(hexlist);
	std::string tok;
	while (std::getline(is, tok, ',')) r.push_back(HexDec(tok));
	return r;
}

template<class ReadFn>
static void StreamLoop(const Shared<AsioTlsStream>::Ptr& stream, long max, ReadFn readOne, std::string& line)
{
	std::string items;
	std::string end = "short";
	size_t big = 0;
	for (int guard = 0; guard < 100000; guard++) {
		l_MaxAlloc = 0;
		l_AllocArmed = true;
		try {
			String s = readOne();
			l_AllocArmed = false;
			if (!items.empty()) items += ",";
			items += HexEnc(s.GetData());
		} catch (const std::invalid_argument&) {
			l_AllocArmed = false;
			end = "err";
			if (max >= 0 && l_MaxAlloc.load() > (size_t)max + 65536) big = 1;
			break;
		} catch (const std::exception&) {
			l_AllocArmed = false;
			end = "short";
			break;
		}
		if (max >= 0 && l_MaxAlloc.load() > (size_t)max + 65536) big = 1;
	}
	line = "items=" + (items.empty() ? std::string(".") : items) + " end=" + end + " big=" + std::to_string(big);
}

// nss_read max=<n> mode=sync|co <hex>[,<hex>...]   (the chunks are sent as separate TLS records)
VOP(nss_read)
{
	long max = a.num("max", -1);
	bool co = a.str("mode", "sync") == "co";
	std::vector<std::string> chunks = SplitChunks(a.pos.at(0));
	int sv[2];
	if (socketpair(AF_UNIX, SOCK_STREAM, 0, sv) != 0) throw std::runtime_error("socketpair");
	std::thread client(ClientThread, sv[1], chunks, a.str("close", "clean") == "abrupt");
	std::string line;
	size_t rest = 0;
	{
		boost::asio::io_context io;
		auto stream = Shared<AsioTlsStream>::Make(io, ServerCtx());
		stream->lowest_layer().assign(boost::asio::ip::tcp::v4(), sv[0]);
		auto drain = [&](auto&& readSome) {
			// whatever the reader left unread (application bytes up to the end of the stream)
			char buf[4096];
			for (;;) {
				boost::system::error_code ec;
				size_t n = readSome(boost::asio::buffer(buf), ec);
				rest += n;
				if (ec) break;
			}
		};
		if (!co) {
			stream->next_layer().handshake(boost::asio::ssl::stream_base::server);
			StreamLoop(stream, max, [&]() { return NetString::ReadStringFromStream(stream, (ssize_t)max); }, line);
			if (line.find("end=err") != std::string::npos)
				drain([&](auto b, boost::system::error_code& ec) { return stream->read_some(b, ec); });
		} else {
			IoEngine::SpawnCoroutine(io, [&](boost::asio::yield_context yc) {
				stream->next_layer().async_handshake(boost::asio::ssl::stream_base::server, yc);
				StreamLoop(stream, max, [&]() { return NetString::ReadStringFromStream(stream, yc, (ssize_t)max); }, line);
				if (line.find("end=err") != std::string::npos)
					drain([&](auto b, boost::system::error_code& ec) { return stream->async_read_some(b, yc[ec]); });
			});
			io.run();
		}
		boost::system::error_code ec;
		stream->lowest_layer().close(ec);
	}
	client.join();
	Out("nss_read " + line + " rest=" + std::to_string(rest));
}

// nss_msg max=<n> mode=sync|co close=clean|abrupt <hex>[,<hex>...]: what JsonRpcConnection::HandleIncomingMessages does with the
// stream - JsonRpc::ReadMessage, then JsonRpc::DecodeMessage (a message that does not decode is dropped, the connection goes on) -
// until ReadMessage throws.  A message is handed over complete or not at all.
static void Canon(const Value& v, std::string& out, int depth);

VOP(nss_msg)
{
	long max = a.num("max", -1);
	bool co = a.str("mode", "sync") == "co";
	std::vector<std::string> chunks = SplitChunks(a.pos.at(0));
	int sv[2];
	if (socketpair(AF_UNIX, SOCK_STREAM, 0, sv) != 0) throw std::runtime_error("socketpair");
	std::thread client(ClientThread, sv[1], chunks, a.str("close", "clean") == "abrupt");
	std::string items, msgs, end = "short";
	auto loop = [&](auto&& readOne) {
		for (int guard = 0; guard < 100000; guard++) {
			String js;
			try {
				js = readOne();
			} catch (const std::invalid_argument&) {
				end = "err";
				break;
			} catch (const std::exception&) {
				end = "short";
				break;
			}
			if (!items.empty()) { items += ","; msgs += ";"; }
			items += HexEnc(js.GetData());
			try {
				Dictionary::Ptr d = JsonRpc::DecodeMessage(js);
				std::string c;
				Canon(d, c, 0);
				msgs += c;
			} catch (const std::exception&) {
				msgs += "E";
			}
		}
	};
	{
		boost::asio::io_context io;
		auto stream = Shared<AsioTlsStream>::Make(io, ServerCtx());
		stream->lowest_layer().assign(boost::asio::ip::tcp::v4(), sv[0]);
		if (!co) {
			stream->next_layer().handshake(boost::asio::ssl::stream_base::server);
			loop([&]() { return JsonRpc::ReadMessage(stream, (ssize_t)max); });
		} else {
			IoEngine::SpawnCoroutine(io, [&](boost::asio::yield_context yc) {
				stream->next_layer().async_handshake(boost::asio::ssl::stream_base::server, yc);
				loop([&]() { return JsonRpc::ReadMessage(stream, yc, (ssize_t)max); });
			});
			io.run();
		}
		boost::system::error_code ec;
		stream->lowest_layer().close(ec);
	}
	client.join();
	Out("nss_msg items=" + (items.empty() ? std::string(".") : items) + " msgs=" + (msgs.empty() ? std::string(".") : msgs) + " end=" + end);
}

// ns_wbig n=<len> via=buf|tls max=<n>: the REAL writers on a payload of n bytes made here (byte i = (i*131+7)&255), read back by the
// REAL readers.  via=buf: WriteStringToStream(std::ostream&) and WriteStringToStream(Stream::Ptr) (must agree), then the buffered
// reader over a StdioStream up to the end.  via=tls: both ends are AsioTlsStreams on a socketpair, the coroutine writer
// (+ async_flush, as JsonRpcConnection::WriteOutgoingMessages does) against the coroutine reader.
// Printed: the header the writer produced, the total number of bytes, the last byte, whether exactly the payload came back.
VOP(ns_wbig)
{
	size_t n = (size_t)a.num("n", 0);
	long max = a.num("max", -1);
	std::string via = a.str("via", "buf");
	std::string payload(n, '\0');
	for (size_t i = 0; i < n; i++) payload[i] = (char)((i * 131 + 7) & 255);
	String str(payload);
	std::ostringstream os;
	NetString::WriteStringToStream(os, str);
	std::string wire = os.str();
	size_t colon = wire.find(':');
	std::string hdr = wire.substr(0, colon == std::string::npos ? 0 : colon + 1);
	int back = 0, err = 0, same = 1;
	if (via == "buf") {
		FIFO::Ptr fifo = new FIFO();
		size_t ret = NetString::WriteStringToStream(fifo, str);
		std::string viaFifo(fifo->GetAvailableBytes(), '\0');
		if (!viaFifo.empty()) fifo->Read(&viaFifo[0], viaFifo.size());
		if (viaFifo != wire || ret != wire.size()) same = 0;
		std::stringstream ss(wire);
		Stream::Ptr stream = new StdioStream(&ss, false);
		StreamReadContext ctx;
		int items = 0;
		bool ok = true, eof = false;
		try {
			String message;
			for (size_t calls = 0; calls < wire.size() / 1024 + 64; calls++) {
				StreamReadStatus srs = NetString::ReadStringFromStream(stream, &message, ctx, false, max);
				if (srs == StatusEof) { eof = true; break; }
				if (srs != StatusNewItem) continue;
				items++;
				if (message.GetData() != payload) ok = false;
			}
		} catch (const std::exception&) {
			err = 1;
		}
		back = (!err && eof && items == 1 && ok && ctx.Size == 0) ? 1 : 0;
	} else {
		int sv[2];
		if (socketpair(AF_UNIX, SOCK_STREAM, 0, sv) != 0) throw std::runtime_error("socketpair");
		boost::asio::io_context io;
		boost::asio::ssl::context cctx(boost::asio::ssl::context::tls_client);
		auto server = Shared<AsioTlsStream>::Make(io, ServerCtx());
		auto client = Shared<AsioTlsStream>::Make(io, cctx);
		server->lowest_layer().assign(boost::asio::ip::tcp::v4(), sv[0]);
		client->lowest_layer().assign(boost::asio::ip::tcp::v4(), sv[1]);
		size_t wrote = 0;
		IoEngine::SpawnCoroutine(io, [&](boost::asio::yield_context yc) {
			try {
				server->next_layer().async_handshake(boost::asio::ssl::stream_base::server, yc);
				String got = NetString::ReadStringFromStream(server, yc, (ssize_t)max);
				back = got.GetData() == payload ? 1 : 0;
			} catch (const std::invalid_argument&) {
				err = 1;
			} catch (const std::exception&) {
				err = 2;
			}
			boost::system::error_code ec;
			server->lowest_layer().close(ec);
		});
		IoEngine::SpawnCoroutine(io, [&](boost::asio::yield_context yc) {
			try {
				client->next_layer().async_handshake(boost::asio::ssl::stream_base::client, yc);
				wrote = NetString::WriteStringToStream(client, str, yc);
				client->async_flush(yc);
			} catch (const std::exception&) {
				// the reader may have refused the frame and closed before everything was written
			}
		});
		io.run();
		boost::system::error_code ec;
		client->lowest_layer().close(ec);
		if (wrote != 0 && wrote != wire.size()) same = 0;
	}
	Out("ns_wbig hdr=" + HexEnc(hdr) + " total=" + std::to_string(wire.size()) + " last=" + HexEnc(wire.substr(wire.size() - 1)) +
		" same=" + std::to_string(same) + " back=" + std::to_string(back) + " err=" + std::to_string(err));
}

// ---------------------------------------------------------------------------------------------------------
// JSON: script syntax of values  n | t | f | i<dec> | d<16 hex digits of the binary64> | "<hex>" | [v,v] | {<hexkey>:v,...}
struct VParser {
	const std::string& s;
	size_t i = 0;
	explicit VParser(const std::string& str) : s(str) { }
	std::string HexRun() { size_t j = i; while (j < s.size() && isxdigit((unsigned char)s[j])) j++; std::string r = s.substr(i, j - i); i = j; return r; }
	Value Parse()
	{
		char c = s.at(i++);
		switch (c) {
			case 'n': return Value();
			case 't': return true;
			case 'f': return false;
			case 'i': { size_t j = i; if (s[j] == '-') j++; while (j < s.size() && isdigit((unsigned char)s[j])) j++;
				double d = std::strtod(s.substr(i, j - i).c_str(), nullptr); i = j; return d; }
			case 'd': { std::string h = s.substr(i, 16); i += 16; uint64_t bits = std::stoull(h, nullptr, 16); double d; std::memcpy(&d, &bits, 8); return d; }
			case '"': { std::string h = HexRun(); if (s.at(i++) != '"') throw std::runtime_error("bad string"); return String(HexDec(h.empty() ? "-" : h)); }
			case '[': { Array::Ptr arr = new Array();
				if (s.at(i) == ']') { i++; return arr; }
				for (;;) { arr->Add(Parse()); char e = s.at(i++); if (e == ']') break; if (e != ',') throw std::runtime_error("bad array"); }
				return arr; }
			case '{': { Dictionary::Ptr d = new Dictionary();
				if (s.at(i) == '}') { i++; return d; }
				for (;;) { std::string h = HexRun(); if (s.at(i++) != ':') throw std::runtime_error("bad key");
					Value v = Parse(); d->Set(String(HexDec(h.empty() ? "-" : h)), v);
					char e = s.at(i++); if (e == '}') break; if (e != ',') throw std::runtime_error("bad dict"); }
				return d; }
		}
		throw std::runtime_error("bad value token");
	}
};

static std::string HexOrEmpty(const std::string& s) { return s.empty() ? "" : HexEnc(s); }

static void Canon(const Value& v, std::string& out, int depth)
{
	switch (v.GetType()) {
		case ValueEmpty: out += "n"; return;
		case ValueBoolean: out += v.ToBool() ? "t" : "f"; return;
		case ValueNumber: { double d = v.Get<double>(); uint64_t bits; std::memcpy(&bits, &d, 8); char b[32]; snprintf(b, sizeof b, "d%016llx", (unsigned long long)bits); out += b; return; }
		case ValueString: out += "\"" + HexOrEmpty(v.Get<String>().GetData()) + "\""; return;
		case ValueObject: {
			Object::Ptr o = v.Get<Object::Ptr>();
			if (Array::Ptr arr = dynamic_pointer_cast<Array>(o)) {
				out += "[";
				ObjectLock olock(arr);
				bool first = true;
				for (const Value& e : arr) { if (!first) out += ","; first = false; Canon(e, out, depth + 1); }
				out += "]";
				return;
			}
			if (Dictionary::Ptr d = dynamic_pointer_cast<Dictionary>(o)) {
				out += "{";
				ObjectLock olock(d);
				bool first = true;
				for (const Dictionary::Pair& kv : d) { if (!first) out += ","; first = false; out += HexOrEmpty(kv.first.GetData()) + ":"; Canon(kv.second, out, depth + 1); }
				out += "}";
				return;
			}
			out += "?";
			return;
		}
	}
	out += "?";
}

// js_rt cmp=<0|1> <value>
VOP(js_rt)
{
	VParser p(a.pos.at(0));
	Value v = p.Parse();
	try {
		String enc = JsonEncode(v);
		Value back = a.str("dec", "net") == "trusted" ? JsonDecodeTrusted(enc) : JsonDecode(enc);
		std::string c;
		Canon(back, c, 0);
		Out("js_rt enc=" + (a.num("cmp", 1) ? HexEnc(enc.GetData()) : std::string("~")) + " dec=" + c);
	} catch (const std::exception&) {
		Out("js_rt err");
	}
}

// js_long reps=<k> where=val|key dec=net|trusted <hexpattern>: a very long string (the pattern k times) built here, as a value or as
// a dictionary key, through the real JsonEncode and back through the real decoder: length of the encoding, its first bytes,
// and whether the decoded value equals the original
VOP(js_long)
{
	std::string pat = HexDec(a.pos.at(0));
	long reps = a.num("reps", 1);
	std::string body;
	body.reserve(pat.size() * reps);
	for (long i = 0; i < reps; i++) body += pat;
	bool key = a.str("where", "val") == "key";
	Value v;
	if (key) { Dictionary::Ptr d = new Dictionary(); d->Set(String(body), Empty); v = d; } else v = String(body);
	try {
		String enc = JsonEncode(v);
		Value back = a.str("dec", "net") == "trusted" ? JsonDecodeTrusted(enc) : JsonDecode(enc);
		bool same = false;
		if (key) {
			if (back.IsObjectType<Dictionary>()) { Dictionary::Ptr d = back; same = d->GetLength() == 1 && d->Contains(String(body)) && d->Get(String(body)).IsEmpty(); }
		} else {
			same = back.IsString() && back.Get<String>().GetData() == body;
		}
		Out("js_long len=" + std::to_string(enc.GetLength()) + " head=" + HexEnc(enc.GetData().substr(0, 12)) + " same=" + std::to_string(same ? 1 : 0));
	} catch (const std::exception&) {
		Out("js_long err");
	}
}

// js_dec <hex>
VOP(js_dec)
{
	std::string in = HexDec(a.pos.at(0));
	try {
		Value v = a.str("dec", "net") == "trusted" ? JsonDecodeTrusted(String(in)) : JsonDecode(String(in));
		std::string c;
		Canon(v, c, 0);
		Out("js_dec ok " + c);
	} catch (const std::exception&) {
		Out("js_dec err");
	}
}

// js_msg <hex>: JsonRpc::DecodeMessage (must be a dictionary)
VOP(js_msg)
{
	std::string in = HexDec(a.pos.at(0));
	try {
		Dictionary::Ptr d = JsonRpc::DecodeMessage(String(in));
		std::string c;
		Canon(d, c, 0);
		Out("js_msg ok " + c);
	} catch (const std::exception&) {
		Out("js_msg err");
	}
}

// js_deep n=<depth> close=<0|1> kind=<a|o> mode=<plain|co>: n nested arrays (or objects {"a":{"a":...}}), decoded on the
// thread's own stack or on a coroutine stack of the size IoEngine gives the JSON-RPC reader
VOP(js_deep)
{
	long n = a.num("n", 1);
	bool close = a.num("close", 1) != 0;
	bool obj = a.str("kind", "a") == "o";
	std::string doc;
	for (long i = 0; i < n; i++) doc += obj ? "{\"a\":" : "[";
	if (obj) doc += "0";
	if (close) for (long i = 0; i < n; i++) doc += obj ? "}" : "]";
	std::string res;
	auto run = [&]() {
		try {
			Value v = a.str("dec", "net") == "trusted" ? JsonDecodeTrusted(String(doc)) : JsonDecode(String(doc));
			// depth of what was built, iteratively
			long depth = 0;
			Value cur = v;
			for (;;) {
				if (cur.IsObjectType<Array>()) { Array::Ptr arr = cur; if (arr->GetLength() == 0) { depth++; break; } cur = arr->Get(0); depth++; }
				else if (cur.IsObjectType<Dictionary>()) { Dictionary::Ptr d = cur; depth++; if (!d->Contains("a")) break; cur = d->Get("a"); }
				else break;
			}
			res = "ok depth=" + std::to_string(depth);
		} catch (const std::exception&) {
			res = "err";
		}
	};
	auto runMode = [&]() {
		if (a.str("mode", "plain") == "co") {
			boost::asio::io_context io;
			IoEngine::SpawnCoroutine(io, [&](boost::asio::yield_context) { run(); });
			io.run();
		} else {
			run();
		}
	};
	if (n <= 64) {
		runMode();
	} else {
		// beyond the depth the property demands, a stack overflow is possible (F-C20-a); an overflow of a malloc'ed
		// coroutine stack corrupts the heap before it kills the process, so the attempt runs in a forked child
		int pfd[2];
		if (pipe(pfd) != 0) throw std::runtime_error("pipe");
		pid_t pid = fork();
		if (pid == 0) {
			::close(pfd[0]);
			alarm(60);
			runMode();
			(void)!write(pfd[1], res.data(), res.size());
			_exit(0);
		}
		::close(pfd[1]);
		char buf[128];
		ssize_t k;
		std::string got;
		while ((k = read(pfd[0], buf, sizeof buf)) > 0) got.append(buf, k);
		::close(pfd[0]);
		int status = 0;
		waitpid(pid, &status, 0);
		if (WIFEXITED(status) && WEXITSTATUS(status) == 0 && !got.empty()) res = got;
		else res = "crash status=" + std::to_string(WIFSIGNALED(status) ? WTERMSIG(status) : -WEXITSTATUS(status));
	}
	Out("js_deep n=" + std::to_string(n) + " " + res);
}

// js_encdeep n=<depth> mode=<plain|co>: JsonEncode (and destruction) of an n-deep array built without the decoder, in a forked child.
// Experiment only (not part of the generated population): such a value cannot come from the network any more.
VOP(js_encdeep)
{
	long n = a.num("n", 1);
	int pfd[2];
	if (pipe(pfd) != 0) throw std::runtime_error("pipe");
	pid_t pid = fork();
	if (pid == 0) {
		::close(pfd[0]);
		alarm(60);
		std::string res;
		auto run = [&]() {
			Array::Ptr cur = new Array();
			for (long i = 1; i < n; i++) { Array::Ptr outer = new Array(); outer->Add(cur); cur = outer; }
			String enc = JsonEncode(cur);
			res = "ok len=" + std::to_string(enc.GetLength());
			(void)!write(pfd[1], res.data(), res.size());
			res = "";
			cur = nullptr; // destruction
			res = " destroyed";
		};
		if (a.str("mode", "plain") == "co") {
			boost::asio::io_context io;
			IoEngine::SpawnCoroutine(io, [&](boost::asio::yield_context) { run(); });
			io.run();
		} else run();
		(void)!write(pfd[1], res.data(), res.size());
		_exit(0);
	}
	::close(pfd[1]);
	char buf[128]; ssize_t k; std::string got;
	while ((k = read(pfd[0], buf, sizeof buf)) > 0) got.append(buf, k);
	::close(pfd[0]);
	int status = 0;
	waitpid(pid, &status, 0);
	Out("js_encdeep n=" + std::to_string(n) + " " + (got.empty() ? std::string("-") : got) + (WIFSIGNALED(status) ? " crash status=" + std::to_string(WTERMSIG(status)) : std::string("")));
}
