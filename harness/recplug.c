/* recplug - recording plugin for the C09 tie.
 * Writes its argument vector, length-prefixed, to the file named by RECPLUG_FILE:
 *   "<argc>\n" then for every argument "<length>\n<bytes>\n".
 * Prints the bytes hex-encoded in RECPLUG_OUT to stdout, optionally sleeps RECPLUG_SLEEP seconds,
 * optionally kills itself with signal RECPLUG_SIGNAL, and exits with status RECPLUG_EXIT (default 0).
 */
#include <stdio.h>
#include <stdlib.h>
#include <string.h>
#include <signal.h>
#include <unistd.h>

static int hexval(int c)
{
	if (c >= '0' && c <= '9') return c - '0';
	if (c >= 'a' && c <= 'f') return c - 'a' + 10;
	if (c >= 'A' && c <= 'F') return c - 'A' + 10;
	return -1;
}

int main(int argc, char **argv)
{
	const char *file = getenv("RECPLUG_FILE");
	const char *out = getenv("RECPLUG_OUT");
	const char *ex = getenv("RECPLUG_EXIT");
	const char *sl = getenv("RECPLUG_SLEEP");
	const char *sg = getenv("RECPLUG_SIGNAL");
	int i;

	if (file && *file) {
		char tmp[4096];
		FILE *f;
		snprintf(tmp, sizeof(tmp), "%s.tmp", file);
		f = fopen(tmp, "wb");
		if (f) {
			fprintf(f, "%d\n", argc);
			for (i = 0; i < argc; i++) {
				fprintf(f, "%zu\n", strlen(argv[i]));
				fwrite(argv[i], 1, strlen(argv[i]), f);
				fputc('\n', f);
			}
			fclose(f);
			rename(tmp, file);
		}
	}

	if (out) {
		size_t n = strlen(out);
		size_t k;
		for (k = 0; k + 1 < n; k += 2) {
			int h = hexval(out[k]), l = hexval(out[k + 1]);
			if (h < 0 || l < 0) break;
			putchar(h * 16 + l);
		}
		fflush(stdout);
	}

	if (sl && *sl)
		sleep((unsigned)atoi(sl));

	if (sg && *sg) {
		signal(atoi(sg), SIG_DFL);
		kill(getpid(), atoi(sg));
		pause();
	}

	return ex && *ex ? atoi(ex) : 0;
}
