/* recplug - recording plugin for the C09 tie.
 * Writes its argument vector, length-prefixed, to the file named by RECPLUG_FILE:
 *   "<argc>\n" then for every argument "<length>\n<bytes>\n".
 * Prints the bytes hex-encoded in RECPLUG_OUT to stdout, optionally sleeps RECPLUG_SLEEP seconds,
 * optionally kills itself with signal RECPLUG_SIGNAL, and exits with status RECPLUG_EXIT (default 0).
 * Timeout scenarios:
 *   RECPLUG_TERM=ignore            SIGTERM is ignored (only SIGKILL ends the sleep)
 *   RECPLUG_TERM=exit:<code>:<ms>  SIGTERM is caught; <ms> milliseconds later "trapped" is printed and the
 *                                  process exits with <code>
 *   RECPLUG_GCHILD=<seconds>       a grandchild that keeps stdout open sleeps <seconds>; its pid is written to
 *                                  "<RECPLUG_FILE>.gc"; the plugin itself goes on (sleep / exit) as configured
 */
#include <stdio.h>
#include <stdlib.h>
#include <string.h>
#include <signal.h>
#include <unistd.h>
#include <time.h>
#include <errno.h>

static volatile sig_atomic_t got_term = 0;
static void on_term(int sig) { (void)sig; got_term = 1; }

static void msleep(long ms)
{
	struct timespec ts;
	ts.tv_sec = ms / 1000;
	ts.tv_nsec = (ms % 1000) * 1000000L;
	while (nanosleep(&ts, &ts) < 0 && errno == EINTR && !got_term)
		;
}

static int hexval(int c)
{
	if (c >= '0' && c <= '9') return c - '0';
	if (c >= 'a' && c <= 'f') return c - 'a' + 10;
	if (c >= 'A' && c <= 'F') return c - 'A' + 10;
	return -1;
}

int main(int argc, char **argv)
{
	const char *file = getenv("RECPLUG_FILE");
	const char *out = getenv("RECPLUG_OUT");
	const char *ex = getenv("RECPLUG_EXIT");
	const char *sl = getenv("RECPLUG_SLEEP");
	const char *sg = getenv("RECPLUG_SIGNAL");
	int i;

	if (file && *file) {
		char tmp[4096];
		FILE *f;
		snprintf(tmp, sizeof(tmp), "%s.tmp", file);
		f = fopen(tmp, "wb");
		if (f) {
			fprintf(f, "%d\n", argc);
			for (i = 0; i < argc; i++) {
				fprintf(f, "%zu\n", strlen(argv[i]));
				fwrite(argv[i], 1, strlen(argv[i]), f);
				fputc('\n', f);
			}
			fclose(f);
			rename(tmp, file);
		}
	}

	if (out) {
		size_t n = strlen(out);
		size_t k;
		for (k = 0; k + 1 < n; k += 2) {
			int h = hexval(out[k]), l = hexval(out[k + 1]);
			if (h < 0 || l < 0) break;
			putchar(h * 16 + l);
		}
		fflush(stdout);
	}

	{
		const char *gc = getenv("RECPLUG_GCHILD");
		if (gc && *gc) {
			pid_t pid = fork();
			if (pid == 0) {
				/* keeps stdout/stderr (the pipe to Icinga) open */
				msleep(atol(gc) * 1000L);
				_exit(0);
			}
			if (file && *file) {
				char gp[4096];
				FILE *g;
				snprintf(gp, sizeof(gp), "%s.gc", file);
				g = fopen(gp, "w");
				if (g) { fprintf(g, "%ld\n", (long)pid); fclose(g); }
			}
		}
	}

	{
		const char *tm = getenv("RECPLUG_TERM");
		int tcode = -1;
		long tdelay = 0;
		if (tm && strcmp(tm, "ignore") == 0)
			signal(SIGTERM, SIG_IGN);
		else if (tm && strncmp(tm, "exit:", 5) == 0) {
			struct sigaction sa;
			memset(&sa, 0, sizeof(sa));
			sa.sa_handler = on_term;
			sigaction(SIGTERM, &sa, NULL);
			sscanf(tm + 5, "%d:%ld", &tcode, &tdelay);
		}

		if (sl && *sl) {
			long left = atol(sl) * 1000L;
			while (left > 0 && !got_term) {
				msleep(left > 50 ? 50 : left);
				left -= 50;
			}
		}

		if (got_term && tcode >= 0) {
			struct timespec ts;
			ts.tv_sec = tdelay / 1000;
			ts.tv_nsec = (tdelay % 1000) * 1000000L;
			while (nanosleep(&ts, &ts) < 0 && errno == EINTR)
				;
			fputs("trapped", stdout);
			fflush(stdout);
			return tcode;
		}
	}

	if (sg && *sg) {
		signal(atoi(sg), SIG_DFL);
		kill(getpid(), atoi(sg));
		pause();
	}

	return ex && *ex ? atoi(ex) : 0;
}
