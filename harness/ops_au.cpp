// C10 - HA authority.  Real Endpoint/Zone/Host/Service/Notification/Downtime/Comment/User objects loaded
// from config text, a real (never started, PKI-less) ApiListener whose local endpoint is set by the
// harness, real JsonRpcConnection objects registered as clients of the peer endpoint, and the real
// ApiListener::UpdateObjectAuthority / ConfigObject::SetAuthority / Checkable::SendNotifications /
// NotificationComponent::NotificationTimerHandler / CheckerComponent::ObjectHandler.
//
// Two cluster nodes share this process: the per-node state UpdateObjectAuthority reads or writes
// (paused of every object, start time, UpdatedObjectAuthority flag, clients of the peer endpoint,
// notification_number / stashed_notifications) is swapped in before an operation of that node runs.
#include "vdrive.hpp"
#include "base/utility.hpp"
#include "base/application.hpp"
#include "base/configtype.hpp"
#include "base/io-engine.hpp"
#include "config/configitem.hpp"
#include "icinga/host.hpp"
#include "icinga/service.hpp"
#include "icinga/notification.hpp"
#include "icinga/downtime.hpp"
#include "icinga/comment.hpp"
#include "icinga/user.hpp"
#include "remote/apilistener.hpp"
#include "remote/endpoint.hpp"
#include "remote/zone.hpp"
#include "remote/jsonrpcconnection.hpp"
#include "checker/checkercomponent.hpp"
#include "notification/notificationcomponent.hpp"
#include <boost/asio/io_context.hpp>
#include "icinga/command.hpp"
#include <thread>
#include <atomic>
#include <random>
#include <chrono>
#include <set>

using namespace icinga;

namespace {

struct ObjSt {
	bool paused{true};
	int notifnum{0};
	Array::Ptr stash;
};

struct NodeCtx {
	std::string me, peer;
	double start{0};
	bool conn{false};
	bool updated{false};
	std::map<ConfigObject *, ObjSt> st;
};

struct Obs {
	ConfigObject::Ptr obj;
	std::string kind;
	bool once{true};
};

NodeCtx l_Node[2];
int l_Cur = -1;
bool l_HaveZone = false;
std::vector<Obs> l_Objs;                        // observed, in creation order
std::map<ConfigObject *, std::pair<int, int>> l_Calls; // Pause()/Resume() calls during the current op
ApiListener::Ptr l_Listener;
CheckerComponent::Ptr l_Checker;
NotificationComponent::Ptr l_NotifComp;
boost::asio::io_context l_Io;                   // never run
JsonRpcConnection::Ptr l_Client[2];             // l_Client[n]: node n's connection to its peer
bool l_Init = false;
std::atomic<bool> l_Concurrent{false};          // a real-thread operation is running: the single-threaded bookkeeping is off

void InitOnce()
{
	if (l_Init) return;
	l_Init = true;
	LoadConfig(
		"object CheckCommand \"au-cc\" { command = [ \"/bin/true\" ] }\n"
		"object NotificationCommand \"au-nc\" { command = [ \"/bin/true\" ] }\n"
		"object User \"au-user\" { enable_notifications = false }\n");
	l_Listener = new ApiListener();
	l_Checker = new CheckerComponent();
	l_Checker->OnConfigLoaded();
	l_NotifComp = new NotificationComponent();
	ConfigObject::OnPauseCalledChanged.connect([](const ConfigObject::Ptr& o, const Value&) {
		if (l_Concurrent.load()) return;
		if (o->GetPauseCalled()) l_Calls[o.get()].first++;
	});
	ConfigObject::OnResumeCalledChanged.connect([](const ConfigObject::Ptr& o, const Value&) {
		if (l_Concurrent.load()) return;
		if (o->GetResumeCalled()) l_Calls[o.get()].second++;
	});
}

int NodeIdx(const Args& a)
{
	const std::string& n = a.pos.at(0);
	if (n == "A") return 0;
	if (n == "B") return 1;
	throw std::runtime_error("node must be A or B");
}

std::string Esc(const std::string& s)
{
	std::string r;
	for (char c : s) {
		if (c == '"' || c == '\\') r += '\\';
		r += c;
	}
	return r;
}

// the listener is only visible while an operation of a node runs (nothing else in the process
// should see a half-configured ApiListener)
struct ListenerScope {
	ListenerScope(int n) {
		if (!l_HaveZone) return;
		l_Listener->m_LocalEndpoint = Endpoint::GetByName(l_Node[n].me);
		l_Listener->SetIdentity(l_Node[n].me);
		ApiListener::m_Instance = l_Listener;
	}
	~ListenerScope() { ApiListener::m_Instance = nullptr; }
};

void SetClients(int n)
{
	if (!l_HaveZone) return;
	Endpoint::Ptr me = Endpoint::GetByName(l_Node[n].me), peer = Endpoint::GetByName(l_Node[n].peer);
	{ std::unique_lock<std::mutex> lock(me->m_ClientsLock); me->m_Clients.clear(); }
	{
		std::unique_lock<std::mutex> lock(peer->m_ClientsLock);
		peer->m_Clients.clear();
		if (l_Node[n].conn) peer->m_Clients.insert(l_Client[n]);
	}
}

void ResyncChecker()
{
	for (auto& o : l_Objs)
		if (dynamic_pointer_cast<Checkable>(o.obj)) l_Checker->ObjectHandler(o.obj);
}

void SaveCtx()
{
	if (l_Cur < 0) return;
	NodeCtx& c = l_Node[l_Cur];
	for (auto& o : l_Objs) {
		ObjSt& s = c.st[o.obj.get()];
		s.paused = o.obj->GetPaused();
		Notification::Ptr nt = dynamic_pointer_cast<Notification>(o.obj);
		if (nt) { s.notifnum = nt->GetNotificationNumber(); s.stash = nt->GetStashedNotifications(); }
	}
	c.updated = ApiListener::m_UpdatedObjectAuthority.load();
	c.start = Application::GetStartTime();
}

void LoadCtx(int n)
{
	if (l_Cur == n) return;
	SaveCtx();
	l_Cur = n;
	NodeCtx& c = l_Node[n];
	for (auto& o : l_Objs) {
		ObjSt& s = c.st[o.obj.get()];
		o.obj->SetPaused(s.paused, true);
		Notification::Ptr nt = dynamic_pointer_cast<Notification>(o.obj);
		if (nt) { nt->SetNotificationNumber(s.notifnum, true); nt->SetStashedNotifications(s.stash ? s.stash : Array::Ptr(new Array()), true); }
	}
	ApiListener::m_UpdatedObjectAuthority.store(c.updated);
	Application::SetStartTime(c.start);
	SetClients(n);
	ResyncChecker();
}

// `paused' of a newly constructed object of the same class (the .ti default), from the real constructor
bool DefaultPaused(const ConfigObject::Ptr& obj)
{
	static std::map<Type *, bool> cache;
	Type::Ptr t = obj->GetReflectionType();
	auto it = cache.find(t.get());
	if (it != cache.end()) return it->second;
	ConfigObject::Ptr fresh = dynamic_pointer_cast<ConfigObject>(t->Instantiate(std::vector<Value>()));
	bool v = fresh ? fresh->GetPaused() : true;
	cache[t.get()] = v;
	return v;
}

// what a freshly started process has: the .ti default of `paused'; ConfigObject::Activate resumes
// run-everywhere objects at once
void FreshState(const Obs& o)
{
	if (!o.obj->IsActive()) return;
	o.obj->SetPaused(o.once ? DefaultPaused(o.obj) : false, true);
	Notification::Ptr nt = dynamic_pointer_cast<Notification>(o.obj);
	if (nt) { nt->SetNotificationNumber(0, true); nt->SetStashedNotifications(new Array(), true); }
}

char Dig(long v) { return v < 0 ? '?' : (v > 9 ? '9' : (char)('0' + v)); }

std::string Vec()
{
	std::string r;
	for (auto& o : l_Objs) r += o.obj->GetPaused() ? '1' : '0';
	return r.empty() ? "-" : r;
}

std::string CallVec(bool resume)
{
	std::string r;
	for (auto& o : l_Objs) {
		auto it = l_Calls.find(o.obj.get());
		long v = it == l_Calls.end() ? 0 : (resume ? it->second.second : it->second.first);
		r += Dig(v);
	}
	return r.empty() ? "-" : r;
}

std::string StashVec()
{
	std::string r;
	for (auto& o : l_Objs) {
		Notification::Ptr nt = dynamic_pointer_cast<Notification>(o.obj);
		r += nt ? Dig((long)nt->GetStashedNotifications()->GetLength()) : '.';
	}
	return r.empty() ? "-" : r;
}

std::vector<int> NotifNums()
{
	std::vector<int> r;
	for (auto& o : l_Objs) {
		Notification::Ptr nt = dynamic_pointer_cast<Notification>(o.obj);
		r.push_back(nt ? nt->GetNotificationNumber() : 0);
	}
	return r;
}

std::string SentVec(const std::vector<int>& before)
{
	std::vector<int> after = NotifNums();
	std::string r;
	for (size_t i = 0; i < l_Objs.size(); i++)
		r += dynamic_pointer_cast<Notification>(l_Objs[i].obj) ? Dig(after[i] - before[i]) : '.';
	return r.empty() ? "-" : r;
}

void RemoveObject(const ConfigObject::Ptr& obj)
{
	if (!obj) return;
	Type::Ptr type = obj->GetReflectionType();
	String name = obj->GetName();
	try { obj->Deactivate(true); } catch (...) {}
	obj->Unregister();
	ConfigItem::Ptr item = ConfigItem::GetByTypeAndName(type, name);
	if (item) item->Unregister();
}

void Observe(const ConfigObject::Ptr& obj, const std::string& kind, bool once, bool active)
{
	if (!obj) throw std::runtime_error("object not created: " + kind);
	if (!once) {
		// stands for a feature that chose HARunEverywhere in OnConfigLoaded: Activate would have resumed it
		obj->SetHAMode(HARunEverywhere);
		obj->SetAuthority(true);
	}
	if (!active) obj->Deactivate(false);
	l_Objs.push_back({obj, kind, once});
}

std::string Join(const Args& a)
{
	std::string r;
	for (const char *k : {"h", "s", "n"}) {
		if (!a.has(k)) continue;
		if (!r.empty()) r += "!";
		r += HexDec(a.str(k));
	}
	return r;
}

// A run-once object whose Resume()/Pause() are observable and may take a moment (like a feature that
// (re)connects to its backend there).  The calls are logged in the order they happen.
class AuCountedObject final : public Command
{
public:
	std::mutex LogMutex;
	std::string CallLog;
	std::atomic<int> MaxDelayUs{0};

	void Note(char c)
	{
		{ std::unique_lock<std::mutex> lock(LogMutex); CallLog += c; }
		int d = MaxDelayUs.load();
		if (d > 0) {
			thread_local std::minstd_rand rnd(std::hash<std::thread::id>()(std::this_thread::get_id()));
			int us = (int)(rnd() % (unsigned)(d + 1));
			if (rnd() % 3 == 0) {
				auto until = std::chrono::steady_clock::now() + std::chrono::microseconds(us);
				while (std::chrono::steady_clock::now() < until) std::this_thread::yield();
			}
		}
	}
	void Resume() override { Note('R'); Command::Resume(); }
	void Pause() override { Note('P'); Command::Pause(); }
};

} // namespace

// au_conc n=<threads> rounds=<k> p0=<0|1> mix=<0|1> delay=<max us inside Resume/Pause>
// Per round: the object is put into state p0, n real threads are released together; with mix=0 all of them
// run the real ApiListener::UpdateObjectAuthority() (no zone: authority = true for everything), with mix=1 every
// second one calls SetAuthority(false) on the object instead.  Reported: the set of distinct
// (p0 : call sequence : paused after all threads joined) seen over the rounds.
VOP(au_conc)
{
	InitOnce();
	int n = (int)a.num("n", 4), rounds = (int)a.num("rounds", 100);
	bool p0 = a.num("p0", 1) != 0, mix = a.num("mix", 0) != 0;
	intrusive_ptr<AuCountedObject> obj = new AuCountedObject();
	obj->SetName("au-conc-object", true);
	obj->Register();
	obj->PreActivate();
	obj->MaxDelayUs.store((int)a.num("delay", 100));
	ApiListener::m_Instance = nullptr;
	std::set<std::string> seen;
	std::minstd_rand jr((unsigned)a.num("seed", 1));
	l_Concurrent.store(true);
	for (int r = 0; r < rounds; r++) {
		obj->SetPaused(p0, true);
		{ std::unique_lock<std::mutex> lock(obj->LogMutex); obj->CallLog.clear(); }
		std::atomic<int> ready{0};
		std::atomic<bool> go{false};
		std::vector<std::thread> ths;
		for (int j = 0; j < n; j++) {
			int jitter = (int)(jr() % 40);
			ths.emplace_back([&, j, jitter]() {
				ready++;
				while (!go.load()) std::this_thread::yield();
				if (jitter > 20) {
					auto until = std::chrono::steady_clock::now() + std::chrono::microseconds(jitter - 20);
					while (std::chrono::steady_clock::now() < until) { }
				}
				if (mix && (j % 2 == 1)) obj->SetAuthority(false);
				else ApiListener::UpdateObjectAuthority();
			});
		}
		while (ready.load() < n) std::this_thread::yield();
		go.store(true);
		for (auto& t : ths) t.join();
		std::string log;
		{ std::unique_lock<std::mutex> lock(obj->LogMutex); log = obj->CallLog; }
		seen.insert(std::string(p0 ? "1" : "0") + ":" + (log.empty() ? "-" : log) + ":" + (obj->GetPaused() ? "1" : "0"));
	}
	l_Concurrent.store(false);
	obj->MaxDelayUs.store(0);
	try { obj->Deactivate(false); } catch (...) {}
	obj->Unregister();
	ApiListener::m_UpdatedObjectAuthority.store(false);
	l_Calls.clear();
	std::string seqs;
	for (auto& t : seen) { if (!seqs.empty()) seqs += ","; seqs += t; }
	std::ostringstream o;
	o << "cc n=" << n << " rounds=" << rounds << " p0=" << (p0 ? 1 : 0) << " mix=" << (mix ? 1 : 0) << " seqs=" << seqs;
	Out(o.str());
}

// au_sdbm <hex>  ->  sdbm <decimal>
VOP(au_sdbm)
{
	String s = HexDec(a.pos.at(0));
	Out("sdbm " + std::to_string((unsigned long long)Utility::SDBM(s)));
}

// au_lt <hex> <hex>  ->  lt <0|1>   (the comparison the endpoint sort uses)
VOP(au_lt)
{
	String x = HexDec(a.pos.at(0)), y = HexDec(a.pos.at(1));
	Out(std::string("lt ") + ((x < y) ? "1" : "0"));
}

// au_cfg lay=none|one|two a=<hex> b=<hex> order=ab|ba create=ab|ba z=<suffix of the zone name>
VOP(au_cfg)
{
	InitOnce();
	std::string lay = a.str("lay", "two");
	std::string na = HexDec(a.str("a")), nb = HexDec(a.str("b"));
	l_Node[0] = NodeCtx(); l_Node[1] = NodeCtx();
	l_Node[0].me = na; l_Node[0].peer = nb; l_Node[1].me = nb; l_Node[1].peer = na;
	l_Cur = -1;
	l_HaveZone = (lay != "none");
	if (!l_HaveZone) return;
	bool ab = a.str("create", "ab") == "ab";
	const std::string& first = ab ? na : nb;
	const std::string& second = ab ? nb : na;
	std::string zs = a.str("z", "0");
	std::ostringstream c;
	c << "object Endpoint \"" << Esc(first) << "\" { }\n";
	c << "object Endpoint \"" << Esc(second) << "\" { }\n";
	if (lay == "two") {
		bool oab = a.str("order", "ab") == "ab";
		c << "object Zone \"au-z" << zs << "\" { endpoints = [ \"" << Esc(oab ? na : nb) << "\", \"" << Esc(oab ? nb : na) << "\" ] }\n";
	} else {
		c << "object Zone \"au-za" << zs << "\" { endpoints = [ \"" << Esc(na) << "\" ] }\n";
		c << "object Zone \"au-zb" << zs << "\" { endpoints = [ \"" << Esc(nb) << "\" ] }\n";
	}
	LoadConfig(c.str());
	Observe(Endpoint::GetByName(first), "other", true, true);
	Observe(Endpoint::GetByName(second), "other", true, true);
	if (lay == "two") {
		Observe(Zone::GetByName("au-z" + zs), "other", true, true);
	} else {
		Observe(Zone::GetByName("au-za" + zs), "other", true, true);
		Observe(Zone::GetByName("au-zb" + zs), "other", true, true);
	}
	l_Client[0] = new JsonRpcConnection(nb, true, nullptr, RoleClient, l_Io);
	l_Client[1] = new JsonRpcConnection(na, true, nullptr, RoleClient, l_Io);
}

// au_obj kind=host|service|notification|downtime|comment|user h=<hex> [s=<hex>] [n=<hex>] once=0|1 active=0|1
VOP(au_obj)
{
	InitOnce();
	std::string kind = a.str("kind");
	std::string h = a.has("h") ? HexDec(a.str("h")) : "", s = a.has("s") ? HexDec(a.str("s")) : "", n = a.has("n") ? HexDec(a.str("n")) : "";
	std::string full = Join(a);
	bool once = a.num("once", 1) != 0, active = a.num("active", 1) != 0;
	std::ostringstream c;
	std::string on = "  host_name = \"" + Esc(h) + "\"\n" + (a.has("s") ? "  service_name = \"" + Esc(s) + "\"\n" : "");
	ConfigObject::Ptr obj;
	if (kind == "host") {
		c << "object Host \"" << Esc(h) << "\" {\n  check_command = \"au-cc\"\n  enable_active_checks = false\n}\n";
		LoadConfig(c.str());
		obj = Host::GetByName(h);
	} else if (kind == "service") {
		c << "object Service \"" << Esc(s) << "\" {\n  host_name = \"" << Esc(h) << "\"\n  check_command = \"au-cc\"\n  enable_active_checks = false\n}\n";
		LoadConfig(c.str());
		obj = Service::GetByNamePair(h, s);
	} else if (kind == "notification") {
		c << "object Notification \"" << Esc(n) << "\" {\n" << on << "  command = \"au-nc\"\n  users = [ \"au-user\" ]\n  interval = 0\n}\n";
		LoadConfig(c.str());
		obj = Notification::GetByName(full);
	} else if (kind == "downtime") {
		c << "object Downtime \"" << Esc(n) << "\" {\n" << on << "  author = \"au\"\n  comment = \"au\"\n  start_time = 2100000000\n  end_time = 2100003600\n}\n";
		LoadConfig(c.str());
		obj = Downtime::GetByName(full);
	} else if (kind == "comment") {
		c << "object Comment \"" << Esc(n) << "\" {\n" << on << "  author = \"au\"\n  text = \"au\"\n}\n";
		LoadConfig(c.str());
		obj = Comment::GetByName(full);
	} else if (kind == "user") {
		c << "object User \"" << Esc(n) << "\" { enable_notifications = false }\n";
		LoadConfig(c.str());
		obj = User::GetByName(n);
	} else
		throw std::runtime_error("unknown kind " + kind);
	Observe(obj, kind, once, active);
}

// au_begin: both processes freshly started with this configuration
VOP(au_begin)
{
	std::ostringstream o;
	o << "objs";
	for (auto& ob : l_Objs) {
		FreshState(ob);
		o << " " << HexEnc(ob.obj->GetName()) << ":" << ob.kind << ":" << (ob.obj->GetHAMode() == HARunOnce ? 1 : 0) << ":" << (ob.obj->IsActive() ? 1 : 0) << ":" << (ob.obj->GetPaused() ? 1 : 0);
	}
	Out(o.str());
	for (int n = 0; n < 2; n++) {
		NodeCtx& c = l_Node[n];
		c.start = 0; c.conn = false; c.updated = false; c.st.clear();
		for (auto& ob : l_Objs) { ObjSt s; s.paused = ob.obj->GetPaused(); s.stash = new Array(); c.st[ob.obj.get()] = s; }
	}
	l_Cur = -1;
	LoadCtx(0);
}

VOP(au_restart)
{
	int n = NodeIdx(a);
	LoadCtx(n);
	for (auto& ob : l_Objs) FreshState(ob);
	ApiListener::m_UpdatedObjectAuthority.store(false);
	Application::SetStartTime(0);
	l_Node[n].conn = false;
	SetClients(n);
	ResyncChecker();
	Out("rs " + a.pos.at(0) + " v=" + Vec());
}

VOP(au_run)
{
	int n = NodeIdx(a);
	LoadCtx(n);
	Application::SetStartTime(Utility::GetTime());
	Out("rn " + a.pos.at(0));
}

static void ConnLine(const Args& a, int n)
{
	bool c = false;
	if (l_HaveZone) c = Endpoint::GetByName(l_Node[n].peer)->GetConnected();
	Out(std::string("cn ") + a.pos.at(0) + " " + (c ? "1" : "0"));
}

VOP(au_connect)
{
	int n = NodeIdx(a);
	LoadCtx(n);
	if (l_HaveZone && !l_Node[n].conn) {
		ListenerScope ls(n);
		Endpoint::GetByName(l_Node[n].peer)->AddClient(l_Client[n]);
	}
	l_Node[n].conn = true;
	ConnLine(a, n);
}

VOP(au_disconnect)
{
	int n = NodeIdx(a);
	LoadCtx(n);
	if (l_HaveZone && l_Node[n].conn) {
		ListenerScope ls(n);
		Endpoint::GetByName(l_Node[n].peer)->RemoveClient(l_Client[n]);
	}
	l_Node[n].conn = false;
	ConnLine(a, n);
}

VOP(au_timer)
{
	int n = NodeIdx(a);
	LoadCtx(n);
	l_Calls.clear();
	{
		ListenerScope ls(n);
		ApiListener::UpdateObjectAuthority();
	}
	std::ostringstream o;
	o << "tm " << a.pos.at(0) << " v=" << Vec() << " pa=" << CallVec(false) << " re=" << CallVec(true)
	  << " upd=" << (ApiListener::UpdatedObjectAuthority() ? 1 : 0)
	  << " idle=" << (l_Checker->GetIdleCheckables() + l_Checker->GetPendingCheckables());
	Out(o.str());
}

// au_notify A: a forced Custom notification is requested for every checkable
VOP(au_notify)
{
	int n = NodeIdx(a);
	LoadCtx(n);
	l_Calls.clear();
	std::vector<int> before = NotifNums();
	{
		ListenerScope ls(n);
		for (auto& ob : l_Objs) {
			Checkable::Ptr ck = dynamic_pointer_cast<Checkable>(ob.obj);
			if (!ck || !ck->IsActive()) continue;
			ck->SetForceNextNotification(true);
			ck->SendNotifications(NotificationCustom, nullptr, "au", "au");
		}
	}
	Out("nf " + a.pos.at(0) + " v=" + Vec() + " pa=" + CallVec(false) + " re=" + CallVec(true) + " sent=" + SentVec(before) + " stash=" + StashVec());
}

// au_nctimer A ha=0|1: NotificationComponent::NotificationTimerHandler with that enable_ha
VOP(au_nctimer)
{
	int n = NodeIdx(a);
	LoadCtx(n);
	l_Calls.clear();
	std::vector<int> before = NotifNums();
	l_NotifComp->SetEnableHA(a.num("ha", 1) != 0, true);
	{
		ListenerScope ls(n);
		l_NotifComp->NotificationTimerHandler();
	}
	Out("nt " + a.pos.at(0) + " v=" + Vec() + " pa=" + CallVec(false) + " re=" + CallVec(true) + " sent=" + SentVec(before) + " stash=" + StashVec());
}

static struct AuCaseEnd {
	AuCaseEnd() {
		RegisterCaseEnd([]() {
			if (l_Objs.empty() && !l_HaveZone) return;
			ApiListener::m_Instance = nullptr;
			if (l_HaveZone) {
				for (int n = 0; n < 2; n++) {
					Endpoint::Ptr e = Endpoint::GetByName(l_Node[n].me);
					if (e) { std::unique_lock<std::mutex> lock(e->m_ClientsLock); e->m_Clients.clear(); }
				}
			}
			for (auto it = l_Objs.rbegin(); it != l_Objs.rend(); ++it) RemoveObject(it->obj);
			l_Objs.clear();
			l_Calls.clear();
			l_Client[0] = nullptr; l_Client[1] = nullptr;
			l_Cur = -1; l_HaveZone = false;
			l_Node[0] = NodeCtx(); l_Node[1] = NodeCtx();
			ApiListener::m_UpdatedObjectAuthority.store(false);
			Application::SetStartTime(0);
		});
	}
} l_AuCaseEnd;
