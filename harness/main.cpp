#include "vdrive.hpp"
#include <atomic>
#include <ctime>
#include "base/application.hpp"
#include "base/configuration.hpp"
#include "base/logger.hpp"
#include "base/utility.hpp"
#include "base/scriptglobal.hpp"
#include "base/function.hpp"
#include "config/configcompiler.hpp"
#include "config/configitem.hpp"
#include "icinga/icingaapplication.hpp"
#include "remote/apilistener.hpp"
#include "remote/configobjectutility.hpp"
#include <fstream>
#include <cstdlib>

using namespace icinga;

static std::map<std::string, OpFn>& Ops() { static std::map<std::string, OpFn> m; return m; }
static std::vector<std::function<void()>>& CaseEnds() { static std::vector<std::function<void()>> v; return v; }
static std::string l_Scratch;
static std::string l_HbPath;
static long l_Case = -1;
static std::ostream *l_Out = &std::cout;
static bool l_ObsAll = true;
static std::vector<std::string> l_Obs;

bool ObsOn(const std::string& prefix)
{
	if (l_ObsAll) return true;
	for (auto& p : l_Obs) if (p == prefix) return true;
	return false;
}

void RegisterOp(const std::string& name, OpFn fn) { Ops()[name] = fn; }
void RegisterCaseEnd(std::function<void()> fn) { CaseEnds().push_back(fn); }
void Out(const std::string& line)
{
	(*l_Out) << line << "\n";
	// a case may legitimately crash the process (C15): make sure the runner sees which case it was
	if (line.compare(0, 5, "case ") == 0)
		l_Out->flush();
}
std::string ScratchDir() { return l_Scratch; }
// An op that waits legitimately for a long time without producing output (a real-time run, a machine-wide slot) says so:
// the runner kills a vdrive whose output AND heartbeat file have not grown for VERIF_STALL_S seconds.  Called from
// harness-owned loops only, never from code paths of the implementation (a spinning implementation must stay silent).
void Heartbeat()
{
	static std::atomic<long> last{0};
	long now = (long)time(nullptr);
	if (l_HbPath.empty() || now == last.load()) return;
	last.store(now);
	std::ofstream hb(l_HbPath, std::ios::app);
	hb << '.';
}
long CaseId() { return l_Case; }

std::string HexEnc(const std::string& s)
{
	static const char *d = "0123456789abcdef";
	std::string r;
	for (unsigned char c : s) { r += d[c >> 4]; r += d[c & 15]; }
	return r.empty() ? "-" : r;
}

std::string HexDec(const std::string& s)
{
	if (s == "-") return "";
	std::string r;
	for (size_t i = 0; i + 1 < s.size(); i += 2)
		r += (char)std::stoi(s.substr(i, 2), nullptr, 16);
	return r;
}

void LoadConfig(const std::string& text)
{
	String cfg = text;
	bool ok = ConfigItem::RunWithActivationContext(new Function("<vdrive>", [cfg]() {
		std::unique_ptr<Expression> expr = ConfigCompiler::CompileText("<vdrive>", cfg);
		expr->Evaluate(*ScriptFrame::GetCurrentFrame());
	}));
	if (!ok)
		throw std::runtime_error("config load failed");
}

void DrainThreadPool()
{
	Application::GetTP().Stop();
	Application::GetTP().Start();
}

static Args ParseLine(const std::string& line, std::string& op)
{
	Args a;
	std::istringstream is(line);
	std::string tok;
	bool first = true;
	while (is >> tok) {
		if (first) { op = tok; first = false; continue; }
		auto eq = tok.find('=');
		if (eq != std::string::npos && eq > 0) a.kv[tok.substr(0, eq)] = tok.substr(eq + 1);
		else a.pos.push_back(tok);
	}
	return a;
}

int main(int argc, char **argv)
{
	if (argc < 3) { std::cerr << "usage: vdrive <scratch-dir> <script> [out]\n"; return 2; }
	l_Scratch = argv[1];
	std::ifstream in(argv[2]);
	if (!in) { std::cerr << "cannot open script\n"; return 2; }
	std::ofstream outf;
	if (argc > 3) { outf.open(argv[3]); l_Out = &outf; l_HbPath = std::string(argv[3]) + ".hb"; }

	Utility::MkDirP(l_Scratch + "/data", 0700);
	Utility::MkDirP(l_Scratch + "/run", 0700);
	Utility::MkDirP(l_Scratch + "/cache", 0700);
	Utility::MkDirP(l_Scratch + "/log", 0700);
	Utility::MkDirP(l_Scratch + "/spool", 0700);
	Utility::MkDirP(l_Scratch + "/etc", 0700);

	Application::InitializeBase();
	Logger::DisableConsoleLog();
	Logger::DisableEarlyLogging();
	Configuration::DataDir = l_Scratch + "/data";
	Configuration::InitRunDir = l_Scratch + "/run";
	Configuration::CacheDir = l_Scratch + "/cache";
	Configuration::LogDir = l_Scratch + "/log";
	Configuration::SpoolDir = l_Scratch + "/spool";
	Configuration::ConfigDir = l_Scratch + "/etc";
	Configuration::Concurrency = 2;
	Configuration::ObjectsPath = l_Scratch + "/cache/icinga2.debug";
	Configuration::StatePath = l_Scratch + "/data/icinga2.state";
	Configuration::ModAttrPath = l_Scratch + "/data/modified-attributes.conf";
	Configuration::VarsPath = l_Scratch + "/cache/icinga2.vars";
	Configuration::PidPath = l_Scratch + "/run/icinga2.pid";
	ScriptGlobal::Set("NodeName", "vdrive-node");

	IcingaApplication::Ptr app = new IcingaApplication();
	static_pointer_cast<ConfigObject>(app)->OnConfigLoaded();

	ConfigObjectUtility::CreateStorage();

	std::string line;
	long lineno = 0;
	int rc = 0;
	while (std::getline(in, line)) {
		lineno++;
		if (line.empty() || line[0] == '#') continue;
		std::string op;
		Args a = ParseLine(line, op);
		try {
			if (op == "case") {
				l_Case = std::stol(a.pos.at(0));
				Out("case " + a.pos.at(0));
				l_Out->flush(); // a crash inside the case must not lose the case marker (runner attributes the CRASH to it)
			} else if (op == "obs") {
				l_ObsAll = false;
				l_Obs = a.pos;
			} else if (op == "end") {
				for (auto& f : CaseEnds()) f();
				Out("end");
				l_Out->flush();
			} else {
				auto it = Ops().find(op);
				if (it == Ops().end()) { std::cerr << "unknown op '" << op << "' line " << lineno << "\n"; return 2; }
				it->second(a);
			}
		} catch (const std::exception& ex) {
			std::cerr << "harness error at line " << lineno << " (" << line << "): " << DiagnosticInformation(ex, false) << "\n";
			Out("HARNESS-ERROR line " + std::to_string(lineno));
			rc = 2;
			break;
		}
	}
	l_Out->flush();
	// leave without running static destructors of half the daemon: nothing to persist here
	_exit(rc);
}
