// Checkable fixture (C01, C02, C05, C06): real Host/Service objects loaded from config text,
// real ProcessCheckResult, observations through getters the API exposes and Boost signals.
#include "vdrive.hpp"
#include "base/utility.hpp"
#include "base/configtype.hpp"
#include "config/configitem.hpp"
#include "icinga/host.hpp"
#include "icinga/service.hpp"
#include "icinga/checkcommand.hpp"
#include "icinga/notification.hpp"
#include "remote/apilistener.hpp"

using namespace icinga;

static Checkable::Ptr l_Ck;          // the subject of the current case
static Host::Ptr l_Host;
static std::vector<std::string> l_Ev; // signal events since last flush
static bool l_Init = false;

Checkable::Ptr CkSubject() { return l_Ck; }
Host::Ptr CkHost() { return l_Host; }
std::vector<std::string>& CkEvents() { return l_Ev; }

// worker threads of ck_conc (ops_ckconc.cpp) record their events themselves: the handlers below stay on the main thread
static thread_local bool tl_Quiet = false;
void CkQuietThread(bool q) { tl_Quiet = q; }

static bool Mine(const Checkable::Ptr& c) { return !tl_Quiet && l_Ck && (c == l_Ck); }

static void InitOnce()
{
	if (l_Init) return;
	l_Init = true;
	LoadConfig("object CheckCommand \"vdummy\" { command = [ \"/bin/true\" ] }\n");
	Checkable::OnStateChange.connect([](const Checkable::Ptr& c, const CheckResult::Ptr&, StateType t, const MessageOrigin::Ptr&) {
		if (Mine(c)) l_Ev.push_back(t == StateTypeHard ? "sc=H" : "sc=S");
	});
	Checkable::OnNewCheckResult.connect([](const Checkable::Ptr& c, const CheckResult::Ptr&, const MessageOrigin::Ptr&) {
		if (Mine(c)) l_Ev.push_back("ncr");
	});
	Checkable::OnNotificationsRequested.connect([](const Checkable::Ptr& c, NotificationType t, const CheckResult::Ptr&,
		const String&, const String&, const MessageOrigin::Ptr&) {
		if (Mine(c)) l_Ev.push_back("nr=" + std::to_string((int)t));
	});
	Checkable::OnAcknowledgementSet.connect([](const Checkable::Ptr& c, const String&, const String&, AcknowledgementType t,
		bool notify, bool persistent, double, double expiry, const MessageOrigin::Ptr&) {
		if (Mine(c)) l_Ev.push_back("ackset=" + std::to_string((int)t));
	});
	Checkable::OnAcknowledgementCleared.connect([](const Checkable::Ptr& c, const String&, double, const MessageOrigin::Ptr&) {
		if (Mine(c)) l_Ev.push_back("ackclr");
	});
}

static std::string Vars(const Dictionary::Ptr& d)
{
	if (!d) return "-";
	std::ostringstream o;
	o << (long)d->Get("state") << "/" << (long)d->Get("state_type") << "/" << (long)d->Get("attempt");
	return o.str();
}

std::string CkStateLine()
{
	std::ostringstream o;
	Host::Ptr host = dynamic_pointer_cast<Host>(l_Ck);
	Service::Ptr svc = dynamic_pointer_cast<Service>(l_Ck);
	long st, lh;
	if (host) { st = host->GetState(); lh = host->GetLastHardState(); }
	else { st = svc->GetState(); lh = svc->GetLastHardState(); }
	o << "st=" << st << " ty=" << (long)l_Ck->GetStateType() << " at=" << l_Ck->GetCheckAttempt() << " lh=" << lh;
	return o.str();
}

std::string CkFlushEvents()
{
	std::string r;
	for (auto& e : l_Ev) {
		std::string pfx = e.substr(0, e.find('='));
		if (!ObsOn(pfx)) continue;
		r += " "; r += e;
	}
	l_Ev.clear();
	return r;
}

VOP(now)
{
	Utility::VerifSetTime(std::stod(a.pos.at(0)));
}

VOP(ck_new)
{
	InitOnce();
	std::string hn = "h" + std::to_string(CaseId());
	bool svc = a.str("kind", "host") == "svc";
	std::ostringstream c;
	auto attrs = [&](bool subject) {
		std::ostringstream o;
		o << "  check_command = \"vdummy\"\n  enable_active_checks = false\n";
		if (subject) {
			o << "  max_check_attempts = " << a.num("max", 3) << "\n";
			o << "  volatile = " << (a.num("vol", 0) ? "true" : "false") << "\n";
			o << "  enable_flapping = " << (a.num("flap", 0) ? "true" : "false") << "\n";
			o << "  check_interval = " << a.num("ci", 300) << "\n  retry_interval = " << a.num("ri", 60) << "\n";
		} else {
			o << "  max_check_attempts = 1\n";
		}
		return o.str();
	};
	c << "object Host \"" << hn << "\" {\n" << attrs(!svc) << "}\n";
	if (svc)
		c << "object Service \"s\" {\n  host_name = \"" << hn << "\"\n" << attrs(true) << "}\n";
	LoadConfig(c.str());
	ApiListener::UpdateObjectAuthority();
	l_Host = Host::GetByName(hn);
	if (svc) l_Ck = Service::GetByNamePair(hn, "s"); else l_Ck = l_Host;
	if (!l_Ck) throw std::runtime_error("subject not created");
	l_Ev.clear();
}

// cr state=<0..3> [start=T end=T] [active=0|1] [on=host]   -- "on=host" feeds the service's host instead
VOP(cr)
{
	Checkable::Ptr target = (a.str("on") == "host") ? Checkable::Ptr(l_Host) : l_Ck;
	CheckResult::Ptr cr = new CheckResult();
	double now = Utility::GetTime();
	cr->SetState((ServiceState)a.num("state"));
	double st = a.has("start") ? a.dbl("start") : now;
	double en = a.has("end") ? a.dbl("end") : now;
	cr->SetScheduleStart(st);
	cr->SetScheduleEnd(en);
	cr->SetExecutionStart(st);
	cr->SetExecutionEnd(en);
	cr->SetActive(a.num("active", 1) != 0);
	cr->SetOutput("vdrive");
	auto res = target->ProcessCheckResult(cr);
	if (target != l_Ck) { Out("hostcr " + std::to_string((int)res)); return; }
	std::ostringstream o;
	o << "cr res=" << (int)res << " " << CkStateLine();
	if (res == Checkable::ProcessingResult::Ok)
		o << " ph=" << (long)cr->GetPreviousHardState() << " vb=" << Vars(cr->GetVarsBefore()) << " va=" << Vars(cr->GetVarsAfter());
	o << CkFlushEvents();
	Out(o.str());
}

static void RemoveObject(const ConfigObject::Ptr& obj)
{
	if (!obj) return;
	Type::Ptr type = obj->GetReflectionType();
	String name = obj->GetName();
	try { obj->Deactivate(true); } catch (...) {}
	obj->Unregister();
	ConfigItem::Ptr item = ConfigItem::GetByTypeAndName(type, name);
	if (item) item->Unregister();
}

void CkRemoveObject(const ConfigObject::Ptr& obj) { RemoveObject(obj); }

static struct CkCaseEnd {
	CkCaseEnd() {
		RegisterCaseEnd([]() {
			if (!l_Host) return;
			Host::Ptr h = l_Host;
			l_Ck = nullptr; l_Host = nullptr;
			for (const Service::Ptr& s : h->GetServices()) RemoveObject(s);
			RemoveObject(h);
			l_Ev.clear();
		});
	}
} l_CkCaseEnd;
