// C03 fixture: real Host/Service + Notification + User + UserGroup + TimePeriod + NotificationCommand objects
// from config text; Checkable::SendNotifications and NotificationComponent::NotificationTimerHandler are
// called directly under the virtual clock; observations are the Boost signals OnNotificationSentToAllUsers,
// OnNotificationSentToUser, OnLastNotifiedStatePerUserCleared and the Notification's bookkeeping attributes.
#include <string>
#include <vector>
#include <map>
#include <set>
#include <sstream>
#include <algorithm>
#include <mutex>
#include "vdrive.hpp"
#include "base/utility.hpp"
#include "base/configtype.hpp"
#include "base/function.hpp"
#include "icinga/host.hpp"
#include "icinga/service.hpp"
#include "icinga/dependency.hpp"
#include "icinga/downtime.hpp"
#include "icinga/notification.hpp"
#include "icinga/notificationcommand.hpp"
#include "icinga/user.hpp"
#include "icinga/usergroup.hpp"
#include "icinga/timeperiod.hpp"
#include "icinga/icingaapplication.hpp"
#include "notification/notificationcomponent.hpp"
#include "remote/apilistener.hpp"
#include "remote/endpoint.hpp"
#include "remote/zone.hpp"

using namespace icinga;

extern void CkRemoveObject(const ConfigObject::Ptr& obj);

static Checkable::Ptr n_Ck;
static Host::Ptr n_Host, n_Parent;
static Notification::Ptr n_Nf;
static TimePeriod::Ptr n_Tp;
static std::map<long, User::Ptr> n_Users;
static std::map<long, TimePeriod::Ptr> n_UserTp;
static UserGroup::Ptr n_Group;
static String n_DtName;
static bool n_ParentDown = false;
static bool n_Init = false;
static std::vector<std::string> n_Ev;          // synchronous events of the current op, in order
static std::mutex n_CmdMutex;
static std::vector<std::string> n_Cmd;         // (type:user) per executed command, any order
static long n_CmdCalls = 0;
static NotificationComponent::Ptr n_Comp;      // never started: its handlers are called directly / through the signal
static ApiListener::Ptr n_Listener;            // never started, PKI-less; only visible while an op runs with ha=1
static bool n_Ha = false;
static bool n_InReq = false;                    // only requests scripted by nf_req are routed (AddDowntime etc. fire the signal too)
static std::string n_Rq = "-";                 // type seen on Checkable::OnNotificationsRequested in the current op

// local endpoint && enable_ha: make the (never started) ApiListener and its local endpoint visible for one op
struct NfHaScope {
	NfHaScope() {
		if (!n_Ha) return;
		n_Listener->m_LocalEndpoint = Endpoint::GetByName("vnf-ep");
		n_Listener->SetIdentity("vnf-ep");
		ApiListener::m_Instance = n_Listener;
	}
	~NfHaScope() { if (n_Ha) ApiListener::m_Instance = nullptr; }
};

static long UserId(const String& name)
{
	std::string s = name;
	auto p = s.rfind('_');
	return std::stol(s.substr(p + 1));
}

static std::string UserSet(const std::set<User::Ptr>& us)
{
	std::vector<long> ids;
	for (const User::Ptr& u : us) ids.push_back(UserId(u->GetName()));
	std::sort(ids.begin(), ids.end());
	std::string r;
	for (size_t i = 0; i < ids.size(); i++) r += (i ? "+" : "") + std::to_string(ids[i]);
	return r.empty() ? "0" : r;
}

static void InitOnce()
{
	if (n_Init) return;
	n_Init = true;
	LoadConfig("object CheckCommand \"vnfdummy\" { command = [ \"/bin/true\" ] }\n"
		"object NotificationCommand \"vnfcmd\" { command = [ \"/bin/true\" ] }\n");
	LoadConfig("object Endpoint \"vnf-ep\" { }\nobject Zone \"vnf-zone\" { endpoints = [ \"vnf-ep\" ] }\n");
	n_Listener = new ApiListener();
	n_Comp = new NotificationComponent();
	n_Comp->SetEnableHA(true);
	// what NotificationComponent::Start() connects: the request signal fires BEFORE SendNotifications' own gates
	Checkable::OnNotificationsRequested.connect([](const Checkable::Ptr& checkable, NotificationType type, const CheckResult::Ptr& cr,
		const String& author, const String& text, const MessageOrigin::Ptr&) {
		if (!(n_InReq && n_Ck && checkable == n_Ck)) return;
		n_Rq = std::to_string((int)type);
		n_Comp->SendNotificationsHandler(checkable, type, cr, author, text);
	});
	NotificationCommand::Ptr nc = NotificationCommand::GetByName("vnfcmd");
	nc->SetExecute(new Function("<vnf>", []() {
		std::unique_lock<std::mutex> lock(n_CmdMutex);
		n_CmdCalls++;
	}), true);
	Checkable::OnNotificationSentToAllUsers.connect([](const Notification::Ptr& n, const Checkable::Ptr&, const std::set<User::Ptr>& users,
		const NotificationType& type, const CheckResult::Ptr&, const String&, const String&, const MessageOrigin::Ptr&) {
		if (n_Nf && n == n_Nf) n_Ev.push_back("D" + std::to_string((int)type) + ":" + UserSet(users));
	});
	Notification::OnLastNotifiedStatePerUserCleared.connect([](const Notification::Ptr& n, const MessageOrigin::Ptr&) {
		if (n_Nf && n == n_Nf) n_Ev.push_back("C");
	});
	Checkable::OnNotificationSentToUser.connect([](const Notification::Ptr& n, const Checkable::Ptr&, const User::Ptr& user,
		const NotificationType& type, const CheckResult::Ptr&, const String&, const String&, const String&, const MessageOrigin::Ptr&) {
		if (!(n_Nf && n == n_Nf)) return;
		std::unique_lock<std::mutex> lock(n_CmdMutex);
		n_Cmd.push_back(std::to_string((int)type) + ":" + std::to_string(UserId(user->GetName())));
	});
}

static std::string MaskList(long mask, const std::vector<long>& bits)
{
	std::string r = "[ ";
	bool first = true;
	for (long b : bits) if (mask & b) { r += (first ? "" : ", ") + std::to_string(b); first = false; }
	return r + " ]";
}

static const std::vector<long> kTypeBits = { 1, 2, 4, 8, 16, 32, 64, 128, 256 };
static const std::vector<long> kStateBits = { 1, 2, 4, 8, 16, 32 };

static std::vector<long> IdList(const std::string& s)
{
	std::vector<long> r;
	if (s.empty() || s == "-") return r;
	std::istringstream is(s);
	std::string t;
	while (std::getline(is, t, ',')) r.push_back(std::stol(t));
	return r;
}

static void SetPeriod(const TimePeriod::Ptr& tp, bool open)
{
	if (!tp) return;
	ObjectLock olock(tp);
	Array::Ptr segs = new Array();
	if (open)
		segs->Add(new Dictionary({ { "begin", 1.0 }, { "end", 9000000000.0 } }));
	tp->SetSegments(segs);
	tp->SetValidBegin(1.0);
	tp->SetValidEnd(9000000000.0);
}

// nf_new kind=host|svc interval=I types=M|-1 states=M|-1 per=0|1 begin=N|- end=N|- nu=K u<i>=types:states:per du=1,2 g=2,3|-
VOP(nf_new)
{
	InitOnce();
	std::string id = std::to_string(CaseId());
	std::string hn = "nh" + id, pn = "np" + id;
	bool svc = a.str("kind", "host") == "svc";
	std::ostringstream c;
	std::string tpdef = " {\n  update = function(tp, b, e) { return [] }\n}\n";
	c << "object Host \"" << pn << "\" {\n  check_command = \"vnfdummy\"\n  enable_active_checks = false\n  max_check_attempts = 1\n}\n";
	std::string subj = "  check_command = \"vnfdummy\"\n  enable_active_checks = false\n  enable_flapping = true\n  check_interval = 300\n";
	if (svc) {
		c << "object Host \"" << hn << "\" {\n  check_command = \"vnfdummy\"\n  enable_active_checks = false\n}\n";
		c << "object Service \"s\" {\n  host_name = \"" << hn << "\"\n" << subj << "}\n";
	} else {
		c << "object Host \"" << hn << "\" {\n" << subj << "}\n";
	}
	c << "object Dependency \"nd" << id << "\" {\n  parent_host_name = \"" << pn << "\"\n  child_host_name = \"" << hn << "\"\n";
	if (svc) c << "  child_service_name = \"s\"\n";
	c << "}\n";
	long nu = a.num("nu", 1);
	std::vector<long> grp = IdList(a.str("g", "-"));
	bool hasGroup = a.str("g", "-") != "-";
	if (hasGroup) c << "object UserGroup \"vg" << id << "\" { }\n";
	for (long i = 1; i <= nu; i++) {
		std::string spec = a.str("u" + std::to_string(i), "-1:-1:0");
		std::vector<std::string> f;
		{ std::istringstream is(spec); std::string t; while (std::getline(is, t, ':')) f.push_back(t); }
		long ut = std::stol(f.at(0)), us = std::stol(f.at(1)), up = std::stol(f.at(2));
		if (up) c << "object TimePeriod \"vtu" << id << "_" << i << "\"" << tpdef;
		c << "object User \"vu" << id << "_" << i << "\" {\n";
		if (ut != -1) c << "  types = " << MaskList(ut, kTypeBits) << "\n";
		if (us != -1) c << "  states = " << MaskList(us, kStateBits) << "\n";
		if (up) c << "  period = \"vtu" << id << "_" << i << "\"\n";
		if (std::find(grp.begin(), grp.end(), i) != grp.end()) c << "  groups = [ \"vg" << id << "\" ]\n";
		c << "}\n";
	}
	if (a.num("per", 0)) c << "object TimePeriod \"vtn" << id << "\"" << tpdef;
	c << "object Notification \"n\" {\n  host_name = \"" << hn << "\"\n";
	if (svc) c << "  service_name = \"s\"\n";
	c << "  command = \"vnfcmd\"\n  interval = " << a.num("interval", 1800) << "\n";
	{
		std::vector<long> du = IdList(a.str("du", "-"));
		c << "  users = [ ";
		for (size_t i = 0; i < du.size(); i++) c << (i ? ", " : "") << "\"vu" << id << "_" << du[i] << "\"";
		c << " ]\n";
		if (hasGroup) c << "  user_groups = [ \"vg" << id << "\" ]\n";
	}
	if (a.num("types", -1) != -1) c << "  types = " << MaskList(a.num("types"), kTypeBits) << "\n";
	if (a.num("states", -1) != -1) c << "  states = " << MaskList(a.num("states"), kStateBits) << "\n";
	if (a.num("per", 0)) c << "  period = \"vtn" << id << "\"\n";
	if (a.str("begin", "-") != "-" || a.str("end", "-") != "-") {
		c << "  times = {\n";
		if (a.str("begin", "-") != "-") c << "    begin = " << a.str("begin") << "\n";
		if (a.str("end", "-") != "-") c << "    end = " << a.str("end") << "\n";
		c << "  }\n";
	}
	c << "}\n";
	LoadConfig(c.str());
	ApiListener::UpdateObjectAuthority();
	n_Host = Host::GetByName(hn);
	n_Parent = Host::GetByName(pn);
	if (svc) n_Ck = Service::GetByNamePair(hn, "s"); else n_Ck = n_Host;
	n_Nf = Notification::GetByName(hn + (svc ? "!s" : "") + "!n");
	if (!n_Ck || !n_Parent || !n_Nf) throw std::runtime_error("nf fixture not created");
	if (svc) n_Host->SetStateRaw(ServiceOK);
	n_Tp = a.num("per", 0) ? TimePeriod::GetByName("vtn" + id) : nullptr;
	SetPeriod(n_Tp, true);
	n_Users.clear(); n_UserTp.clear();
	for (long i = 1; i <= nu; i++) {
		n_Users[i] = User::GetByName("vu" + id + "_" + std::to_string(i));
		TimePeriod::Ptr tp = TimePeriod::GetByName("vtu" + id + "_" + std::to_string(i));
		if (tp) { n_UserTp[i] = tp; SetPeriod(tp, true); }
	}
	n_Group = hasGroup ? UserGroup::GetByName("vg" + id) : nullptr;
	n_DtName = "";
	n_ParentDown = false;
	n_Ev.clear();
	{ std::unique_lock<std::mutex> lock(n_CmdMutex); n_Cmd.clear(); }
}

static CheckResult::Ptr MkCr(long state)
{
	CheckResult::Ptr cr = new CheckResult();
	double now = Utility::GetTime();
	cr->SetState((ServiceState)state);
	cr->SetScheduleStart(now); cr->SetScheduleEnd(now);
	cr->SetExecutionStart(now); cr->SetExecutionEnd(now);
	cr->SetActive(false);
	cr->SetOutput("vdrive");
	return cr;
}

// nf_ctx raw= hard= lhsc= vol= gen= cen= dt= ack= reach= flap= cks= paused= auth= per=(1 = closed) uen=ids ucl=ids cr=-1|0|1 soon=
VOP(nf_ctx)
{
	n_Ck->SetStateRaw((ServiceState)a.num("raw", 0));
	n_Ck->SetStateType(a.num("hard", 1) ? StateTypeHard : StateTypeSoft);
	n_Ck->SetLastHardStateChange(a.dbl("lhsc", 0));
	n_Ck->SetVolatile(a.num("vol", 0) != 0);
	IcingaApplication::GetInstance()->SetEnableNotifications(a.num("gen", 1) != 0);
	n_Ck->SetEnableNotifications(a.num("cen", 1) != 0);
	bool dt = a.num("dt", 0) != 0;
	if (dt && n_DtName.IsEmpty()) {
		String name = n_Ck->GetName() + "!vnfdt" + std::to_string(CaseId());
		Downtime::Ptr nd = Downtime::AddDowntime(n_Ck, "vd", "c", 1.0, 9000000000.0, true, nullptr, 0, "", "", "", name);
		nd->SetAuthority(true);
		n_DtName = nd->GetName();
	} else if (!dt && !n_DtName.IsEmpty()) {
		Downtime::RemoveDowntime(n_DtName, false, DowntimeRemovedByUser, "vd");
		n_DtName = "";
	}
	n_Ck->SetAcknowledgementRaw(a.num("ack", 0) ? AcknowledgementNormal : AcknowledgementNone);
	n_Ck->SetAcknowledgementExpiry(0);
	bool down = a.num("reach", 1) == 0;
	if (down != n_ParentDown || !n_Parent->GetLastCheckResult()) {
		n_Parent->ProcessCheckResult(MkCr(down ? 2 : 0));
		n_ParentDown = down;
	}
	n_Ck->SetFlapping(a.num("flap", 0) != 0);
	n_Ck->SetSuppressedNotifications(a.num("cks", 0) ? (int)NotificationProblem : 0);
	n_Nf->SetAuthority(a.num("paused", 0) == 0);
	n_Ha = a.num("ha", 0) != 0;
	ApiListener::m_UpdatedObjectAuthority.store(a.num("auth", 1) != 0);
	SetPeriod(n_Tp, a.num("per", 0) == 0);
	{
		std::vector<long> en = IdList(a.str("uen", "-")), cl = IdList(a.str("ucl", "-"));
		for (auto& kv : n_Users)
			kv.second->SetEnableNotifications(std::find(en.begin(), en.end(), kv.first) != en.end());
		for (auto& kv : n_UserTp)
			SetPeriod(kv.second, std::find(cl.begin(), cl.end(), kv.first) == cl.end());
	}
	long cr = a.num("cr", -1);
	n_Ck->SetLastCheckResult(cr < 0 ? CheckResult::Ptr() : MkCr(cr ? 0 : 2));
	{
		ObjectLock olock(n_Ck);
		n_Ck->SetEnableActiveChecks(a.num("soon", 0) != 0);
		n_Ck->SetNextCheck(a.num("soon", 0) ? 0.0 : 9000000000.0);
	}
	n_Ev.clear();
}

static std::string T(double t) { std::ostringstream o; o << (long long)t; return o.str(); }

static std::string NfLine()
{
	DrainThreadPool();
	std::ostringstream o;
	o << "ev=";
	if (n_Ev.empty()) o << "-";
	for (size_t i = 0; i < n_Ev.size(); i++) o << (i ? "," : "") << n_Ev[i];
	n_Ev.clear();
	std::vector<std::string> cmd;
	long calls;
	{ std::unique_lock<std::mutex> lock(n_CmdMutex); cmd = n_Cmd; n_Cmd.clear(); calls = n_CmdCalls; n_CmdCalls = 0; }
	std::sort(cmd.begin(), cmd.end());
	o << " cmd=";
	if (cmd.empty()) o << "-";
	for (size_t i = 0; i < cmd.size(); i++) o << (i ? "," : "") << cmd[i];
	o << " calls=" << calls;
	{
		std::vector<long> ids;
		Array::Ptr npu = n_Nf->GetNotifiedProblemUsers();
		ObjectLock olock(npu);
		for (const String& name : npu) ids.push_back(UserId(name));
		std::sort(ids.begin(), ids.end());
		o << " npu=";
		if (ids.empty()) o << "-";
		for (size_t i = 0; i < ids.size(); i++) o << (i ? "," : "") << ids[i];
	}
	{
		std::vector<std::pair<long, long>> kv;
		Dictionary::Ptr d = n_Nf->GetLastNotifiedStatePerUser();
		ObjectLock olock(d);
		for (const Dictionary::Pair& p : d) kv.emplace_back(UserId(p.first), (long)(double)p.second);
		std::sort(kv.begin(), kv.end());
		o << " lns=";
		if (kv.empty()) o << "-";
		for (size_t i = 0; i < kv.size(); i++) o << (i ? "," : "") << kv[i].first << ":" << kv[i].second;
	}
	o << " next=" << T(n_Nf->GetNextNotification()) << " nm=" << (n_Nf->GetNoMoreNotifications() ? 1 : 0)
	  << " num=" << n_Nf->GetNotificationNumber() << " last=" << T(n_Nf->GetLastNotification())
	  << " lp=" << T(n_Nf->GetLastProblemNotification()) << " sup=" << n_Nf->GetSuppressedNotifications();
	{
		Array::Ptr st = n_Nf->GetStashedNotifications();
		ObjectLock olock(st);
		o << " stash=";
		if (st->GetLength() == 0) o << "-";
		bool first = true;
		for (const Dictionary::Ptr& d : st) {
			o << (first ? "" : ",") << (long)d->Get("notification_type") << (d->Get("force").ToBool() ? "f" : "n");
			first = false;
		}
	}
	return o.str();
}

VOP(nf_req)
{
	n_Ev.clear();
	n_Rq = "-";
	n_Ck->SetForceNextNotification(a.num("force", 0) != 0);
	{
		NfHaScope ha;
		n_InReq = true;
		Checkable::OnNotificationsRequested(n_Ck, (NotificationType)a.num("type", 32), n_Ck->GetLastCheckResult(), "vd", "t", nullptr);
		n_InReq = false;
	}
	Out("nf_req rq=" + n_Rq + " " + NfLine());
}

VOP(nf_tick)
{
	n_Ev.clear();
	{
		NfHaScope ha;
		n_Comp->NotificationTimerHandler();
	}
	Out("nf_tick " + NfLine());
}

static struct NfCaseEnd {
	NfCaseEnd() {
		RegisterCaseEnd([]() {
			if (!n_Ck) return;
			DrainThreadPool();
			IcingaApplication::GetInstance()->SetEnableNotifications(true);
			ApiListener::m_UpdatedObjectAuthority.store(true);
			ApiListener::m_Instance = nullptr;
			n_Ha = false;
			Checkable::Ptr ck = n_Ck;
			n_Ck = nullptr;
			if (!n_DtName.IsEmpty()) { try { Downtime::RemoveDowntime(n_DtName, false, DowntimeRemovedByConfigOwner, ""); } catch (...) {} n_DtName = ""; }
			Notification::Ptr nf = n_Nf; n_Nf = nullptr;
			CkRemoveObject(nf);
			for (const Dependency::Ptr& d : ConfigType::GetObjectsByType<Dependency>())
				if (d->GetChild() == ck) CkRemoveObject(d);
			Host::Ptr h = n_Host, p = n_Parent;
			n_Host = nullptr; n_Parent = nullptr;
			for (const Service::Ptr& s : h->GetServices()) CkRemoveObject(s);
			CkRemoveObject(h);
			CkRemoveObject(p);
			for (auto& kv : n_Users) CkRemoveObject(kv.second);
			for (auto& kv : n_UserTp) CkRemoveObject(kv.second);
			if (n_Group) CkRemoveObject(n_Group);
			if (n_Tp) CkRemoveObject(n_Tp);
			n_Users.clear(); n_UserTp.clear(); n_Group = nullptr; n_Tp = nullptr;
			n_Ev.clear();
			{ std::unique_lock<std::mutex> lock(n_CmdMutex); n_Cmd.clear(); n_CmdCalls = 0; }
		});
	}
} n_NfCaseEnd;
